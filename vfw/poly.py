"""Polynomial normal forms modulo the Pythagorean relations and the *linearised* entailment check.

A z3 arithmetic term that is a polynomial over real constants (and opaque applications) is converted into a dict
monomial -> Fraction.  Powers of `sin!a` are reduced with sin^2 = 1 - cos^2, which is a canonical form in
R[c,s]/(c^2+s^2-1).  For entailment under polynomial hypotheses every distinct monomial becomes a fresh real and z3
decides the *linear* problem (sound: a linear consequence is a consequence; incomplete).  Optionally hypotheses are
multiplied by atoms first (degree lifting).
"""
from fractions import Fraction
import z3


class NotPoly(Exception):
    pass


def _mono_mul(m1, m2):
    d = dict(m1)
    for v, p in m2:
        d[v] = d.get(v, 0) + p
    return tuple(sorted(d.items()))


def p_add(a, b, sign=1):
    r = dict(a)
    for m, c in b.items():
        r[m] = r.get(m, 0) + sign * c
        if r[m] == 0:
            del r[m]
    return r


def p_mul(a, b):
    r = {}
    for m1, c1 in a.items():
        for m2, c2 in b.items():
            m = _mono_mul(m1, m2)
            r[m] = r.get(m, 0) + c1 * c2
            if r[m] == 0:
                del r[m]
    return r


def p_const(c):
    c = Fraction(c)
    return {(): c} if c != 0 else {}


def p_var(name):
    return {((name, 1),): Fraction(1)}


def _reduce(p):
    """replace sin!a^k (k>=2) by (1-cos!a^2)*sin!a^(k-2) until fixpoint"""
    changed = True
    while changed:
        changed = False
        out = {}
        for m, c in p.items():
            hit = None
            for v, pw in m:
                if v.startswith("sin!") and pw >= 2:
                    hit = (v, pw)
                    break
            if hit is None:
                out[m] = out.get(m, 0) + c
                if out[m] == 0:
                    del out[m]
                continue
            changed = True
            v, pw = hit
            rest = tuple((x, q) for x, q in m if x != v)
            if pw - 2 > 0:
                rest = _mono_mul(rest, ((v, pw - 2),))
            cosv = "cos!" + v[4:]
            for mm, cc in (((), c), (((cosv, 2),), -c)):
                m2 = _mono_mul(rest, mm)
                out[m2] = out.get(m2, 0) + cc
                if out[m2] == 0:
                    del out[m2]
        p = out
    return p


def _num(e):
    if z3.is_rational_value(e):
        return Fraction(e.numerator_as_long(), e.denominator_as_long())
    if z3.is_int_value(e):
        return Fraction(e.as_long())
    return None


def to_poly(e, depth=0):
    n = _num(e)
    if n is not None:
        return p_const(n)
    if z3.is_algebraic_value(e):
        raise NotPoly("algebraic")
    k = e.decl().kind()
    ch = e.children()
    if k == z3.Z3_OP_ADD:
        r = {}
        for c in ch:
            r = p_add(r, to_poly(c))
        return r
    if k == z3.Z3_OP_SUB:
        r = to_poly(ch[0])
        for c in ch[1:]:
            r = p_add(r, to_poly(c), -1)
        return r
    if k == z3.Z3_OP_UMINUS:
        return p_add({}, to_poly(ch[0]), -1)
    if k == z3.Z3_OP_MUL:
        r = p_const(1)
        for c in ch:
            r = p_mul(r, to_poly(c))
            if len(r) > 20000:
                raise NotPoly("too large")
        return r
    if k == z3.Z3_OP_DIV:
        d = _num(z3.simplify(ch[1]))
        if d is None or d == 0:
            raise NotPoly("division by non-constant")
        return p_mul(to_poly(ch[0]), p_const(1 / d))
    if k == z3.Z3_OP_POWER:
        d = _num(z3.simplify(ch[1]))
        if d is None or d.denominator != 1 or d < 0 or d > 8:
            raise NotPoly("power")
        r = p_const(1)
        b = to_poly(ch[0])
        for _ in range(int(d)):
            r = p_mul(r, b)
        return r
    if k == z3.Z3_OP_TO_REAL:
        return to_poly(ch[0])
    if k == z3.Z3_OP_UNINTERPRETED:
        if not ch:
            return p_var(e.decl().name())
        return p_var(e.sexpr())
    if k == z3.Z3_OP_ITE:
        raise NotPoly("ite")
    raise NotPoly(f"op {e.decl().name()}")


def normal(e):
    return _reduce(to_poly(z3.simplify(e, som=False)))


def poly_eq_zero(e1, e2):
    """True when e1 - e2 reduces to the zero polynomial (purely syntactic decision, no solver)"""
    try:
        return not _reduce(p_add(to_poly(e1), to_poly(e2), -1))
    except NotPoly:
        return None


# ---- linearised entailment


def _atoms_of(f):
    """split a z3 Bool into a list of (kind, lhs-rhs poly) for ==, <=, <, >=, > ; None if not translatable"""
    if z3.is_and(f):
        out = []
        for c in f.children():
            a = _atoms_of(c)
            if a is None:
                return None
            out += a
        return out
    if z3.is_eq(f) or z3.is_le(f) or z3.is_lt(f) or z3.is_ge(f) or z3.is_gt(f):
        a, b = f.children()
        if z3.is_bool(a):
            return None
        try:
            p = _reduce(p_add(to_poly(a), to_poly(b), -1))
        except NotPoly:
            return None
        kind = "==" if z3.is_eq(f) else "<=" if z3.is_le(f) else "<" if z3.is_lt(f) else ">=" if z3.is_ge(f) else ">"
        return [(kind, p)]
    if z3.is_true(f):
        return []
    return None


def _lin(p, mvars):
    t = z3.RealVal(0)
    for m, c in p.items():
        if m == ():
            t = t + z3.RealVal(c)
        else:
            if m not in mvars:
                mvars[m] = z3.Real("m!" + "*".join(f"{v}^{pw}" for v, pw in m))
            t = t + z3.RealVal(c) * mvars[m]
    return t


def _rel(kind, t):
    return {"==": t == 0, "<=": t <= 0, "<": t < 0, ">=": t >= 0, ">": t > 0}[kind]


def linear_entails(hyps, goal, lift_vars=(), timeout_ms=10000):
    """returns 'unsat' (entailed), or 'unknown'.  Never 'sat': a linear counter-model is not a real one."""
    g = _atoms_of(goal)
    if g is None:
        return "unknown", 0
    mvars = {}
    s = z3.Solver()
    s.set("timeout", timeout_ms)
    n = 0
    hy = []
    for h in hyps:
        a = _atoms_of(h)
        if a is None:
            continue
        hy += a
    for kind, p in hy:
        s.add(_rel(kind, _lin(p, mvars)))
        n += 1
        if kind == "==":
            for lv in lift_vars:
                for q in lv if isinstance(lv, (list, tuple)) else [lv]:
                    s.add(_rel("==", _lin(_reduce(p_mul(p, q)), mvars)))
                    n += 1
    # squares are non-negative, cos/sin monomials bounded (cheap, sound facts)
    for m, v in list(mvars.items()):
        if all(pw % 2 == 0 for _, pw in m):
            s.add(v >= 0)
    s.add(z3.Not(z3.And(*[_rel(k, _lin(p, mvars)) for k, p in g])))
    r = s.check()
    return ("unsat" if r == z3.unsat else "unknown"), n
