"""AST interpreter for the functions under contract.

The interpreter re-reads /repo's current source on every run (`Module.load`), locates the function by qualified
name and executes its *real* AST over model objects (vfw.models.*) and symbolic scalars (vfw.sym).  It is thin by
design: operators, attribute access, subscripts and calls are delegated to the Python protocol of the model objects,
so only control flow, scoping and a few builtins are implemented here.

Dropped (recorded per path in ctx.dropped with line numbers): docstrings / bare constants, print, warnings.warn,
log_msg / logger.*, gc.collect, del, time.time().  They are assumed to have no effect on program state.
"""
import ast
import hashlib
import math
import os
import z3
from . import sym
from .sym import SV, SB, Unsupported, ModelRaise, ctx

REPO = os.environ.get("VERIF_REPO", "/repo")


class Return(Exception):
    def __init__(self, v):
        self.v = v


class Break(Exception):
    pass


class Continue(Exception):
    pass


class Module:
    """parsed source of one cryocat module"""

    _cache = {}

    def __init__(self, name):
        self.name = name
        self.path = os.path.join(REPO, "cryocat", name + ".py")
        self.src = open(self.path).read()
        self.tree = ast.parse(self.src)
        self.lines = self.src.splitlines()

    @classmethod
    def load(cls, name):
        if name not in cls._cache:
            cls._cache[name] = Module(name)
        return cls._cache[name]

    def find(self, qual):
        body = self.tree.body
        node = None
        for part in qual.split("."):
            node = None
            for n in body:
                if isinstance(n, (ast.FunctionDef, ast.ClassDef)) and n.name == part:
                    node = n
            if node is None:
                raise Unsupported(f"{self.name}.{qual} not found in the current source")
            body = node.body
        return node

    def info(self, qual):
        n = self.find(qual)
        seg = "\n".join(self.lines[n.lineno - 1 : n.end_lineno])
        return {
            "function": f"{self.name}.{qual}",
            "file": f"cryocat/{self.name}.py",
            "lines": [n.lineno, n.end_lineno],
            "sha256": hashlib.sha256(seg.encode()).hexdigest()[:16],
        }

    def class_attr(self, cls_name, attr):
        """literal class attribute (e.g. Motl.motl_columns, StopgapMotl.pairs)"""
        c = self.find(cls_name)
        for st in c.body:
            if isinstance(st, ast.Assign):
                for t in st.targets:
                    if isinstance(t, ast.Name) and t.id == attr:
                        return ast.literal_eval(st.value)
        raise Unsupported(f"class attribute {cls_name}.{attr} is not a literal")

    def global_literal(self, name):
        for st in self.tree.body:
            if isinstance(st, ast.Assign):
                for t in st.targets:
                    if isinstance(t, ast.Name) and t.id == name:
                        return ast.literal_eval(st.value)
        raise Unsupported(f"global {name} is not a literal")


class IFunc:
    """an interpreted function (module-level, method or nested closure)"""

    def __init__(self, interp, node, closure, qual="", bound_self=None):
        self.interp = interp
        self.node = node
        self.closure = closure
        self.qual = qual
        self.bound_self = bound_self

    def bind(self, obj):
        return IFunc(self.interp, self.node, self.closure, self.qual, obj)

    def __call__(self, *args, **kwargs):
        if self.bound_self is not None:
            args = (self.bound_self,) + args
        return self.interp.call(self, args, kwargs)


class ILambda:
    def __init__(self, interp, node, env):
        self.interp, self.node, self.env = interp, node, env

    def __call__(self, *args):
        e = Env(self.env)
        for a, v in zip(self.node.args.args, args):
            e.vars[a.arg] = v
        return self.interp.ev(self.node.body, e)


class Env:
    def __init__(self, parent=None):
        self.vars = {}
        self.parent = parent

    def get(self, k):
        e = self
        while e is not None:
            if k in e.vars:
                return e.vars[k]
            e = e.parent
        raise KeyError(k)

    def has(self, k):
        e = self
        while e is not None:
            if k in e.vars:
                return True
            e = e.parent
        return False


DROP_CALLS = {"print", "warnings.warn", "gc.collect", "log_msg", "plt.show", "logger.info", "logger.warning", "logger.debug"}


def _unparse(n):
    try:
        return ast.unparse(n)
    except Exception:
        return "?"


class Interp:
    def __init__(self, module_name, globals_map, contracts=None):
        self.mod = Module.load(module_name)
        self.globals = dict(globals_map)
        self.contracts = contracts or {}

    # ---- entry points
    def function(self, qual, bound_self=None):
        if qual in self.contracts:
            return self.contracts[qual]
        node = self.mod.find(qual)
        return IFunc(self, node, None, qual, bound_self)

    def block_function(self, qual, first, last, params, result):
        """mechanical extraction of a contiguous statement block of function `qual`: the top-level statements from the first one matching
        `first(stmt_source)` to the first later one matching `last(stmt_source)` (inclusive) become the body of a function whose parameters
        are the block's free variables `params`; it returns the tuple of the variables named in `result`.  Everything before and after the
        block is DROPPED from the verified text (the contract's requires stand for the dropped prefix and are monitored at run time)."""
        node = self.mod.find(qual)
        body = node.body
        if not any(first(ast.unparse(s)) for s in body):
            # the block may sit inside loops / branches: take the innermost statement list that contains the first statement
            for n_ in ast.walk(node):
                for fld in ("body", "orelse", "finalbody"):
                    lst = getattr(n_, fld, None)
                    if isinstance(lst, list) and lst and isinstance(lst[0], ast.stmt) and any(first(ast.unparse(s)) for s in lst):
                        body = lst
        i0 = next((i for i, s in enumerate(body) if first(ast.unparse(s))), None)
        i1 = next((i for i, s in enumerate(body) if i0 is not None and i >= i0 and last(ast.unparse(s))), None)
        if i0 is None or i1 is None:
            raise Unsupported(f"block of {qual} not found")
        stmts = list(body[i0:i1 + 1])
        ret = ast.Return(value=ast.Tuple(elts=[ast.Name(id=r, ctx=ast.Load()) for r in result], ctx=ast.Load()))
        fn = ast.FunctionDef(name=f"{node.name}__block_{body[i0].lineno}_{body[i1].end_lineno}", args=ast.arguments(posonlyargs=[], args=[ast.arg(arg=p) for p in params], vararg=None,
                             kwonlyargs=[], kw_defaults=[], kwarg=None, defaults=[]), body=stmts + [ret], decorator_list=[], returns=None, type_comment=None, lineno=body[i0].lineno, col_offset=0)
        ast.fix_missing_locations(fn)
        self.block_lines = (body[i0].lineno, body[i1].end_lineno)
        return IFunc(self, fn, None, f"{qual}[lines {body[i0].lineno}-{body[i1].end_lineno}]")

    def call(self, f, args, kwargs):
        c = ctx()
        c.fuel -= 1
        if c.fuel < 0:
            raise Unsupported("call fuel exhausted")
        node = f.node
        env = Env(f.closure)
        a = node.args
        params = [x.arg for x in a.posonlyargs + a.args]
        defaults = a.defaults
        nd = len(defaults)
        args = list(args)
        if len(args) > len(params) and a.vararg is None:
            raise ModelRaise("TypeError", f"{node.name}() takes {len(params)} positional arguments but {len(args)} were given")
        for i, p in enumerate(params):
            if i < len(args):
                env.vars[p] = args[i]
            elif p in kwargs:
                env.vars[p] = kwargs.pop(p)
            else:
                j = i - (len(params) - nd)
                if j >= 0:
                    env.vars[p] = self.ev(defaults[j], env)
                else:
                    raise ModelRaise("TypeError", f"{node.name}() missing argument {p}")
        if a.vararg is not None:
            env.vars[a.vararg.arg] = tuple(args[len(params):])
        for k, d in zip(a.kwonlyargs, a.kw_defaults):
            if k.arg in kwargs:
                env.vars[k.arg] = kwargs.pop(k.arg)
            elif d is not None:
                env.vars[k.arg] = self.ev(d, env)
        if a.kwarg is not None:
            env.vars[a.kwarg.arg] = dict(kwargs)
            kwargs = {}
        if kwargs:
            raise ModelRaise("TypeError", f"{node.name}() got unexpected keyword {list(kwargs)}")
        try:
            self.block(node.body, env)
        except Return as r:
            return r.v
        return None

    # ---- statements
    def block(self, stmts, env):
        for st in stmts:
            self.stmt(st, env)

    def stmt(self, st, env):
        c = ctx()
        c.lineno = st.lineno
        m = getattr(self, "s_" + type(st).__name__, None)
        if m is None:
            raise Unsupported(f"statement {type(st).__name__} at line {st.lineno}")
        return m(st, env)

    def s_Expr(self, st, env):
        if isinstance(st.value, ast.Constant):
            ctx().dropped.append((st.lineno, "docstring/constant"))
            return
        self.ev(st.value, env)

    def s_Pass(self, st, env):
        pass

    def s_Delete(self, st, env):
        ctx().dropped.append((st.lineno, "del"))

    def s_Import(self, st, env):
        for a in st.names:
            nm = a.asname or a.name.split(".")[0]
            if nm not in self.globals:
                raise Unsupported(f"import {a.name} inside function")

    def s_ImportFrom(self, st, env):
        for a in st.names:
            nm = a.asname or a.name
            if nm not in self.globals:
                raise Unsupported(f"from {st.module} import {a.name} inside function")

    def s_Assign(self, st, env):
        v = self.ev(st.value, env)
        for t in st.targets:
            self.assign(t, v, env)

    def s_AnnAssign(self, st, env):
        if st.value is not None:
            self.assign(st.target, self.ev(st.value, env), env)

    def s_AugAssign(self, st, env):
        t = st.target
        if isinstance(t, ast.Name):
            cur = self.lookup(t.id, env)
        else:
            cur = self.ev(ast.copy_location(_as_load(t), t), env)
        v = self.binop(st.op, cur, self.ev(st.value, env), inplace=True)
        self.assign(t, v, env)

    def s_Return(self, st, env):
        raise Return(self.ev(st.value, env) if st.value is not None else None)

    def s_Raise(self, st, env):
        if st.exc is None:
            raise ModelRaise("reraise", "", st.lineno)
        e = st.exc
        name = _unparse(e.func) if isinstance(e, ast.Call) else _unparse(e)
        raise ModelRaise(name.split(".")[-1], _unparse(e)[:120], st.lineno)

    def s_Assert(self, st, env):
        if not self.truth(self.ev(st.test, env)):
            raise ModelRaise("AssertionError", _unparse(st.test), st.lineno)

    def s_FunctionDef(self, st, env):
        env.vars[st.name] = IFunc(self, st, env, st.name)

    def s_If(self, st, env):
        gm = getattr(ctx(), "guard_mode", None)
        if gm is not None:
            # guarded execution (body of a loop over ALL elements of a symbolic collection): no fork on the element's condition; both branches
            # are executed with their stores guarded by the condition (model objects consult ctx().guard_mode); only assignments of pure
            # expressions, calls on guard-aware model objects and nested ifs are allowed in such a body
            c = self.ev(st.test, env)
            if isinstance(c, (SB, SV)):
                ct = sym.to_bool(c)
                for blk, g in ((st.body, ct), (st.orelse, z3.Not(ct))):
                    if blk:
                        for s in blk:
                            if not isinstance(s, (ast.Assign, ast.Expr, ast.If, ast.Pass)):
                                raise Unsupported(f"statement {type(s).__name__} inside a guarded loop body")
                        gm.append(g)
                        try:
                            self.block(blk, env)
                        finally:
                            gm.pop()
                return
        if self.truth(self.ev(st.test, env)):
            self.block(st.body, env)
        else:
            self.block(st.orelse, env)

    def s_While(self, st, env):
        n = 0
        while self.truth(self.ev(st.test, env)):
            n += 1
            if n > 200:
                raise Unsupported(f"while loop at line {st.lineno} exceeds 200 iterations (needs an invariant)")
            try:
                self.block(st.body, env)
            except Break:
                break
            except Continue:
                continue
        else:
            self.block(st.orelse, env)

    def s_For(self, st, env):
        it = self.ev(st.iter, env)
        hook = getattr(it, "__generic_for__", None)
        if hook is not None:
            return hook(self, st, env)
        if isinstance(it, (SV, SB)):
            raise Unsupported(f"iteration over a symbolic scalar at line {st.lineno}")
        try:
            items = list(it)
        except (TypeError, Unsupported) as e:
            raise Unsupported(f"for-loop over {type(it).__name__} at line {st.lineno}: {e}")
        if len(items) > 400:
            raise Unsupported(f"for loop with {len(items)} iterations")
        broke = False
        for x in items:
            self.assign(st.target, x, env)
            try:
                self.block(st.body, env)
            except Break:
                broke = True
                break
            except Continue:
                continue
        if not broke:
            self.block(st.orelse, env)

    def s_Break(self, st, env):
        raise Break()

    def s_Continue(self, st, env):
        raise Continue()

    def s_Try(self, st, env):
        try:
            self.block(st.body, env)
        except ModelRaise as e:
            for h in st.handlers:
                names = []
                if h.type is None:
                    names = None
                elif isinstance(h.type, ast.Tuple):
                    names = [_unparse(x).split(".")[-1] for x in h.type.elts]
                else:
                    names = [_unparse(h.type).split(".")[-1]]
                if names is None or e.exc_type in names or "Exception" in names:
                    if h.name:
                        env.vars[h.name] = e
                    self.block(h.body, env)
                    break
            else:
                raise
        else:
            self.block(st.orelse, env)
        finally:
            pass
        self.block(st.finalbody, env)

    def s_With(self, st, env):
        raise Unsupported(f"with-statement at line {st.lineno}")

    def s_Global(self, st, env):
        raise Unsupported("global statement")

    def s_Nonlocal(self, st, env):
        for n in st.names:
            pass  # Env.assign_nonlocal handled in assign via lookup chain
        env.vars.setdefault("__nonlocal__", set()).update(st.names)

    # ---- assignment
    def assign(self, t, v, env):
        if isinstance(t, ast.Name):
            nl = env.vars.get("__nonlocal__", ())
            if t.id in nl:
                e = env.parent
                while e is not None:
                    if t.id in e.vars:
                        e.vars[t.id] = v
                        return
                    e = e.parent
            env.vars[t.id] = v
            return
        if isinstance(t, (ast.Tuple, ast.List)):
            hook = getattr(v, "__unpack__", None)
            vals = hook(len(t.elts)) if hook else list(v)
            if len(vals) != len(t.elts):
                raise ModelRaise("ValueError", "unpack length mismatch")
            for tt, vv in zip(t.elts, vals):
                self.assign(tt, vv, env)
            return
        if isinstance(t, ast.Attribute):
            o = self.ev(t.value, env)
            setattr(o, t.attr, v)
            return
        if isinstance(t, ast.Subscript):
            o = self.ev(t.value, env)
            k = self.slice_(t.slice, env)
            try:
                o[k] = v
            except (TypeError, ValueError, IndexError) as e:
                if isinstance(e, TypeError) and (hasattr(o, "__generic__") or type(o).__module__.startswith(("vfw.", "contracts."))):
                    raise Unsupported(f"item assignment on {type(o).__name__} has no model")  # a gap of the model, not an exception of the code
                raise _wrap_native(e, t)
            return
        if isinstance(t, ast.Starred):
            raise Unsupported("starred assignment")
        raise Unsupported(f"assignment target {type(t).__name__}")

    # ---- expressions
    def truth(self, v):
        if isinstance(v, (bool, SB, SV)):
            return bool(v)
        if v is None:
            return False
        hook = getattr(v, "__sym_truth__", None)
        if hook is not None:
            return hook()
        try:
            return bool(v)
        except ValueError as e:
            raise ModelRaise("ValueError", str(e))

    def lookup(self, name, env):
        if env is not None and env.has(name):
            return env.get(name)
        if name in self.globals:
            return self.globals[name]
        # module-level function of the module under contract
        q = name
        if q in self.contracts:
            return self.contracts[q]
        try:
            node = self.mod.find(name)
        except Unsupported:
            node = None
        if isinstance(node, ast.FunctionDef):
            return IFunc(self, node, None, name)
        if name in BUILTINS:
            return BUILTINS[name]
        raise Unsupported(f"name {name!r} has no model (module {self.mod.name})")

    def ev(self, n, env):
        m = getattr(self, "e_" + type(n).__name__, None)
        if m is None:
            raise Unsupported(f"expression {type(n).__name__} at line {getattr(n, 'lineno', '?')}")
        return m(n, env)

    def e_Constant(self, n, env):
        return n.value

    def e_Name(self, n, env):
        return self.lookup(n.id, env)

    def e_List(self, n, env):
        out = []
        for e in n.elts:
            if isinstance(e, ast.Starred):
                out.extend(list(self.ev(e.value, env)))
            else:
                out.append(self.ev(e, env))
        return out

    def e_Tuple(self, n, env):
        return tuple(self.e_List(n, env))

    def e_Set(self, n, env):
        return set(self.e_List(n, env))

    def e_Dict(self, n, env):
        d = {}
        for k, v in zip(n.keys, n.values):
            if k is None:
                d.update(self.ev(v, env))
            else:
                d[self.ev(k, env)] = self.ev(v, env)
        return d

    def e_JoinedStr(self, n, env):
        out = []
        for p in n.values:
            if isinstance(p, ast.Constant):
                out.append(str(p.value))
            else:
                v = self.ev(p.value, env)
                if isinstance(v, (SV, SB)) or hasattr(v, "__generic__"):
                    out.append("<sym>")
                else:
                    spec = self.ev(p.format_spec, env) if p.format_spec is not None else ""
                    if p.conversion == 114:
                        v = repr(v)
                    out.append(format(v, spec) if spec else str(v))
        return "".join(out)

    def e_FormattedValue(self, n, env):
        return str(self.ev(n.value, env))

    def e_UnaryOp(self, n, env):
        v = self.ev(n.operand, env)
        if isinstance(n.op, ast.Not):
            return not self.truth(v)
        try:
            if isinstance(n.op, ast.USub):
                return -v
            if isinstance(n.op, ast.UAdd):
                return +v
            if isinstance(n.op, ast.Invert):
                return ~v
        except TypeError as e:
            if _has_sym([v]):
                raise Unsupported(f"unary operator on {type(v).__name__}: {e}")
            raise _wrap_native(e, n)
        raise Unsupported("unary op")

    _BIN = {
        ast.Add: lambda a, b: a + b,
        ast.Sub: lambda a, b: a - b,
        ast.Mult: lambda a, b: _mul(a, b),
        ast.Div: lambda a, b: a / b,
        ast.FloorDiv: lambda a, b: a // b,
        ast.Mod: lambda a, b: a % b,
        ast.Pow: lambda a, b: a ** b,
        ast.BitAnd: lambda a, b: a & b,
        ast.BitOr: lambda a, b: a | b,
        ast.BitXor: lambda a, b: a ^ b,
        ast.MatMult: lambda a, b: a @ b,
        ast.LShift: lambda a, b: a << b,
        ast.RShift: lambda a, b: a >> b,
    }

    def binop(self, op, a, b, inplace=False):
        f = self._BIN.get(type(op))
        if f is None:
            raise Unsupported(f"operator {type(op).__name__}")
        if inplace:
            hook = getattr(a, "__inplace__", None)
            if hook is not None:
                return hook(f, b)
        try:
            if isinstance(op, (ast.Div, ast.FloorDiv, ast.Mod)) and not isinstance(b, (SV, SB)) and not hasattr(b, "__generic__"):
                import numpy as np

                if isinstance(b, (int, float, np.integer, np.floating)) and b == 0 and isinstance(a, (int, float, SV)):
                    raise ModelRaise("ZeroDivisionError", "division by zero")
            return f(a, b)
        except ZeroDivisionError:
            raise ModelRaise("ZeroDivisionError", "division by zero")
        except (TypeError, ValueError) as e:
            if _has_sym([a, b]):
                raise Unsupported(f"operator {type(op).__name__} on {type(a).__name__}, {type(b).__name__}: {e}")
            raise _wrap_native(e, op)

    def e_BinOp(self, n, env):
        return self.binop(n.op, self.ev(n.left, env), self.ev(n.right, env))

    def e_BoolOp(self, n, env):
        if getattr(ctx(), "guard_mode", None) is not None:
            vals = [self.ev(e, env) for e in n.values]  # guarded mode: operands must be side-effect free; no short-circuit fork
            if any(isinstance(v, (SB, SV)) for v in vals):
                ts = [sym.to_bool(v) if isinstance(v, (SB, SV)) else z3.BoolVal(bool(self.truth(v))) for v in vals]
                return SB(z3.And(*ts) if isinstance(n.op, ast.And) else z3.Or(*ts))
        if isinstance(n.op, ast.And):
            v = True
            for e in n.values:
                v = self.ev(e, env)
                if not self.truth(v):
                    return v
            return v
        v = False
        for e in n.values:
            v = self.ev(e, env)
            if self.truth(v):
                return v
        return v

    def cmp(self, op, a, b):
        try:
            if isinstance(op, ast.Eq):
                return a == b
            if isinstance(op, ast.NotEq):
                return a != b
            if isinstance(op, ast.Lt):
                return a < b
            if isinstance(op, ast.LtE):
                return a <= b
            if isinstance(op, ast.Gt):
                return a > b
            if isinstance(op, ast.GtE):
                return a >= b
            if isinstance(op, ast.Is):
                return a is b
            if isinstance(op, ast.IsNot):
                return a is not b
            if isinstance(op, ast.In):
                return self.contains(b, a)
            if isinstance(op, ast.NotIn):
                r = self.contains(b, a)
                return sym.s_not(r)
        except TypeError as e:
            if _has_sym([a, b]):
                raise Unsupported(f"comparison on {type(a).__name__}, {type(b).__name__}: {e}")
            raise _wrap_native(e, op)
        raise Unsupported("comparison")

    def contains(self, container, x):
        hook = getattr(container, "__sym_contains__", None)
        if hook is not None:
            return hook(x)
        if isinstance(x, (SV, SB)):
            if isinstance(container, (list, tuple, set)):
                r = False
                for c in container:
                    r = (x == c) | r if isinstance(r, SB) or isinstance(x == c, SB) else (r or (x == c))
                return r
            raise Unsupported("symbolic membership test")
        return x in container

    def e_Compare(self, n, env):
        left = self.ev(n.left, env)
        res = True
        for op, c in zip(n.ops, n.comparators):
            right = self.ev(c, env)
            r = self.cmp(op, left, right)
            if len(n.ops) == 1:
                return r
            if not self.truth(r):
                return False
            res = r
            left = right
        return res

    def e_IfExp(self, n, env):
        return self.ev(n.body, env) if self.truth(self.ev(n.test, env)) else self.ev(n.orelse, env)

    def e_Lambda(self, n, env):
        return ILambda(self, n, env)

    def e_Attribute(self, n, env):
        o = self.ev(n.value, env)
        try:
            return getattr(o, n.attr)
        except AttributeError:
            # only None is certain to be the program's own object: a native list / tuple / stub may stand for a pandas or
            # numpy object whose attribute exists (a missing model attribute must not be reported as the program's AttributeError)
            if o is not None:
                raise Unsupported(f"attribute .{n.attr} of {type(o).__name__} has no model (line {n.lineno})")
            raise ModelRaise("AttributeError", f"{type(o).__name__}.{n.attr}", n.lineno)

    def slice_(self, s, env):
        if isinstance(s, ast.Slice):
            return slice(
                self.ev(s.lower, env) if s.lower is not None else None,
                self.ev(s.upper, env) if s.upper is not None else None,
                self.ev(s.step, env) if s.step is not None else None,
            )
        if isinstance(s, ast.Tuple):
            return tuple(self.slice_(e, env) for e in s.elts)
        return self.ev(s, env)

    def e_Subscript(self, n, env):
        o = self.ev(n.value, env)
        k = self.slice_(n.slice, env)
        try:
            return o[k]
        except (IndexError, KeyError) as e:
            if type(o).__module__.startswith("vfw"):
                raise
            raise ModelRaise(type(e).__name__, str(e), n.lineno)
        except TypeError as e:
            raise _wrap_native(e, n)

    def e_Slice(self, n, env):
        return self.slice_(n, env)

    def e_Starred(self, n, env):
        raise Unsupported("starred expression")

    def _comp(self, gens, env, emit):
        if not gens:
            emit(env)
            return
        g = gens[0]
        it = self.ev(g.iter, env)
        hook = getattr(it, "__generic_iter__", None)
        items = hook() if hook else it
        if isinstance(items, (SV, SB)):
            raise Unsupported("comprehension over symbolic scalar")
        for x in list(items):
            e2 = Env(env)
            self.assign(g.target, x, e2)
            if all(self.truth(self.ev(c, e2)) for c in g.ifs):
                self._comp(gens[1:], e2, emit)

    def _comp_hook(self, n, env, kind):
        """a comprehension with a single, unconditional generator over a model object that knows how to represent the result symbolically"""
        if len(n.generators) == 1 and not n.generators[0].ifs:
            it = self.ev(n.generators[0].iter, env)
            h = getattr(it, "__sym_comprehension__", None)
            if h is not None:
                parts = (ast.unparse(n.key), ast.unparse(n.value)) if kind == "dict" else (ast.unparse(n.elt),)
                return h(kind, ast.unparse(n.generators[0].target), parts)
        return None

    def e_ListComp(self, n, env):
        r = self._comp_hook(n, env, "list") if isinstance(n, ast.ListComp) else None
        if r is not None:
            return r
        out = []
        self._comp(n.generators, env, lambda e: out.append(self.ev(n.elt, e)))
        return out

    def e_GeneratorExp(self, n, env):
        return self.e_ListComp(n, env)

    def e_SetComp(self, n, env):
        return set(self.e_ListComp(n, env))

    def e_DictComp(self, n, env):
        r = self._comp_hook(n, env, "dict")
        if r is not None:
            return r
        out = {}

        def emit(e):
            out[self.ev(n.key, e)] = self.ev(n.value, e)

        self._comp(n.generators, env, emit)
        return out

    def e_Call(self, n, env):
        name = _unparse(n.func)
        if name in DROP_CALLS or name.startswith("logger.") or name.startswith("plt.") or name.startswith("logging."):
            ctx().dropped.append((n.lineno, name))
            return None
        f = self.ev(n.func, env)
        args = []
        for a in n.args:
            if isinstance(a, ast.Starred):
                args.extend(list(self.ev(a.value, env)))
            else:
                args.append(self.ev(a, env))
        kwargs = {}
        for k in n.keywords:
            if k.arg is None:
                kwargs.update(self.ev(k.value, env))
            else:
                kwargs[k.arg] = self.ev(k.value, env)
        c = ctx()
        c.lineno = n.lineno
        if isinstance(f, type) and issubclass(f, BaseException):
            return ModelRaise(f.__name__, str(args[0]) if args else "")
        try:
            return f(*args, **kwargs)
        except (Unsupported, ModelRaise, Return, sym.PathInfeasible):
            raise
        except (TypeError, ValueError, IndexError, KeyError, AttributeError, ZeroDivisionError) as e:
            # native exception out of a *native* callable on concrete data is the program's exception;
            # out of a model object it is a gap in the model
            mod = getattr(f, "__module__", "") or ""
            slf = getattr(f, "__self__", None)
            if mod.startswith("vfw") or (slf is not None and type(slf).__module__.startswith("vfw")):
                if isinstance(e, (TypeError, AttributeError)):
                    raise Unsupported(f"model gap calling {name} at line {n.lineno}: {type(e).__name__}: {e}")
                raise
            if _has_sym(args) or _has_sym(list(kwargs.values())) or (slf is not None and _has_sym([slf])):
                raise Unsupported(f"native call {name} on symbolic data at line {n.lineno}: {type(e).__name__}: {e}")
            raise ModelRaise(type(e).__name__, str(e), n.lineno)


def _has_sym(xs, depth=0):
    for x in xs:
        if isinstance(x, (SV, SB)) or hasattr(x, "__generic__"):
            return True
        if depth < 3 and isinstance(x, (list, tuple)):
            if _has_sym(x, depth + 1):
                return True
        try:
            import numpy as np

            if isinstance(x, np.ndarray) and x.dtype == object:
                return True
        except ImportError:
            pass
    return False


def _wrap_native(e, node):
    if isinstance(e, (Unsupported, ModelRaise)):
        return e
    return ModelRaise(type(e).__name__, str(e), getattr(node, "lineno", None))


def _as_load(t):
    import copy

    t2 = copy.deepcopy(t)
    for n in ast.walk(t2):
        if hasattr(n, "ctx"):
            n.ctx = ast.Load()
    return t2


# ---- builtins -----------------------------------------------------------------------------------------


def _b_len(x):
    hook = getattr(x, "__sym_len__", None)
    if hook is not None:
        return hook()
    return len(x)


def _b_int(x=0, *a):
    if isinstance(x, (SV, SB)):
        return sym.pyint(x)
    if hasattr(x, "__sym_int__"):
        return x.__sym_int__()
    try:
        return int(x, *a)
    except (ValueError, TypeError) as e:
        raise ModelRaise(type(e).__name__, str(e))


def _b_float(x=0.0):
    if isinstance(x, (SV, SB)):
        return sym.pyfloat(x)
    if hasattr(x, "__sym_float__"):
        return x.__sym_float__()
    try:
        return float(x)
    except (ValueError, TypeError) as e:
        raise ModelRaise(type(e).__name__, str(e))


def _b_round(x, nd=None):
    if isinstance(x, SV):
        return sym.pyround(x, nd)
    return round(x, nd) if nd is not None else round(x)


def _b_abs(x):
    return abs(x)


def _b_min(*a, **k):
    if len(a) == 1 and hasattr(a[0], "__sym_minmax__"):
        return a[0].__sym_minmax__("min")
    if len(a) == 1:
        a = list(a[0])
    if any(isinstance(x, SV) for x in a):
        r = a[0]
        for x in a[1:]:
            r = sym.smin(r, x)
        return r
    return min(a, **k)


def _b_max(*a, **k):
    if len(a) == 1 and hasattr(a[0], "__sym_minmax__"):
        return a[0].__sym_minmax__("max")
    if len(a) == 1:
        a = list(a[0])
    if any(isinstance(x, SV) for x in a):
        r = a[0]
        for x in a[1:]:
            r = sym.smax(r, x)
        return r
    return max(a, **k)


def _b_sum(xs, start=0):
    r = start
    for x in xs:
        r = r + x
    return r


def _b_isinstance(x, t):
    ts = t if isinstance(t, tuple) else (t,)
    ts = tuple(_TYPE_OF_BUILTIN.get(getattr(tt, "__name__", None), tt) if not isinstance(tt, type) else tt for tt in ts)
    hook = getattr(x, "__sym_isinstance__", None)
    if hook is not None:
        return hook(ts)
    if isinstance(x, SV):
        import numpy as np

        for tt in ts:
            if tt is int and x.isint:
                return True
            if tt is float and not x.isint:
                return True
            if tt in (np.integer,) and x.isint:
                return True
            if tt in (np.floating,) and not x.isint:
                return True
        return False
    real_ts = tuple(tt for tt in ts if isinstance(tt, type))
    return isinstance(x, real_ts)


def _b_enumerate(x, start=0):
    h = getattr(x, "__generic_enumerate__", None)
    if h is not None:
        return h()
    return enumerate(x, start)


def _b_range(*a):
    if any(isinstance(x, SV) for x in a):
        from .models.frames import SymRange

        return SymRange(*a)
    try:
        return range(*a)
    except TypeError as e:
        raise ModelRaise("TypeError", str(e))


def _b_str(x=""):
    if isinstance(x, (SV, SB)):
        from .models.strs import SymStr

        return SymStr.of_number(x)
    return str(x)


def _b_list(x=()):
    if type(x).__name__ == "SymRange":
        return x
    return list(x)


def _b_sorted(xs, **k):
    if hasattr(xs, "sorted_names"):
        return xs.sorted_names()
    xs = list(xs)
    if _has_sym(xs):
        raise Unsupported("sorted() of symbolic values")
    return sorted(xs, **k)


def _mul(a, b):
    # [table] * n with a symbolic count: a replicated list (consumed by pd.concat)
    if isinstance(a, list) and isinstance(b, SV):
        from .models.misc import RepList
        return RepList(a, b)
    if isinstance(b, list) and isinstance(a, SV):
        from .models.misc import RepList
        return RepList(b, a)
    return a * b


_TYPE_OF_BUILTIN = {"_b_list": list, "_b_int": int, "_b_float": float, "_b_str": str}

BUILTINS = {
    "len": _b_len, "int": _b_int, "float": _b_float, "round": _b_round, "abs": _b_abs, "min": _b_min, "max": _b_max,
    "sum": _b_sum, "all": sym.s_all, "any": sym.s_any, "isinstance": _b_isinstance, "range": _b_range, "str": _b_str,
    "sorted": _b_sorted, "list": _b_list, "tuple": tuple, "dict": dict, "set": set, "zip": zip, "enumerate": _b_enumerate, "prange": _b_range,
    "bool": lambda x=False: (SB(sym.to_bool(x)) if isinstance(x, (SV, SB)) else bool(x)), "reversed": reversed,
    "True": True, "False": False, "None": None, "type": type, "map": map, "filter": filter, "hasattr": hasattr,
    "ValueError": ValueError, "TypeError": TypeError, "KeyError": KeyError, "IndexError": IndexError,
    "Exception": Exception, "FileNotFoundError": FileNotFoundError, "NotImplementedError": NotImplementedError,
    "RuntimeError": RuntimeError, "repr": repr, "divmod": divmod, "callable": callable, "getattr": getattr,
    "iter": iter, "next": next, "slice": slice, "object": object, "id": id, "ord": ord, "chr": chr, "complex": complex,
}
