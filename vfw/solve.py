"""Back ends.  Each obligation (hyps => goal) is shipped to a worker process as SMT-LIB text and decided by
  1. 'poly'  : syntactic polynomial identity modulo Pythagoras (no solver) when the goal is such an identity,
  2. 'linear': the linearised pass (poly.linear_entails) -- only ever answers unsat,
  3. 'z3'    : z3 5.x on the original formula (models extracted on sat),
  4. 'cvc5'  : /usr/bin/cvc5 on the SMT-LIB text when z3 says unknown.
Workers are separate processes; a hard wall-clock limit kills the pool entry that overruns.  unknown / timeout /
crash are *undecided*, never a violation.
"""
import multiprocessing as mp
import os
import subprocess
import tempfile
import time
import z3
from fractions import Fraction


def serialise(hyps, goal):
    s = z3.Solver()
    for h in hyps:
        s.add(h)
    s.add(z3.Bool("__goal__") == goal)
    return s.to_smt2()


def _val(v):
    try:
        if z3.is_int_value(v):
            return v.as_long()
        if z3.is_rational_value(v):
            return str(Fraction(v.numerator_as_long(), v.denominator_as_long()))
        if z3.is_algebraic_value(v):
            return v.as_decimal(12).rstrip("?")
        if z3.is_true(v):
            return True
        if z3.is_false(v):
            return False
    except Exception:
        pass
    return str(v)


def _work(job):
    name, smt, timeout_ms, tactics = job
    t0 = time.time()
    out = {"name": name, "verdict": "unknown", "backend": None, "time": 0.0, "model": None, "reason": ""}
    try:
        ctx = None
        fs = z3.parse_smt2_string(smt)
        fs = list(fs)
        hyps, goal = [], None
        def _is_marker(e):
            return z3.is_const(e) and e.decl().name() == "__goal__"
        for f in fs:
            if (z3.is_eq(f) or (z3.is_app(f) and f.decl().kind() == z3.Z3_OP_IFF)) and len(f.children()) == 2 and (_is_marker(f.children()[0]) or _is_marker(f.children()[1])):
                goal = f.children()[1] if _is_marker(f.children()[0]) else f.children()[0]
            elif _is_marker(f):
                goal = z3.BoolVal(True)
            elif z3.is_not(f) and _is_marker(f.children()[0]):
                goal = z3.BoolVal(False)
            else:
                hyps.append(f)
        if goal is None:
            raise RuntimeError("goal marker lost in serialisation")
        if "poly" in tactics or "linear" in tactics or "lift" in tactics:
            # poly.py uses the default context API via is_* helpers, which are context independent
            from . import poly
            try:
                if "poly" in tactics:
                    rules = poly.rules_from(hyps)
                    gs = goal.children() if z3.is_and(goal) else [goal]
                    r = all(z3.is_eq(g) and not z3.is_bool(g.children()[0]) and poly.poly_eq_zero(g.children()[0], g.children()[1], rules) for g in gs)
                    if r:
                        out.update(verdict="unsat", backend="poly-normal-form")
                        out["time"] = time.time() - t0
                        return out
                if "lift" in tactics:
                    # degree lifting: multiply every equality hypothesis by every degree-2 monomial of the variables that occur
                    # in the goal but in no hypothesis, then decide the linearised problem
                    gv, hv = set(), set()
                    from .engine import _syms
                    _syms(goal, gv, set())
                    for h in hyps:
                        _syms(h, hv, set())
                    free = sorted(v for v in gv - hv if not v.startswith("fn:"))
                    monos = [poly.p_mul(poly.p_var(a), poly.p_var(b)) for i, a in enumerate(free) for b in free[i:]]
                    r, n = poly.linear_entails(list(hyps), goal, lift_vars=[monos], timeout_ms=min(int(timeout_ms), 30000))
                    if r == "unsat":
                        out.update(verdict="unsat", backend=f"degree-lifted linearised-LRA ({n} equations)")
                        out["time"] = time.time() - t0
                        return out
                if "linear" in tactics:
                    r, n = _linear_in_ctx(poly, hyps, goal, ctx, timeout_ms)
                    if r == "unsat":
                        out.update(verdict="unsat", backend="linearised-LRA")
                        out["time"] = time.time() - t0
                        return out
            except Exception as e:  # tactic failure is not a verdict
                out["reason"] += f"poly/linear: {type(e).__name__}: {e}; "
        s = z3.Solver()
        s.set("timeout", int(timeout_ms))
        for h in hyps:
            s.add(h)
        s.add(z3.Not(goal))
        r = s.check()
        out["backend"] = "z3-" + z3.get_version_string()
        if r == z3.unsat:
            out["verdict"] = "unsat"
        elif r == z3.sat:
            out["verdict"] = "sat"
            m = s.model()
            out["model"] = {d.name(): _val(m[d]) for d in m.decls() if d.arity() == 0}
            try:
                apps, seen, stack = [], set(), list(hyps) + [goal]
                while stack and len(apps) < 300:
                    x = stack.pop()
                    if x.get_id() in seen or not z3.is_app(x):
                        continue
                    seen.add(x.get_id())
                    if x.num_args() > 0 and x.decl().kind() == z3.Z3_OP_UNINTERPRETED and x.decl().name() != "isnan":
                        apps.append(x)
                    stack.extend(x.children())
                for x in apps:
                    args = ",".join(str(_val(m.eval(c, model_completion=True))) for c in x.children())
                    out["model"][f"{x.decl().name()}({args})"] = _val(m.eval(x, model_completion=True))
                    out["model"][f"{x.decl().name()}@{x.sexpr()}"] = _val(m.eval(x, model_completion=True))
            except Exception:
                pass
        else:
            out["reason"] += "z3: " + s.reason_unknown()
            if "norefute" not in tactics:
                m = _sample_refute(hyps, goal, min(20.0, timeout_ms / 1000.0))
                if m is not None:
                    out.update(verdict="sat", backend="z3-" + z3.get_version_string() + " after partial instantiation", model=m)
    except Exception as e:
        out["reason"] += f"{type(e).__name__}: {e}"
    out["time"] = time.time() - t0
    return out


_POOL_VALUES = ["0", "1", "-1", "2", "1/2", "-1/2", "3", "3/5", "4/5", "-2", "5", "1/4", "12/13", "5/13", "7"]


def _sample_refute(hyps, goal, budget_s):
    """counter-model search for obligations the nonlinear solver leaves open: fix a random subset of the real-valued unknowns
    (constants and applications of uninterpreted functions) to small rationals and let z3 solve for the rest.  Any model found
    is a genuine model of hyps and not(goal)."""
    import random
    rng = random.Random(12345)
    terms, seen, stack = [], set(), list(hyps) + [goal]
    while stack:
        x = stack.pop()
        if x.get_id() in seen or not z3.is_app(x):
            continue
        seen.add(x.get_id())
        if x.decl().kind() == z3.Z3_OP_UNINTERPRETED and x.sort().kind() == z3.Z3_REAL_SORT:
            if x.num_args() == 0 or all(c.sort().kind() == z3.Z3_INT_SORT for c in x.children()):
                terms.append(x)
        stack.extend(x.children())
    terms.sort(key=lambda t: t.sexpr())
    if not terms:
        return None
    t_end = time.time() + budget_s
    attempt = 0
    while time.time() < t_end and attempt < 200:
        attempt += 1
        s = z3.Solver()
        s.set("timeout", 1500)
        for h in hyps:
            s.add(h)
        s.add(z3.Not(goal))
        frac = rng.choice([0.3, 0.5, 0.7, 0.85])
        for t in terms:
            if rng.random() < frac:
                s.add(t == z3.RealVal(rng.choice(_POOL_VALUES)))
        if s.check() == z3.sat:
            m = s.model()
            out = {d.name(): _val(m[d]) for d in m.decls() if d.arity() == 0}
            for t in terms:
                if t.num_args() > 0:
                    args = ",".join(str(_val(m.eval(c, model_completion=True))) for c in t.children())
                    out[f"{t.decl().name()}({args})"] = _val(m.eval(t, model_completion=True))
                    out[f"{t.decl().name()}@{t.sexpr()}"] = _val(m.eval(t, model_completion=True))
            out["__found_by__"] = f"partial instantiation, attempt {attempt}"
            return out
    return None


def _linear_in_ctx(poly, hyps, goal, ctx, timeout_ms):
    # poly.linear_entails builds z3 terms in the default context; translate first
    return poly.linear_entails(list(hyps), goal, timeout_ms=min(int(timeout_ms), 20000))


def _cvc5(smt, timeout_s):
    """second opinion for z3 unknowns; returns 'unsat' | 'sat' | 'unknown'"""
    # the serialised text asserts hyps and (positively) the goal as the last assertion: negate it for cvc5
    text = smt.replace("(check-sat)", "(assert (not __goal__))\n(check-sat)")
    text = "(set-logic ALL)\n" + text.replace("(set-info :status unknown)", "")
    with tempfile.NamedTemporaryFile("w", suffix=".smt2", delete=False) as f:
        f.write(text)
        p = f.name
    try:
        r = subprocess.run(["/usr/bin/cvc5", "--nl-ext-tplanes", p], capture_output=True, text=True, timeout=timeout_s)
        o = r.stdout.strip().splitlines()
        return o[0] if o and o[0] in ("sat", "unsat") else "unknown"
    except Exception:
        return "unknown"
    finally:
        os.unlink(p)


_POOL = None


def pool():
    global _POOL
    if _POOL is None:
        _POOL = mp.get_context("fork").Pool(min(16, os.cpu_count() or 4), maxtasksperchild=200)
    return _POOL


def shutdown():
    global _POOL
    if _POOL is not None:
        _POOL.terminate()
        _POOL = None


def solve_all(jobs, timeout_ms=10000, use_cvc5=True):
    """jobs: list of (name, smt2 text, tactics).  Returns dict name -> result."""
    p = pool()
    pending = [(n, p.apply_async(_work, ((n, smt, timeout_ms, tac),)), smt) for n, smt, tac in jobs]
    res = {}
    hard = timeout_ms / 1000.0 * 3 + 20
    for n, a, smt in pending:
        try:
            r = a.get(timeout=hard)
        except mp.TimeoutError:
            r = {"name": n, "verdict": "unknown", "backend": "z3", "time": hard, "model": None, "reason": "hard wall-clock limit"}
        except Exception as e:
            r = {"name": n, "verdict": "unknown", "backend": None, "time": 0, "model": None, "reason": f"worker: {e}"}
        if r["verdict"] == "unknown" and use_cvc5:
            t0 = time.time()
            v = _cvc5(smt, max(5, timeout_ms / 1000.0))
            if v == "unsat":
                r.update(verdict="unsat", backend="cvc5-1.0.3", time=r["time"] + time.time() - t0)
            elif v == "sat":
                r["reason"] += " cvc5: sat (no model extracted)"
        res[n] = r
    return res
