"""./check <Cxx> [--tier quick|thorough] [--replay file]"""
import argparse, importlib, json, os, sys, time, traceback, warnings

warnings.filterwarnings("ignore")
VERIF = os.path.dirname(os.path.dirname(os.path.abspath(__file__)))
sys.path.insert(0, VERIF)


def main():
    ap = argparse.ArgumentParser()
    ap.add_argument("prop")
    ap.add_argument("--tier", default=os.environ.get("VERIF_TIER", "quick"))
    ap.add_argument("--replay")
    a = ap.parse_args()
    prop = a.prop.upper()
    seed = int(os.environ.get("VERIF_SEED", "0") or 0)
    os.chdir(VERIF)
    if a.replay:
        return replay(prop, a.replay)
    from vfw.engine import Check
    from vfw import solve
    mod = importlib.import_module("contracts." + prop.lower())
    ck = Check(prop, a.tier, seed)
    try:
        mod.run(ck)
        ck.solve()
        ck.judge()
        if hasattr(mod, "after"):
            mod.after(ck)
        rc = ck.finish(mod.LEVEL, mod.EXPLANATION, getattr(mod, "ASSUMPTIONS", ()))
    except Exception:
        traceback.print_exc()
        print(f"CHECKER-FAULT: {prop}: internal error (not a verdict about the property)")
        solve.shutdown()
        rc = 3
    return rc


def replay(prop, path):
    body = json.load(open(path))
    ref = body.get("replay_ref") or {}
    if body.get("kind") == "bounded":
        modn, fn = ref.get("fn", ":").split(":")
        f = getattr(importlib.import_module(modn), fn)
        r = f(body["input_raw"]) if "input_raw" in body else None
        print(json.dumps({"replayed": "bounded", "failure": r}, default=str)[:3000])
        return 1 if r is not None else 0
    mod = importlib.import_module(ref["module"])
    c = getattr(mod, ref["contract"])()
    r = c.replay(ref["clause"], body.get("model") or {}, ref.get("cfg"))
    print(json.dumps(r, default=str)[:3000])
    return 1 if r.get("reproduced") else 0


if __name__ == "__main__":
    sys.exit(main())
