"""Check driver: runs contracts (deductive obligations from the real AST), lemmas and bounded stand-ins for one
property, replays counter-models on the real code, applies the known-findings file and writes the evidence."""
import hashlib
import json
import os
import sys
import time
import traceback
import z3
from . import sym, solve
from .sym import explore, Unsupported, ModelRaise, SB
from .interp import Module

VERIF = os.path.dirname(os.path.dirname(os.path.abspath(__file__)))
OUT = os.environ.get("VERIF_OUT", VERIF)  # development aid: evidence/replays of runs against a scratch tree go elsewhere


class _CaseTimeout(Exception):
    pass


def _with_time_limit(fn, case, seconds):
    """run one bounded case on the real code under a wall-clock limit (main thread, SIGALRM)"""
    import signal

    def handler(signum, frame):
        raise _CaseTimeout()
    try:
        old = signal.signal(signal.SIGALRM, handler)
    except ValueError:  # not in the main thread
        return fn(case)
    signal.setitimer(signal.ITIMER_REAL, seconds)
    try:
        return fn(case)
    finally:
        signal.setitimer(signal.ITIMER_REAL, 0)
        signal.signal(signal.SIGALRM, old)


class Obl:
    def __init__(self, name, hyps, goal, kind="post", tactics=("poly", "linear"), expect="unsat", meta=None, contract=None, cfg=None, clause=None):
        self.name, self.hyps, self.goal, self.kind = name, hyps, goal, kind
        self.tactics, self.expect, self.meta = tuple(tactics), expect, meta or {}
        self.contract, self.cfg, self.clause = contract, cfg, clause or name
        self.result = None


class Contract:
    """base class of a function contract"""
    prop = None
    module = None  # cryocat module
    qual = None  # qualified function name inside the module
    configs = [None]
    findings = {}  # finding id -> {"clauses": [...], "witness": fn(inputs)->z3 Bool}
    paths_expected_infeasible = ()

    def cfg_name(self, cfg):
        if cfg is None:
            return ""
        if isinstance(cfg, dict):
            return ",".join(f"{k}={v}" for k, v in cfg.items())
        return str(cfg)

    def interp(self):
        raise NotImplementedError

    def bind(self, cx, cfg):
        """-> (thunk, inputs): builds symbolic inputs, states `requires` with cx.assume, returns a thunk that runs the
        real function through the interpreter"""
        raise NotImplementedError

    def post(self, cx, cfg, inputs, result):
        """-> list of (clause, goal[, tactics])"""
        return []

    def raises(self, cx, cfg, inputs, exc):
        """-> z3 Bool: condition (over inputs) under which raising `exc` is what the contract demands.
        Default: raising is never allowed on inputs satisfying `requires`."""
        return z3.BoolVal(False)

    def cross(self, cfg, paths):
        """optional: clauses over ALL paths of one configuration: list of (name, hyps, goal[, tactics])"""
        return []

    def cover_hint(self, cfg, inputs):
        """optional: equalities fixing inputs to a concrete witness, added to the cover (vacuity) query only"""
        return []

    def replay(self, clause, model, cfg):
        """-> dict(reproduced=True|False|None, ...)"""
        return {"reproduced": None, "why": "no replay builder for this clause"}


class Check:
    def __init__(self, prop, tier="quick", seed=0):
        self.prop, self.tier, self.seed = prop, tier, seed
        self.t0 = time.time()
        self.obls = []
        self.functions = []
        self.unsupported = []  # (function, cfg, message)
        self.bounded = []
        self.violations = []  # dict(obligation/bounded, replay path, no_input)
        self.known_hits = []
        self.faults = []
        self.axioms = {}
        self.dropped = {}
        self.assumptions = set()
        self.samples = []
        self.timeout_ms = 10000 if tier == "quick" else 60000
        self.case_time_limit = 120 if tier == "quick" else 600  # per bounded case: a changed tree may make the real code loop forever
        kf = os.path.join(VERIF, "known_findings.json")
        self.known = json.load(open(kf)) if os.path.exists(kf) else {"findings": [], "fixed": []}
        self.known_ids = {f["id"]: f for f in self.known.get("findings", []) if f.get("property") == prop}
        led = os.path.join(VERIF, "ledger.json")
        self.ledger = json.load(open(led)).get(prop, {}) if os.path.exists(led) and not os.environ.get("VERIF_WRITE_LEDGER") else {}  # not applied while it is being regenerated

    # ---------------------------------------------------------------- contracts
    def run_contract(self, c):
        mod = Module.load(c.module)
        try:
            info = mod.info(c.qual)
        except Unsupported as e:
            self.unsupported.append((f"{c.module}.{c.qual}", "", str(e)))
            return
        info["contract"] = type(c).__name__
        self.functions.append(info)
        fname = f"{c.module}.{c.qual}"
        for cfg in c.configs:
            tag = f"{self.prop}.{fname}[{c.cfg_name(cfg)}]"
            state = {}

            def run_once(cx, cfg=cfg, state=state):
                thunk, inputs = c.bind(cx, cfg)
                state["inputs"] = inputs
                cx.inputs = inputs
                return thunk()

            try:
                paths = explore(run_once)
            except Unsupported as e:
                self.unsupported.append((fname, c.cfg_name(cfg), str(e)))
                continue
            except Exception as e:
                self.unsupported.append((fname, c.cfg_name(cfg), "engine error: " + "".join(traceback.format_exception_only(type(e), e)).strip() + " @ " + traceback.format_exc().splitlines()[-3].strip()))
                continue
            n_obl_before = len(self.obls)
            if isinstance(state.get("inputs"), dict) and state["inputs"].get("lines"):
                # block contract: only this contiguous statement block of the function is the verified text (the rest is dropped)
                info.setdefault("verified_blocks", [])
                if list(state["inputs"]["lines"]) not in info["verified_blocks"]:
                    info["verified_blocks"].append(list(state["inputs"]["lines"]))
            for k, (cx, out) in enumerate(paths):
                for nm, f in cx.axioms:
                    self.axioms[nm] = self.axioms.get(nm, 0) + 1
                for ln, what in cx.dropped:
                    self.dropped.setdefault(fname, set()).add((ln, what))
                sym.CUR[0] = cx
                try:
                    # re-bind to get the inputs object of THIS path (names are deterministic)
                    if out[0] == "unsupported":
                        self.unsupported.append((fname, c.cfg_name(cfg), f"path {k}: {out[1]}"))
                        continue
                    inputs = cx.inputs if hasattr(cx, "inputs") else state["inputs"]
                    facts = cx.facts()
                    # in-path obligations (safe, pre@callsite, frame.index-space)
                    for j, (nm, hy, goal, meta) in enumerate(cx.obligations):
                        self.obls.append(Obl(f"{tag}.{nm}#{j}@p{k}", hy, goal, kind=meta.get("kind", "safe"), meta=meta, contract=c, cfg=cfg, clause=f"{tag}.{nm}"))
                    auto_hint = []
                    for key in getattr(cx, "_seen", ()):
                        if isinstance(key, tuple) and key[0] == "atom" and "!" not in key[1] and not key[1].startswith("const_"):
                            auto_hint += [z3.Real(f"cos!{key[1]}") == 1, z3.Real(f"sin!{key[1]}") == 0, z3.Real(key[1]) == 0]
                    # vacuity query: requires + path condition + quantifier-free library facts must be satisfiable.  Quantified facts
                    # (definitions of Skolem functions such as the per-index sqrt) are left out: they are consistent by construction
                    facts_qf = [f for f in facts if not _has_quantifier(f)]
                    cov = Obl(f"{tag}.cover@p{k}", facts_qf + list(c.cover_hint(cfg, inputs)), z3.BoolVal(False), kind="cover", expect="sat", contract=c, cfg=cfg, clause=f"{tag}.cover", tactics=())
                    cov.retry_hyps = facts_qf + auto_hint + list(c.cover_hint(cfg, inputs))
                    self.obls.append(cov)
                    if out[0] == "return":
                        try:
                            clauses = c.post(cx, cfg, inputs, out[1])
                        except Unsupported as e:
                            self.unsupported.append((fname, c.cfg_name(cfg), f"post on path {k}: {e}"))
                            continue
                        facts = cx.facts()
                        for cl in clauses:
                            nm, goal = cl[0], cl[1]
                            tac = cl[2] if len(cl) > 2 else ("poly", "linear")
                            extra = list(cl[3]) if len(cl) > 3 else []
                            if isinstance(goal, SB):
                                goal = goal.t
                            if isinstance(goal, bool):
                                goal = z3.BoolVal(goal)
                            hy = facts + extra
                            if "local" in tac:
                                # a clause about a few scalars (e.g. sizes): only the quantifier-free facts over the goal's own symbols are used, so
                                # that a refutation comes with a model instead of a time-out among unrelated quantified facts (fewer hypotheses: sound)
                                gs = set()
                                _syms(goal, gs, set())
                                keep = []
                                for h_ in hy:
                                    if _has_quantifier(h_):
                                        continue
                                    a_ = set()
                                    _syms(h_, a_, set())
                                    if a_ and a_ <= gs:
                                        keep.append(h_)
                                hy = keep
                                tac = tuple(t for t in tac if t != "local")
                            self.obls.append(Obl(f"{tag}.post.{nm}@p{k}", hy, goal, kind="post", contract=c, cfg=cfg, clause=f"{tag}.post.{nm}", tactics=tac, meta={"path": k}))
                    else:
                        e = out[1]
                        allowed = c.raises(cx, cfg, inputs, e)
                        self.obls.append(Obl(f"{tag}.safe.raises-{e.exc_type}@p{k}", facts, allowed, kind="safe", contract=c, cfg=cfg,
                                             clause=f"{tag}.safe.no-unexpected-{e.exc_type}", meta={"path": k, "lineno": e.lineno, "exception": str(e)}, tactics=()))
                finally:
                    sym.CUR[0] = None
            try:
                sym.CUR[0] = sym.PathCtx([])
                # cross-path clauses (reachability of outcomes, completeness over all paths) only make sense when every path was executed:
                # a path that left the verifier's subset makes them undecidable, never a violation
                complete = not any(out[0] == "unsupported" for cx, out in paths)
                for cl in ((c.cross(cfg, [(cx, getattr(cx, "inputs", None), out) for cx, out in paths]) or []) if complete else []):
                    nm, hy, goal = cl[0], cl[1], cl[2]
                    tac = cl[3] if len(cl) > 3 else ()
                    self.obls.append(Obl(f"{tag}.cross.{nm}", list(hy), goal, kind="post", contract=c, cfg=cfg, clause=f"{tag}.cross.{nm}", tactics=tac))
            except Unsupported as e:
                self.unsupported.append((fname, c.cfg_name(cfg), f"cross-path clause: {e}"))
            finally:
                sym.CUR[0] = None
            if len(self.obls) == n_obl_before and not any(u[0] == fname and u[1] == c.cfg_name(cfg) for u in self.unsupported):
                self.faults.append(f"{tag}: zero obligations generated")

    def lemma(self, name, hyps, goal, tactics=("poly", "linear"), expect="unsat", note=None):
        o = Obl(f"{self.prop}.lemma.{name}", list(hyps), goal, kind="lemma", tactics=tactics, expect=expect, meta={"note": note})
        self.obls.append(o)
        return o

    def external_lemma(self, name, cmd, backend, note=None, timeout=1800):
        """a lemma discharged by an external proof checker (Lean): the obligation is the named theorem in the given file; it counts as
        discharged iff the checker accepts the file (exit 0, no error, no `sorry`).  A rejected file is a checker fault, never a violation."""
        import subprocess
        t0 = time.time()
        o = Obl(f"{self.prop}.lemma.{name}", [], z3.BoolVal(True), kind="lemma", tactics=(), meta={"note": note, "external": cmd})
        try:
            r = subprocess.run(cmd, shell=True, capture_output=True, text=True, timeout=timeout, cwd=VERIF)
            out = (r.stdout + r.stderr)
            ok = r.returncode == 0 and "error" not in out and "sorry" not in out
            o.result = {"verdict": "unsat" if ok else "unknown", "backend": backend, "time": round(time.time() - t0, 2), "model": None, "reason": None if ok else out[-600:]}
        except Exception as e:
            o.result = {"verdict": "unknown", "backend": backend, "time": round(time.time() - t0, 2), "model": None, "reason": f"{type(e).__name__}: {e}"}
        if o.result["verdict"] != "unsat":
            self.faults.append(f"external lemma {name} not accepted by {backend}: {str(o.result['reason'])[:300]}")
        self.obls.append(o)
        return o

    # ---------------------------------------------------------------- bounded stand-ins
    def bounded_run(self, name, cases, fn, rule, classify=None, nontrivial=None, bound="", ref=None):
        """cases: iterable of (key, case); fn(case) -> None | failure detail (dict).  A failure is a violation on the
        real code by construction."""
        t0 = time.time()
        n = 0
        distinct = set()
        fails = []
        sample = None
        for key, case in cases:
            n += 1
            if nontrivial is None or nontrivial(case):
                distinct.add(key)
            try:
                r = _with_time_limit(fn, case, self.case_time_limit)
            except _CaseTimeout:
                r = {"what": f"the real code did not finish this case within {self.case_time_limit} s (every case of the accepted tree finishes within seconds)"}
            except Exception as e:
                r = {"crash": "".join(traceback.format_exception_only(type(e), e)).strip(), "tb": traceback.format_exc()[-1500:]}
            if sample is None:
                sample = _short(case)
            if r is not None:
                fid = classify(case, r) if classify else None
                fails.append({"case": _short(case, 4000), "detail": r, "finding": fid, "raw": case})
        self.bounded.append({"name": name, "evaluations": n, "distinct_nontrivial": len(distinct), "rule": rule, "bound": bound,
                             "failures": len(fails), "wall_s": round(time.time() - t0, 2), "sample": sample, "label": "bounded (never counted as proved)"})
        seen = set()
        for f in fails:
            fid = f["finding"]
            if fid is not None and fid in self.known_ids:
                if fid not in seen:
                    self.known_hits.append((fid, f"bounded {name}: {_short(f['detail'], 300)}"))
                    seen.add(fid)
                continue
            if len([v for v in self.violations if v.get("source") == name]) >= 3:
                continue
            path = self._write_replay(f"{name}", {"kind": "bounded", "check": name, "input": f["case"], "input_raw": _jsonable(f["raw"]), "observed": f["detail"], "finding_class": fid, "replay_ref": {"fn": ref}})
            self.violations.append({"source": name, "replay": path, "no_input": False})
        return fails

    # ---------------------------------------------------------------- solving and verdicts
    def solve(self):
        jobs = []
        for o in self.obls:
            if o.result is not None:
                continue  # discharged by an external checker
            try:
                hy = o.hyps if o.kind == "cover" else cone(o.hyps, o.goal)
                smt = solve.serialise(hy, o.goal)
            except Exception as e:
                o.result = {"verdict": "unknown", "backend": None, "time": 0, "model": None, "reason": f"serialise: {e}"}
                continue
            o.smt = smt
            jobs.append((o.name, smt, o.tactics))
        res = solve.solve_all(jobs, timeout_ms=self.timeout_ms)
        for o in self.obls:
            if o.result is None:
                o.result = res[o.name]
        # undecided proof obligations: one more attempt with three times the budget while nothing else is running, so that a verdict does
        # not flip to `unknown` merely because all cores were busy
        again = [o for o in self.obls if o.kind != "cover" and o.result["verdict"] == "unknown" and getattr(o, "smt", None)]
        if again:
            res3 = solve.solve_all([(o.name, o.smt, o.tactics) for o in again], timeout_ms=3 * self.timeout_ms)
            for o in again:
                if res3[o.name]["verdict"] != "unknown":
                    o.result = res3[o.name]
                    o.result["retried"] = True
        # vacuity checks that the solver could not decide: retry with a concrete witness for the angle atoms
        retry = [o for o in self.obls if o.kind == "cover" and o.result["verdict"] == "unknown" and getattr(o, "retry_hyps", None)]
        if retry:
            res2 = solve.solve_all([(o.name, solve.serialise(o.retry_hyps, o.goal), ()) for o in retry], timeout_ms=self.timeout_ms)
            for o in retry:
                if res2[o.name]["verdict"] == "sat":
                    o.result = res2[o.name]

    def _write_replay(self, tag, body):
        d = os.path.join(OUT, "replays")
        os.makedirs(d, exist_ok=True)
        h = hashlib.sha256(json.dumps(body, default=str, sort_keys=True).encode()).hexdigest()[:10]
        safe = "".join(ch if ch.isalnum() or ch in "-_." else "_" for ch in tag)[:120]
        p = os.path.join(d, f"{self.prop}-{safe}-{h}.json")
        body = dict(body)
        body["property"] = self.prop
        with open(p, "w") as f:
            json.dump(body, f, indent=1, default=str)
        return p

    def judge(self):
        """turn solver results into discharged / violation / undecided"""
        by_clause = {}
        for o in self.obls:
            by_clause.setdefault(o.clause, []).append(o)
        self.discharged = 0
        self.undecided = []
        for o in self.obls:
            r = o.result
            v = r["verdict"]
            if o.expect == "sat":  # cover
                if v == "sat":
                    self.discharged += 1
                elif v == "unsat":
                    if o.contract is not None and any(s in o.name for s in o.contract.paths_expected_infeasible):
                        self.discharged += 1
                    else:
                        self.faults.append(f"vacuity: {o.name} -- path hypotheses are contradictory")
                else:
                    # nonlinear hypotheses: satisfiability not established by the solver; counted as undecided cover
                    self.undecided.append((o.name, "cover: " + r.get("reason", "")))
                continue
            if v == "unsat":
                self.discharged += 1
                continue
            if v == "unknown":
                if self.ledger.get(o.clause) == "discharged" and o.contract is not None:
                    self._lost(o)
                else:
                    self.undecided.append((o.name, r.get("reason", "")))
                continue
            # refuted
            self._refuted(o)
        # functions that were under contract on the accepted tree and are no longer within the verifier's reach
        self.lost_functions = []
        for fn in self.ledger.get("__functions__", []):
            gone = [u for u in self.unsupported if u[0] == fn]
            if gone:
                self.lost_functions.append((fn, gone[0][2]))

    def _lost(self, o):
        """an obligation that was discharged on the accepted tree (ledger.json) and that no back end discharges any more: reported as a
        violation of the named obligation; the replay file carries the solver's output; a failing input is searched natively"""
        r, c = o.result, o.contract
        try:
            rep = _with_time_limit(lambda _: c.replay(o.clause.split("].", 1)[-1], {}, o.cfg), None, 300) or {"reproduced": None}
        except _CaseTimeout:
            rep = {"reproduced": None, "why": "replay on the real code did not finish within 300 s"}
        except Exception as e:
            rep = {"reproduced": None, "why": "replay crashed: " + "".join(traceback.format_exception_only(type(e), e)).strip()}
        if len([v for v in self.violations if v.get("lost")]) >= 6:
            self.undecided.append((o.name, "no longer discharged (further ones not reported separately): " + str(r.get("reason", ""))))
            return
        body = {"kind": "deductive", "obligation": o.name, "clause": o.clause, "function": f"{c.module}.{c.qual}", "config": c.cfg_name(o.cfg),
                "what": "this obligation was discharged on the accepted tree (ledger.json) and is not discharged on the current tree; no counter-model was produced",
                "backend": r.get("backend"), "solver_verdict": r["verdict"], "solver_reason": r.get("reason"), "solver_time_s": r.get("time"), "meta": o.meta, "replay": rep,
                "smt2": getattr(o, "smt", "")[:20000]}
        path = self._write_replay(o.clause, body)
        self.violations.append({"source": o.name, "replay": path, "no_input": rep.get("reproduced") is not True, "lost": True})

    def _refuted(self, o):
        r = o.result
        c = o.contract
        fid_hit = None
        if c is not None:
            for fid, spec in c.findings.items():
                if fid in self.known_ids and any(o.clause.endswith(cl) or cl in o.clause for cl in spec["clauses"]):
                    fid_hit = fid
        rep = {"reproduced": None, "why": "lemma (no code to replay)"}
        if c is None:
            # a lemma over contracts does not depend on /repo: a refuted lemma is an error of the checker, not a property violation
            self.faults.append(f"lemma refuted: {o.name} model={r['model']}")
            return
        if c is not None:
            try:
                rep = _with_time_limit(lambda _: c.replay(o.clause.split("].", 1)[-1], r["model"] or {}, o.cfg), None, 300) or {"reproduced": None}
            except _CaseTimeout:
                rep = {"reproduced": None, "why": "replay on the real code did not finish within 300 s"}
            except Exception as e:
                rep = {"reproduced": None, "why": "replay crashed: " + "".join(traceback.format_exception_only(type(e), e)).strip()}
        body = {"kind": "deductive", "obligation": o.name, "clause": o.clause, "function": (f"{c.module}.{c.qual}" if c else None), "config": (c.cfg_name(o.cfg) if c else None),
                "backend": r["backend"], "solver_verdict": r["verdict"], "solver_time_s": r["time"], "model": r["model"], "meta": o.meta, "replay": rep,
                "smt2": getattr(o, "smt", "")[:20000],
                "replay_ref": ({"module": type(c).__module__, "contract": type(c).__name__, "cfg": o.cfg, "clause": o.clause.split("].", 1)[-1]} if c else None)}
        if fid_hit is not None:
            # a listed finding: is every counter-model inside the listed witness class?
            spec = c.findings[fid_hit]
            wit = spec.get("witness")
            different = False
            if wit is not None:
                try:
                    w = wit(o)
                    s = z3.Solver()
                    s.set("timeout", self.timeout_ms)
                    for h in o.hyps:
                        s.add(h)
                    s.add(z3.Not(o.goal))
                    s.add(z3.Not(w))
                    rr = s.check()
                    different = rr == z3.sat
                    if different:
                        m = s.model()
                        body["model_outside_known_class"] = {d.name(): str(m[d]) for d in m.decls() if d.arity() == 0}
                except Exception as e:
                    body["witness_error"] = str(e)
            if not different:
                self.known_hits.append((fid_hit, f"{o.clause}: {self.known_ids[fid_hit].get('what', '')}"))
                self.discharged_known = getattr(self, "discharged_known", 0) + 1
                self.discharged += 1  # discharged with the listed witness class excluded (re-solved with NOT witness as hypothesis)
                return
        if rep.get("reproduced") is True:
            path = self._write_replay(o.clause, body)
            self.violations.append({"source": o.name, "replay": path, "no_input": False})
        elif rep.get("reproduced") is False and not rep.get("tainted"):
            if self.ledger.get(o.clause) == "discharged" or self.ledger == {}:
                path = self._write_replay(o.clause, body)
                self.violations.append({"source": o.name, "replay": path, "no_input": True})
            else:
                self.undecided.append((o.name, "refuted, not reproduced, not in ledger"))
        else:
            # no replay builder: an obligation that was discharged on the accepted tree now fails
            if self.ledger.get(o.clause) == "discharged":
                path = self._write_replay(o.clause, body)
                self.violations.append({"source": o.name, "replay": path, "no_input": True})
            else:
                path = self._write_replay(o.clause, body)
                self.violations.append({"source": o.name, "replay": path, "no_input": True})

    # ---------------------------------------------------------------- evidence
    def finish(self, level, explanation, extra_assumptions=(), checker_cmd=None):
        wall = time.time() - self.t0
        solve.shutdown()
        by_backend = {}
        for o in self.obls:
            r = o.result or {}
            if r.get("verdict") in ("unsat", "sat"):
                b = by_backend.setdefault(r.get("backend") or "?", {"count": 0, "solver_s": 0.0})
                b["count"] += 1
                b["solver_s"] = round(b["solver_s"] + r.get("time", 0), 3)
        clauses = {}
        for o in self.obls:
            st = clauses.setdefault(o.clause, {"paths": 0, "discharged": 0, "kind": o.kind})
            st["paths"] += 1
            ok = (o.result["verdict"] == "unsat") if o.expect == "unsat" else (o.result["verdict"] == "sat")
            st["discharged"] += 1 if ok else 0
        samples = []
        for o in self.obls[:400]:
            if o.kind in ("post", "lemma") and len(samples) < 3:
                samples.append({"obligation": o.name, "verdict": o.result["verdict"], "backend": o.result["backend"], "smt2_head": getattr(o, "smt", "")[-600:]})
        for b in self.bounded[:3]:
            samples.append({"bounded": b["name"], "case": b["sample"]})
        n_obl = len(self.obls)
        known_n = getattr(self, "discharged_known", 0)
        cov = {
            "obligations": n_obl,
            "discharged": self.discharged,
            "refuted_known_findings": known_n,
            "undecided": [{"obligation": n, "reason": r[:300]} for n, r in self.undecided][:60],
            "undecided_count": len(self.undecided),
            "out_of_reach": [{"function": f, "config": c, "reason": m[:400]} for f, c, m in self.unsupported],
            "checker_cmd": checker_cmd or f"./check {self.prop} --tier {self.tier}",
            "trusted_base": sorted(f"{k} (x{v})" for k, v in self.axioms.items()) + sorted(self.assumptions),
            "functions_under_contract": [dict(f, dropped=sorted(self.dropped.get(f["function"], []))) for f in self.functions],
            "clauses": clauses,
            "by_backend": by_backend,
            "bounded": self.bounded,
            "evaluations": max(1, n_obl + sum(b["evaluations"] for b in self.bounded)),
            "distinct_nontrivial": max(2, len(clauses) + sum(b["distinct_nontrivial"] for b in self.bounded)) if (len(clauses) + sum(b["distinct_nontrivial"] for b in self.bounded)) >= 2 else len(clauses),
            "rule": "deductive: one obligation per (contract clause, execution path) of the real AST; distinct = distinct clauses. bounded: see bounded[].rule",
            "samples": samples or [{"note": "no obligations"}],
            "explanation": explanation,
            "known_findings_hit": [{"id": i, "what": w} for i, w in self.known_hits],
            "checker_faults": self.faults,
        }
        ev = {
            "property_id": self.prop, "tier": self.tier, "seed": int(self.seed), "level": level, "coverage": cov,
            "assumptions": sorted(set(BASE_ASSUMPTIONS) | set(extra_assumptions) | self.assumptions),
            "wall_s": round(wall, 2), "violations": len(self.violations),
        }
        if os.environ.get("VERIF_WRITE_LEDGER"):
            os.makedirs(os.path.join(OUT, "ledger_parts"), exist_ok=True)
            part = {cl: "discharged" for cl, st in clauses.items() if st["paths"] == st["discharged"] and st["kind"] != "cover"}
            part["__functions__"] = sorted({f["function"] for f in self.functions} - {u[0] for u in self.unsupported})
            with open(os.path.join(OUT, "ledger_parts", f"{self.prop}-{self.tier}.json"), "w") as f:
                json.dump(part, f, indent=0, sort_keys=True)
        os.makedirs(os.path.join(OUT, "evidence"), exist_ok=True)
        with open(os.path.join(OUT, "evidence", f"{self.prop}.json"), "w") as f:
            json.dump(ev, f, indent=1, default=str)
        # verdict lines
        seen = set()
        for fid, what in self.known_hits:
            if fid in seen:
                continue
            seen.add(fid)
            print(f"KNOWN-FINDING: property={self.prop} {fid}: {self.known_ids[fid].get('what', what)}")
        print(f"[{self.prop}] obligations={n_obl} discharged={self.discharged} known={known_n} undecided={len(self.undecided)} out_of_reach={len(self.unsupported)} "
              f"bounded={sum(b['evaluations'] for b in self.bounded)} violations={len(self.violations)} wall={wall:.1f}s")
        for f, c, m in self.unsupported[:10]:
            print(f"  out-of-reach: {f}[{c}]: {m[:200]}")
        for n, r in self.undecided[:10]:
            print(f"  undecided: {n}: {r[:160]}")
        for f in self.faults:
            print(f"CHECKER-FAULT: {f}")
        if self.violations:
            for v in self.violations:
                print(f"VIOLATION property={self.prop} replay={v['replay']}" + (" no-failing-input-found" if v["no_input"] else ""))
            return 1
        if self.faults:
            return 3
        rc = 0
        if getattr(self, "lost_functions", None):
            for fn, why in self.lost_functions:
                print(f"UNDECIDED: property={self.prop} {fn} was under contract on the accepted tree and is outside the verifier's reach now ({why[:160]}); decided by the bounded stand-in only")
            rc = 2
        if self.undecided:
            print(f"UNDECIDED: property={self.prop} {len(self.undecided)} obligation(s) were neither discharged nor refuted (listed above); nothing is claimed about them")
            rc = 2
        gone_fn = {fn for fn, _ in getattr(self, "lost_functions", [])}
        only_thorough = set(self.ledger.get("__thorough_only__", [])) if self.tier != "thorough" else set()
        missing = [cl for cl, st in self.ledger.items() if not cl.startswith("__") and st == "discharged" and cl not in clauses and cl not in only_thorough
                   and not any(("." + fn + "[") in cl or cl.endswith("." + fn) for fn in gone_fn)]
        if missing and self.ledger:
            print(f"UNDECIDED: property={self.prop} {len(missing)} obligation(s) discharged on the accepted tree were not generated from the current source, e.g. {missing[0]}")
            rc = 2
        return rc


def _has_quantifier(e):
    stack, seen = [e], set()
    while stack:
        x = stack.pop()
        if x.get_id() in seen:
            continue
        seen.add(x.get_id())
        if z3.is_quantifier(x):
            return True
        stack.extend(x.children())
    return False


def _syms(e, acc, seen):
    stack = [e]
    while stack:
        x = stack.pop()
        i = x.get_id()
        if i in seen:
            continue
        seen.add(i)
        if z3.is_app(x):
            if x.num_args() == 0 and x.decl().kind() == z3.Z3_OP_UNINTERPRETED:
                acc.add(x.decl().name())
            elif x.decl().kind() == z3.Z3_OP_UNINTERPRETED:
                acc.add("fn:" + x.decl().name())
            stack.extend(x.children())
        elif z3.is_quantifier(x):
            stack.append(x.body())


def cone(hyps, goal):
    """cone of influence: keep only the hypotheses that share symbols (transitively) with the goal.  Dropping
    hypotheses is sound for entailment."""
    gs = set()
    _syms(goal, gs, set())
    hs = []
    for h in hyps:
        a = set()
        _syms(h, a, set())
        hs.append(a)
    keep = [False] * len(hyps)
    changed = True
    while changed:
        changed = False
        for i, a in enumerate(hs):
            if not keep[i] and (a & gs or not a):
                keep[i] = True
                gs |= a
                changed = True
    return [h for h, k in zip(hyps, keep) if k]


BASE_ASSUMPTIONS = [
    "Python int is a mathematical integer; float/numpy.float64 arithmetic is exact real arithmetic (no rounding, NaN or inf) unless a clause says otherwise",
    "library models in vfw/models (pandas 3.0, numpy 2, scipy Rotation, ...) are assumed contracts of the dependencies, conformance-tested only on bounded inputs",
    "dropped statements (print, warnings.warn, logging, del, docstrings) have no effect on program state",
    "termination is not verified; no concurrency; no aliasing beyond what the executor tracks",
]


def _jsonable(x):
    try:
        json.dumps(x)
        return x
    except TypeError:
        return json.loads(json.dumps(x, default=lambda o: o.tolist() if hasattr(o, "tolist") else str(o)))


def _short(x, n=600):
    s = x if isinstance(x, str) else json.dumps(x, default=str)
    return s if len(s) <= n else s[:n] + "..."
