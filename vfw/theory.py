"""Uninterpreted real functions with recorded axiom instances: angles (sin/cos via atoms), sqrt, atan2, acos,
exp, pow.  Every instance that is added to a path is recorded in ctx.axioms and ends up in the evidence as part of
the trusted base.

Angles.  A symbolic number may carry `ang`: a linear form  sum_i k_i * atom_i + const  (in degrees) together with
the unit its numeric value is expressed in.  Each atom `a` owns two reals (cos!a, sin!a) with cos^2+sin^2 = 1.
sin / cos of an angle-valued number are expanded with the addition formulas into polynomials over these pairs, so
rotation algebra becomes polynomial identity checking modulo the Pythagorean relations (see poly.py).
"""
from fractions import Fraction
import z3
from .sym import SV, SB, ctx, to_z3, real, Unsupported, is_num

PI = z3.Real("PI")
PI_AX = z3.And(PI > z3.RealVal("3.14159"), PI < z3.RealVal("3.1416"))


class Ang:
    __slots__ = ("lin", "const", "unit")

    def __init__(self, lin, const=Fraction(0), unit="deg"):
        self.lin = {k: Fraction(v) for k, v in lin.items() if v != 0}
        self.const = Fraction(const)  # always in degrees
        self.unit = unit

    def scale(self, k):
        return Ang({a: v * k for a, v in self.lin.items()}, self.const * k, self.unit)

    def with_unit(self, unit):
        return Ang(self.lin, self.const, unit)

    def __repr__(self):
        return f"Ang({self.lin},{self.const},{self.unit})"


def ang_add(a, b, sign):
    """angle form of a + sign*b, or None when one side is a non-angle symbolic number"""
    aa = getattr(a, "ang", None)
    bb = getattr(b, "ang", None)

    def const_of(x, unit):
        if isinstance(x, SV):
            return None
        if isinstance(x, bool):
            return None
        if isinstance(x, (int, Fraction)):
            f = Fraction(x)
        elif isinstance(x, float):
            f = Fraction(x).limit_denominator(10**9) if abs(x - round(x)) < 1e-12 else None
            if f is None:
                return None
        else:
            try:
                f = Fraction(float(x))
                if abs(float(x) - round(float(x))) > 1e-12:
                    return None
                f = Fraction(round(float(x)))
            except Exception:
                return None
        if unit == "rad":
            return None if f != 0 else Fraction(0)
        return f

    def const_rad(x):
        if isinstance(x, (SV, bool)):
            return None
        try:
            import math
            d = math.degrees(float(x))
        except Exception:
            return None
        f = Fraction(d).limit_denominator(5040)
        return f if abs(float(f) - d) < 1e-9 else None


    if aa is not None and bb is not None:
        if aa.unit != bb.unit:
            return None
        lin = dict(aa.lin)
        for k, v in bb.lin.items():
            lin[k] = lin.get(k, 0) + sign * v
        return Ang(lin, aa.const + sign * bb.const, aa.unit)
    if aa is not None:
        c = const_of(b, aa.unit)
        if c is None and aa.unit == "rad":
            c = const_rad(b)
        return None if c is None else Ang(aa.lin, aa.const + sign * c, aa.unit)
    c = const_of(a, bb.unit)
    if c is None and bb.unit == "rad":
        c = const_rad(a)
    if c is None:
        return None
    return Ang({k: sign * v for k, v in bb.lin.items()}, c + sign * bb.const, bb.unit)


_ATOMS = {}


def atom_cs(name):
    """(cos, sin) reals of an angle atom; Pythagoras is assumed once per path"""
    c = z3.Real(f"cos!{name}")
    s = z3.Real(f"sin!{name}")
    cx = ctx()
    key = ("atom", name)
    if key not in getattr(cx, "_seen", set()):
        if not hasattr(cx, "_seen"):
            cx._seen = set()
        cx._seen.add(key)
        cx.axiom(f"pythagoras({name})", c * c + s * s == 1)
    return c, s


def angle_input(name, unit="deg"):
    """a symbolic angle input: value `name` (in `unit`), atom `name`"""
    atom_cs(name)
    return SV(z3.Real(name), Ang({name: 1}, 0, unit))


def _cs_of(ang):
    """(cos, sin) z3 polynomial of an angle form"""
    c, s = z3.RealVal(1), z3.RealVal(0)
    # constant part: multiples of 90 degrees are exact
    k = ang.const
    if k.denominator != 1 or int(k) % 90 != 0:
        # opaque constant: its own atom
        cc, ss = atom_cs(f"const_{k.numerator}_{k.denominator}")
        c, s = cc, ss
    else:
        q = (int(k) // 90) % 4
        c, s = [(1, 0), (0, 1), (-1, 0), (0, -1)][q]
        c, s = z3.RealVal(c), z3.RealVal(s)
    for a, coef in sorted(ang.lin.items()):
        if coef.denominator != 1 or abs(coef) > 4:
            raise Unsupported(f"angle multiple {coef} of {a}")
        ca, sa = atom_cs(a)
        if coef < 0:
            sa = -sa
        for _ in range(abs(int(coef))):
            c, s = c * ca - s * sa, s * ca + c * sa
    return z3.simplify(c), z3.simplify(s)


_UF = {}


def uf(name, *sorts):
    if name not in _UF:
        _UF[name] = z3.Function(name, *sorts)
    return _UF[name]


def _need_rad(x, fn):
    a = getattr(x, "ang", None)
    if a is None:
        return None
    if a.unit != "rad":
        raise Unsupported(f"{fn} applied to an angle in degrees (unit mismatch in the code or the binding)")
    return a


def cos(x):
    if not isinstance(x, SV):
        import math

        return math.cos(x)
    a = _need_rad(x, "cos")
    if a is None:
        t = real(x.t)
        r = uf("cos_u", z3.RealSort(), z3.RealSort())(t)
        s = uf("sin_u", z3.RealSort(), z3.RealSort())(t)
        ctx().axiom("cos^2+sin^2=1 (opaque argument)", r * r + s * s == 1)
        return SV(r)
    return SV(_cs_of(a)[0])


def sin(x):
    if not isinstance(x, SV):
        import math

        return math.sin(x)
    a = _need_rad(x, "sin")
    if a is None:
        t = real(x.t)
        r = uf("cos_u", z3.RealSort(), z3.RealSort())(t)
        s = uf("sin_u", z3.RealSort(), z3.RealSort())(t)
        ctx().axiom("cos^2+sin^2=1 (opaque argument)", r * r + s * s == 1)
        return SV(s)
    return SV(_cs_of(a)[1])


def tan(x):
    if not isinstance(x, SV):
        import math

        return math.tan(x)
    c, s = cos(x), sin(x)
    ctx().oblige("safe.tan-defined", c.t != 0, kind="safe")
    return SV(s.t / c.t)


def _term_key(t):
    import hashlib
    return "t" + hashlib.md5(z3.simplify(t).sexpr().encode()).hexdigest()[:10]


def ang_of_term(t, unit="deg"):
    """angle form of an opaque z3 term used as an angle: linear structure (negation, sums, numeric factors, constants) is kept,
    every other sub-term becomes its own atom (keyed by the term), so that cos(-x) = cos(x) etc. remain provable"""
    def go(e):
        from .poly import _num
        n = _num(e)
        if n is not None:
            return {}, n
        k = e.decl().kind() if z3.is_app(e) else None
        ch = e.children() if z3.is_app(e) else []
        if k == z3.Z3_OP_UMINUS:
            lin, c = go(ch[0])
            return {a: -v for a, v in lin.items()}, -c
        if k in (z3.Z3_OP_ADD, z3.Z3_OP_SUB):
            lin, c = go(ch[0])
            lin = dict(lin)
            for x in ch[1:]:
                l2, c2 = go(x)
                s = 1 if k == z3.Z3_OP_ADD else -1
                for a, v in l2.items():
                    lin[a] = lin.get(a, 0) + s * v
                c = c + s * c2
            return lin, c
        if k == z3.Z3_OP_MUL and len(ch) == 2:
            for a_, b_ in ((ch[0], ch[1]), (ch[1], ch[0])):
                n = _num(z3.simplify(a_))
                if n is not None:
                    lin, c = go(b_)
                    return {a: v * n for a, v in lin.items()}, c * n
        if k == z3.Z3_OP_TO_REAL:
            return go(ch[0])
        key = _term_key(e)
        atom_cs(key)
        ctx().axiom(f"angle atom {key} stands for an opaque term", z3.Real(key) == real(e))
        return {key: Fraction(1)}, Fraction(0)
    lin, c = go(z3.simplify(t))
    return Ang(lin, c, unit)


def cs_deg(x):
    """(cos, sin) of an angle given in degrees (used by the scipy Rotation model with degrees=True)"""
    if not isinstance(x, SV):
        f = Fraction(x).limit_denominator(10**6)
        return _cs_of(Ang({}, f, "deg"))
    a = x.ang
    if a is None:
        a = ang_of_term(x.t)
    return _cs_of(a)


def cs_any(x, degrees):
    if isinstance(x, SV) and x.ang is None:
        from . import sym as _sym
        parts = _sym.ITE_PARTS.get(x.t.get_id())
        if parts is not None and parts[3].eq(x.t):
            c, a, b, _ = parts
            (ca, sa), (cb, sb) = cs_any(a, degrees), cs_any(b, degrees)
            return z3.If(c, ca, cb), z3.If(c, sa, sb)
    if isinstance(x, SV) and x.ang is not None:
        want = "deg" if degrees else "rad"
        if x.ang.unit != want:
            raise Unsupported(f"angle in {x.ang.unit} passed where {want} expected")
        return _cs_of(x.ang)
    if not isinstance(x, SV):
        import math

        f = Fraction(x if degrees else math.degrees(x)).limit_denominator(10**6)
        return _cs_of(Ang({}, f, "deg"))
    return cs_deg(x)


def deg2rad(x):
    if not isinstance(x, SV):
        import math

        return math.radians(x)
    ctx_ax_pi()
    r = SV(real(x.t) * PI / 180)
    r.ang = x.ang.with_unit("rad") if x.ang is not None else None
    if x.ang is None:
        # an opaque degree value: make it an atom so that cos/sin can be expanded later
        r.ang = ang_of_term(x.t).with_unit("rad")
    return r


def deg_term(ang):
    """exact value in degrees of an angle form: sum k_i * atom_i + const  (atom constants hold degrees)"""
    t = z3.RealVal(ang.const)
    for a, k in sorted(ang.lin.items()):
        t = t + z3.RealVal(k) * z3.Real(a)
    return z3.simplify(t)


def rad2deg(x):
    if not isinstance(x, SV):
        import math

        return math.degrees(x)
    if x.ang is not None and all("const_" not in a for a in x.ang.lin):
        return SV(deg_term(x.ang), x.ang.with_unit("deg"))
    ctx_ax_pi()
    r = SV(real(x.t) * 180 / PI)
    r.ang = x.ang.with_unit("deg") if x.ang is not None else None
    return r


def ctx_ax_pi():
    cx = ctx()
    if not hasattr(cx, "_seen"):
        cx._seen = set()
    if "pi" not in cx._seen:
        cx._seen.add("pi")
        cx.axiom("3.14159 < PI < 3.1416", PI_AX)


def sqrt(x):
    if not isinstance(x, SV):
        import math

        return math.sqrt(x)
    cx = ctx()
    t = z3.simplify(real(x.t))
    memo = cx.__dict__.setdefault("_sqrt", {})
    key = t.sexpr()
    if key in memo:
        return SV(memo[key])
    try:
        from . import poly
        p = poly.normal(t)
        if not p:
            memo[key] = z3.RealVal(0)
            return SV(memo[key])
        if list(p) == [()]:
            from fractions import Fraction
            import math
            c = p[()]
            if c >= 0:
                rn, rd = math.isqrt(c.numerator), math.isqrt(c.denominator)
                if rn * rn == c.numerator and rd * rd == c.denominator:
                    memo[key] = z3.RealVal(Fraction(rn, rd))
                    return SV(memo[key])
    except Exception:
        pass
    # hypotheses may pin the radicand to 1 (e.g. a column of a rotation matrix): cheap entailment check
    try:
        if not cx.feasible(t != 1):
            memo[key] = z3.RealVal(1)
            return SV(memo[key])
    except Exception:
        pass
    sos = False
    try:
        from . import poly
        pp = poly.to_poly(t)
        sos = all(c >= 0 and all(pw % 2 == 0 for _, pw in m) for m, c in pp.items())
    except Exception:
        pass
    if not sos:
        cx.oblige("safe.sqrt-domain", t >= 0, kind="safe")
    r = cx.fresh("sqrt")
    cx.axiom("sqrt(x)=r: r>=0 and r*r=x", z3.And(r >= 0, r * r == t))
    memo[key] = r
    return SV(r)


def arctan2(y, x):
    cx = ctx()
    ctx_ax_pi()
    ty, tx = real(to_z3(y)), real(to_z3(x))
    name = f"atan2!{next(cx.counter)}"
    c, s = atom_cs(name)
    rho = sqrt(SV(tx * tx + ty * ty)).t
    d = z3.Real(name)  # value in DEGREES
    cx.axiom(
        "atan2(y,x)=t: rho=sqrt(x^2+y^2), rho*cos t=x, rho*sin t=y, t in (-180,180] deg, atan2(0,0)=0, t=0 <=> y=0 and x>=0, sign(t)=sign(y)",
        z3.And(
            rho * c == tx,
            rho * s == ty,
            z3.Implies(z3.And(tx == 0, ty == 0), z3.And(c == 1, s == 0, d == 0)),
            d > -180,
            d <= 180,
            (d == 0) == z3.And(ty == 0, tx >= 0),
            (c == 1) == (d == 0),
            (d > 0) == (ty > 0),
            (d == 180) == z3.And(ty == 0, tx < 0),
            (d == 90) == z3.And(tx == 0, ty > 0),
            (d == -90) == z3.And(tx == 0, ty < 0),
            z3.Implies(z3.And(ty >= 0, tx > 0), d < 90), z3.Implies(z3.And(ty > 0, tx < 0), d > 90),
        ),
    )
    return SV(d * PI / 180, Ang({name: 1}, 0, "rad"))


def arccos(v):
    if not isinstance(v, SV):
        import math

        return math.acos(v)
    cx = ctx()
    ctx_ax_pi()
    tv = real(v.t)
    cx.oblige("safe.acos-domain", z3.And(tv >= -1, tv <= 1), kind="safe")
    name = f"acos!{next(cx.counter)}"
    c, s = atom_cs(name)
    d = z3.Real(name)  # value in DEGREES
    prev = getattr(cx, "_acos", [])
    ax = [c == tv, s >= 0, d >= 0, d <= 180, (tv == 1) == (d == 0), (tv == -1) == (d == 180), (tv == 0) == (d == 90), (tv > 0) == (d < 90)]
    for pv, pt in prev:
        ax += [(tv < pv) == (d > pt), (tv == pv) == (d == pt)]
    cx._acos = prev + [(tv, d)]
    cx.axiom("acos(v)=t: cos t=v, sin t>=0, t in [0,180] deg, strictly decreasing (instantiated pairwise), acos(1)=0, acos(0)=90, acos(-1)=180", z3.And(*ax))
    return SV(d * PI / 180, Ang({name: 1}, 0, "rad"))


def exp(x):
    if not isinstance(x, SV):
        import math

        return math.exp(x)
    cx = ctx()
    f = uf("exp", z3.RealSort(), z3.RealSort())
    t = real(x.t)
    r = f(t)
    prev = getattr(cx, "_exp", [])
    ax = [r > 0, (t == 0) == (r == 1), (t < 0) == (r < 1)]
    for pt in prev:
        ax += [(t < pt) == (r < f(pt)), (t == pt) == (r == f(pt))]
    cx._exp = prev + [t]
    cx.axiom("exp: positive, exp(0)=1, strictly increasing (instantiated pairwise)", z3.And(*ax))
    return SV(r)


class InfOr:
    """a value that is +infinity when `cond` holds and the finite term `fin` otherwise (numpy: 0.0 ** negative = inf).  Only
    the operations that keep this shape are modelled: multiplication by a positive constant, adding a finite number, and
    finite / InfOr (which is 0 where the value is infinite)."""
    __array_ufunc__ = None

    def __init__(self, cond, fin):
        self.cond, self.fin = cond, fin

    def _scale(self, k):
        if isinstance(k, (int, float)) and k > 0:
            return InfOr(self.cond, self.fin * k)
        raise Unsupported("InfOr scaled by a non-positive or symbolic factor")

    def __mul__(self, k): return self._scale(k)
    __rmul__ = __mul__

    def __add__(self, c):
        if isinstance(c, (int, float, SV)):
            return InfOr(self.cond, self.fin + c)
        raise Unsupported("InfOr + non-number")
    __radd__ = __add__

    def __rtruediv__(self, x):
        from .sym import ite, SB
        if isinstance(x, (int, float, SV)):
            ft = real(to_z3(self.fin))
            ctx().oblige("safe.div-nonzero", z3.Implies(z3.Not(self.cond), ft != 0), kind="safe")
            return ite(SB(self.cond), 0.0, SV(real(to_z3(x)) / ft))
        raise Unsupported("non-number / InfOr")


def power(b, e):
    """b ** e for non-trivial exponents: uninterpreted pow(b,e); for a negative constant exponent numpy gives +inf at b == 0"""
    f = uf("pow", z3.RealSort(), z3.RealSort(), z3.RealSort())
    bt = real(to_z3(b))
    fin = SV(f(bt, real(to_z3(e))))
    if isinstance(e, (int, float)) and e < 0:
        cx = ctx()
        cx.axiom("pow(b, e) > 0 for b > 0", z3.Implies(bt > 0, fin.t > 0))
        return InfOr(bt == 0, fin)
    return fin
