"""small library models: decimal, copy, math, warnings, pandas namespace, re/os passthrough"""
import math as _math
import re as _re
import os as _os
import z3
from ..sym import SV, SB, Unsupported, ModelRaise, ctx, to_z3, is_num, ite
from .. import sym, theory
from .frames import GFrame, GVec, RowArr, Space, _Generic, _filter_space, _same_space


class _Decimal:
    def __init__(self, v):
        self.v = v

    def to_integral_value(self, rounding=None):
        if rounding != "ROUND_HALF_UP":
            raise Unsupported(f"decimal rounding mode {rounding}")
        if isinstance(self.v, SV):
            return _Decimal(sym.round_half_away(self.v))
        import decimal as d
        return _Decimal(float(d.Decimal(self.v).to_integral_value(rounding=d.ROUND_HALF_UP)))

    def __sym_float__(self):
        return self.v


class DecimalNS:
    ROUND_HALF_UP = "ROUND_HALF_UP"
    ROUND_HALF_EVEN = "ROUND_HALF_EVEN"
    Decimal = _Decimal


class CopyNS:
    @staticmethod
    def deepcopy(x):
        h = getattr(x, "__sym_deepcopy__", None)
        if h is not None:
            return h()
        import copy
        return copy.deepcopy(x)

    @staticmethod
    def copy(x):
        h = getattr(x, "__sym_deepcopy__", None)
        if h is not None:
            return h()
        import copy
        return copy.copy(x)


class MathNS:
    pi = _math.pi
    inf = _math.inf

    @staticmethod
    def ceil(x):
        if isinstance(x, SV):
            return SV(sym.zceil(x.t))
        return _math.ceil(x)

    @staticmethod
    def floor(x):
        if isinstance(x, SV):
            return SV(sym.zfloor(x.t))
        return _math.floor(x)

    @staticmethod
    def sqrt(x):
        if isinstance(x, (int, float)) and x < 0:
            raise ModelRaise("ValueError", "math domain error")
        return theory.sqrt(x)

    cos = staticmethod(theory.cos)
    sin = staticmethod(theory.sin)
    acos = staticmethod(theory.arccos)
    atan2 = staticmethod(theory.arctan2)
    radians = staticmethod(theory.deg2rad)
    degrees = staticmethod(theory.rad2deg)
    exp = staticmethod(theory.exp)
    tan = staticmethod(theory.tan)

    @staticmethod
    def isclose(*a, **k):
        raise Unsupported("math.isclose")


class TimeNS:
    @staticmethod
    def time():
        return 0.0


class WarningsNS:
    @staticmethod
    def warn(*a, **k):
        return None


class SelfObj:
    """instance of a cryocat class: attributes only; methods are resolved by the interpreter (class body)"""
    __generic__ = True

    def __init__(self, interp, cls_name, **attrs):
        object.__setattr__(self, "_interp", interp)
        object.__setattr__(self, "_cls", cls_name)
        object.__setattr__(self, "_attrs", dict(attrs))
        object.__setattr__(self, "_mro", [cls_name] + interp_bases(interp, cls_name))

    def __getattr__(self, k):
        a = object.__getattribute__(self, "_attrs")
        if k in a:
            return a[k]
        interp = object.__getattribute__(self, "_interp")
        for cls in object.__getattribute__(self, "_mro"):
            q = f"{cls}.{k}"
            if q in interp.contracts:
                f = interp.contracts[q]
                return (lambda *aa, **kk: f(self, *aa, **kk))
            try:
                node = interp.mod.find(q)
            except Unsupported:
                node = None
            import ast
            if isinstance(node, ast.FunctionDef):
                decos = [ast.unparse(d) for d in node.decorator_list]
                from ..interp import IFunc
                fn = IFunc(interp, node, None, q)
                if "staticmethod" in decos:
                    return fn
                if "classmethod" in decos:
                    return fn.bind(ClassRef(interp, cls))
                return fn.bind(self)
            try:
                return interp.mod.class_attr(cls, k)
            except (Unsupported, ValueError):
                pass
        raise AttributeError(k)

    def __setattr__(self, k, v):
        object.__getattribute__(self, "_attrs")[k] = v

    def __sym_deepcopy__(self):
        a = {}
        for k, v in object.__getattribute__(self, "_attrs").items():
            a[k] = CopyNS.deepcopy(v)
        return SelfObj(object.__getattribute__(self, "_interp"), object.__getattribute__(self, "_cls"), **a)

    def __sym_isinstance__(self, ts):
        mro = object.__getattribute__(self, "_mro")
        for t in ts:
            if isinstance(t, ClassRef) and t._cls in mro:
                return True
        return False


def interp_bases(interp, cls_name):
    import ast
    out = []
    try:
        node = interp.mod.find(cls_name)
    except Unsupported:
        return out
    for b in node.bases:
        if isinstance(b, ast.Name):
            out.append(b.id)
            out += interp_bases(interp, b.id)
    return out


class ClassRef:
    """a cryocat class used as a value: Motl.motl_columns, Motl.create_empty_motl_df(), Motl(df)"""
    __generic__ = True

    def __init__(self, interp, cls_name):
        self._interp, self._cls = interp, cls_name

    def __getattr__(self, k):
        interp, cls = self.__dict__["_interp"], self.__dict__["_cls"]
        for c in [cls] + interp_bases(interp, cls):
            q = f"{c}.{k}"
            if q in interp.contracts:
                return interp.contracts[q]
            try:
                node = interp.mod.find(q)
            except Unsupported:
                node = None
            import ast
            if isinstance(node, ast.FunctionDef):
                decos = [ast.unparse(d) for d in node.decorator_list]
                from ..interp import IFunc
                fn = IFunc(interp, node, None, q)
                if "classmethod" in decos:
                    return fn.bind(self)
                return fn
            try:
                return interp.mod.class_attr(c, k)
            except (Unsupported, ValueError):
                pass
        raise AttributeError(k)

    def __call__(self, *a, **k):
        interp, cls = self._interp, self._cls
        if cls in interp.contracts:
            return interp.contracts[cls](*a, **k)
        obj = SelfObj(interp, cls)
        init = None
        for c in [cls] + interp_bases(interp, cls):
            try:
                init = interp.mod.find(f"{c}.__init__")
                break
            except Unsupported:
                continue
        if init is not None:
            from ..interp import IFunc
            IFunc(interp, init, None, f"{cls}.__init__").bind(obj)(*a, **k)
        return obj


class PD:
    """namespace standing for `pd`"""

    @staticmethod
    def DataFrame(data=None, columns=None, dtype=None, **k):
        if data is None:
            return EmptyFrame(list(columns or []))
        if isinstance(data, dict):
            vecs = list(data.values())
            gs = [v for v in vecs if isinstance(v, GVec)]
            if gs:
                sp = gs[0].space
                row = {}
                for kk, v in data.items():
                    if isinstance(v, GVec):
                        _same_space(sp, v.space, "DataFrame from columns")
                        row[kk] = v.val
                    elif is_num(v):
                        row[kk] = v
                    else:
                        raise Unsupported("DataFrame(dict) with mixed generic/concrete columns")
                # pandas takes the index of the new table from a Series among the columns (arrays are placed positionally); arrays alone give 0..n-1
                ser = [v for v in gs if getattr(v, "kind", None) == "series" and not v.space.is_range]
                if ser and any(v.space.label_id != ser[0].space.label_id for v in ser):
                    raise Unsupported("DataFrame from Series with different labels (alignment)")
                return GFrame(list(data.keys()), row, ser[0].space if ser else (sp if sp.is_range else _mk_range(sp)), gs[0].present)
        if isinstance(data, RowArr) and columns is not None:
            cols = list(columns)
            if len(cols) != data.k:
                raise ModelRaise("ValueError", "Shape of passed values does not match columns")
            return GFrame(cols, dict(zip(cols, data.vals)), data.space if data.space.is_range else _mk_range(data.space), data.present)
        raise Unsupported("pd.DataFrame(...) form")

    @staticmethod
    def concat(objs, ignore_index=False, **k):
        if isinstance(objs, RepList):
            return objs.concat(ignore_index)
        objs = [o for o in objs]
        real = [o for o in objs if not isinstance(o, EmptyFrame)]
        if len(real) == 0:
            return objs[0]
        if len(real) == 1:
            f = real[0]
            return f._clone() if not ignore_index else f.reset_index(drop=True)
        return concat_frames(real, ignore_index)

    @staticmethod
    def to_numeric(x, **k):
        if isinstance(x, GVec):
            return x
        raise Unsupported("pd.to_numeric")

    @staticmethod
    def isna(x):
        raise Unsupported("pd.isna")

    class Series:
        pass


class RepList(_Generic):
    """[table] * n for a symbolic n >= 0.  pd.concat of it stacks n copies of the table (assumed pandas contract): the generic
    row of the result is (generic row of the table, copy number c in [0,n)); position = c * N + position in the table; index
    labels repeat the table's labels"""

    def __init__(self, items, n):
        if len(items) != 1 or not isinstance(items[0], GFrame):
            raise Unsupported("replicated list of something other than one table")
        self.f, self.n = items[0], n

    def concat(self, ignore_index):
        from .frames import _space_counter, RowPos
        cx = ctx()
        f, n = self.f, self.n
        u = next(cx.counter)
        tot = SV(cx.fresh("Nrep", "Int"))
        cx.assume(tot.t == to_z3(f.space.n) * to_z3(n))
        sp = Space(n=tot, tag="rep")
        if not ignore_index:
            sp.label_id = next(_space_counter)
        c = z3.Int(f"copy!{u}")
        cx.assume(z3.And(c >= 0, c < to_z3(n)))
        sp.rep = {"src": f, "src_space": f.space, "n": n, "copy": c, "sorted_by": None, "block_index": None}
        r = GFrame(list(f.cols), dict(f.row), sp, f.present)
        r.mult = to_z3(n)
        return r


def concat_frames(parts, ignore_index):
    """pd.concat of generic tables.  The generic row of the result is the generic row of one of the parts (symbolic
    selector); `parts` keeps the originals so that contracts can speak about rows of different inputs."""
    cx = ctx()
    flat = []
    for p in parts:
        flat += getattr(p, "parts", [p])
    cols = list(flat[0].cols)
    for p in flat:
        if list(p.cols) != cols:
            raise Unsupported("concat of tables with different columns")
    # parts that are views of one and the same table (same row terms): a row is in the result iff it is in one view
    same_rows = all(all(_term_eq(p.row[c], flat[0].row[c]) for c in cols) for p in flat)
    n = SV(cx.fresh("Ncat", "Int"))
    total = flat[0].space.n
    for p in flat[1:]:
        total = total + p.space.n
    cx.assume(n.t == to_z3(total))
    sp = Space(n=n, tag="c")
    if not ignore_index:
        sp.label_id = next(__import__("vfw.models.frames", fromlist=["_space_counter"])._space_counter)
    if same_rows:
        r = GFrame(cols, flat[0].row, sp, z3.Or(*[p.present for p in flat]))
        r.mult = sum((z3.If(p.present, 1, 0) for p in flat), z3.IntVal(0))
        r.parts = flat
        return r
    sel = [cx.fresh("from_part", "Bool") for _ in flat[:-1]]
    row = {}
    for c in cols:
        v = flat[-1].row[c]
        for s, p in reversed(list(zip(sel, flat[:-1]))):
            v = ite(SB(s), p.row[c], v) if not isinstance(v, str) else v
        row[c] = v
    pres = flat[-1].present
    for s, p in reversed(list(zip(sel, flat[:-1]))):
        pres = z3.If(s, p.present, pres)
    r = GFrame(cols, row, sp, pres)
    r.parts = flat
    r.selectors = sel
    return r


def _term_eq(a, b):
    if isinstance(a, SV) and isinstance(b, SV):
        return a.t.eq(b.t)
    return a is b or (not isinstance(a, SV) and not isinstance(b, SV) and a == b)


def _mk_range(sp):
    from .frames import _reset_space
    return _reset_space(sp)


class EmptyFrame(_Generic):
    """pd.DataFrame() / create_empty_motl_df(): zero rows.  Assigning a column vector to an empty frame makes it take the
    vector's rows (pandas: index of the Series / RangeIndex of the array); the other columns are NaN"""

    def __init__(self, cols):
        self.cols = cols
        self._real = None

    def __setitem__(self, k, v):
        if self._real is None:
            if not isinstance(v, GVec):
                raise Unsupported("scalar/array assignment into an empty frame")
            from .frames import ISNAN
            cx = ctx()
            row = {}
            for c in self.cols:
                t = cx.fresh(f"nan_{c}")
                cx.assume(ISNAN(t))
                row[c] = SV(t)
            sp = v.space if v.kind == "series" else _mk_range(v.space)
            self._real = GFrame(list(self.cols), row, sp, v.present)
            self._real.nan_cols = set(self.cols)
        self._real[k] = v

    def __getattr__(self, k):
        r = self.__dict__.get("_real")
        if r is not None:
            return getattr(r, k)
        raise AttributeError(k)

    def __getitem__(self, k):
        if self._real is not None:
            return self._real[k]
        raise Unsupported("column of an empty frame")

    def dropna(self, *a, **k):
        return self._real.dropna(*a, **k) if self._real is not None else self

    def fillna(self, *a, **k):
        return self._real.fillna(*a, **k) if self._real is not None else self

    def __sym_len__(self):
        return self._real.__sym_len__() if self._real is not None else 0

    @property
    def shape(self):
        return self._real.shape if self._real is not None else (0, len(self.cols))

    @property
    def columns(self):
        return self._real.columns if self._real is not None else list(self.cols)


class ReNS:
    def __getattr__(self, k):
        f = getattr(_re, k)

        def g(*a, **kw):
            if any(isinstance(x, (SV, SB)) or hasattr(x, "__generic__") for x in a):
                raise Unsupported(f"re.{k} on symbolic text")
            return f(*a, **kw)

        return g
