"""Assumed contract of scipy.spatial.transform.Rotation (trusted base, conformance-tested in rtc/conformance.py).

  from_euler(seq, angles, degrees): lower-case seq = extrinsic: R = R_{a3} R_{a2} R_{a1};
                                    upper-case seq = intrinsic: R = R_{a1} R_{a2} R_{a3}
  apply(v) = R v ;  r1 * r2 = R1 R2 ;  inv() = R^T ;  as_matrix() = R
  as_euler(seq): angles (a,b,c) with from_euler(seq, (a,b,c)) == R, first/third in [-180,180], second in [0,180]
                 for proper Euler sequences (zxz, zyz, ...)
  as_quat(): unit quaternion (x,y,z,w), R = R(q)   [sign of q unspecified]
Matrix entries are z3 real polynomials over angle atoms (theory.py).
"""
import numpy as _np
import z3
from ..sym import SV, SB, Unsupported, ModelRaise, ctx, to_z3, real, is_num
from .. import theory
from ..theory import Ang
from .frames import RowArr, GVec, GFrame, _Generic, TiledRows, _same_space, _len_check
from .npm import obj


def mat_mul(A, B):
    return [[z3.simplify(sum((A[i][k] * B[k][j] for k in range(3)), z3.RealVal(0))) for j in range(3)] for i in range(3)]


def mat_T(A):
    return [[A[j][i] for j in range(3)] for i in range(3)]


def mat_vec(A, v):
    return [sum((A[i][k] * v[k] for k in range(3)), z3.RealVal(0)) for i in range(3)]


I3 = [[z3.RealVal(1 if i == j else 0) for j in range(3)] for i in range(3)]


def axis_rot(axis, c, s):
    o, z = z3.RealVal(1), z3.RealVal(0)
    if axis == "x":
        return [[o, z, z], [z, c, -s], [z, s, c]]
    if axis == "y":
        return [[c, z, s], [z, o, z], [-s, z, c]]
    if axis == "z":
        return [[c, -s, z], [s, c, z], [z, z, o]]
    raise ModelRaise("ValueError", f"bad axis {axis}")


def euler_matrix(seq, cs_list):
    """cs_list: [(cos,sin)] per angle"""
    if len(seq) != len(cs_list):
        raise ModelRaise("ValueError", f"Expected {len(seq)} angles for sequence {seq!r}")
    intrinsic = seq.isupper()
    if not (seq.isupper() or seq.islower()):
        raise ModelRaise("ValueError", "mixed-case euler sequence")
    M = I3
    for ax, (c, s) in zip(seq.lower(), cs_list):
        R = axis_rot(ax, c, s)
        M = mat_mul(M, R) if intrinsic else mat_mul(R, M)
    return M


def _vec3(v):
    """3 z3 reals from a 3-vector of numbers"""
    if isinstance(v, RowArr):
        if v.k != 3: raise ModelRaise("ValueError", "Expected (N,3) vectors")
        return [real(to_z3(x)) for x in v.vals]
    a = obj(v) if not isinstance(v, _np.ndarray) else v
    if a.shape == (1, 3):
        a = a[0]
    if a.shape != (3,):
        raise ModelRaise("ValueError", f"Expected input of shape (3,) or (P, 3), got {a.shape}")
    return [real(to_z3(x)) for x in a]


class Rot(_Generic):
    """scipy Rotation model.  layout: 'single' | 'batch' (concrete count, len(mats)) | 'rows' (one per generic row)"""

    def __init__(self, mats, layout, space=None, present=None):
        self.mats = mats
        self.layout = layout
        self.space = space
        self.present = present

    # -- constructors
    @classmethod
    def from_euler(cls, seq, angles, degrees=False):
        def cs(x):
            return theory.cs_any(x, degrees)
        if isinstance(angles, GFrame):
            angles = angles.to_numpy()
        if isinstance(angles, RowArr):
            if angles.k != len(seq):
                raise ModelRaise("ValueError", "angle count")
            return cls([euler_matrix(seq, [cs(a) for a in angles.vals])], "rows", angles.space, angles.present)
        if isinstance(angles, GVec):
            if len(seq) != 1: raise ModelRaise("ValueError", "angle count")
            return cls([euler_matrix(seq, [cs(angles.val)])], "rows", angles.space, angles.present)
        if is_num(angles):
            return cls([euler_matrix(seq, [cs(angles)])], "single")
        a = obj(angles) if not isinstance(angles, _np.ndarray) else angles
        if a.ndim == 1:
            if len(seq) == 1 and a.shape[0] != 1:
                return cls([euler_matrix(seq, [cs(x)]) for x in a], "batch")
            return cls([euler_matrix(seq, [cs(x) for x in a])], "single")
        if a.ndim == 2:
            return cls([euler_matrix(seq, [cs(x) for x in row]) for row in a], "batch")
        raise ModelRaise("ValueError", "angles shape")

    @classmethod
    def from_matrix(cls, m):
        a = obj(m) if not isinstance(m, _np.ndarray) else m
        if a.shape == (3, 3):
            return cls([[[real(to_z3(a[i, j])) for j in range(3)] for i in range(3)]], "single")
        if a.ndim == 3:
            return cls([[[real(to_z3(b[i, j])) for j in range(3)] for i in range(3)] for b in a], "batch")
        raise ModelRaise("ValueError", "matrix shape")

    @classmethod
    def identity(cls, n=None):
        if n is None: return cls([I3], "single")
        return cls([I3] * int(n), "batch")

    @classmethod
    def from_quat(cls, q):
        raise Unsupported("Rotation.from_quat")

    @classmethod
    def from_rotvec(cls, v, degrees=False):
        raise Unsupported("Rotation.from_rotvec")

    @classmethod
    def concatenate(cls, rs):
        mats = []
        for r in rs:
            if r.layout == "rows": raise Unsupported("concatenate of per-row rotations")
            mats += r.mats
        return cls(mats, "batch")

    # -- protocol
    def __sym_len__(self):
        if self.layout == "single":
            raise ModelRaise("TypeError", "Single rotation has no len().")
        if self.layout == "rows":
            return self.space.n
        return len(self.mats)

    def __len__(self):
        if self.layout == "batch": return len(self.mats)
        raise Unsupported("len of rotation")

    def __getitem__(self, k):
        if self.layout == "batch" and isinstance(k, int):
            return Rot([self.mats[k]], "single")
        if self.layout == "batch" and isinstance(k, slice):
            return Rot(self.mats[k], "batch")
        raise Unsupported("Rotation indexing")

    def _pair(self, o):
        if self.layout == "rows" or o.layout == "rows":
            if self.layout == "rows" and o.layout == "rows":
                _same_space(self.space, o.space, "rotation composition")
                return [(self.mats[0], o.mats[0])], "rows", self.space, self.present
            g, other = (self, o) if self.layout == "rows" else (o, self)
            if other.layout == "single" or (other.layout == "batch" and len(other.mats) == 1):
                pr = (self.mats[0], o.mats[0])
                return [pr], "rows", g.space, g.present
            raise Unsupported("per-row rotations combined with a concrete batch")
        if self.layout == "single" and o.layout == "single":
            return [(self.mats[0], o.mats[0])], "single", None, None
        a, b = self.mats, o.mats
        if len(a) == 1: a = a * len(b)
        if len(b) == 1: b = b * len(a)
        if len(a) != len(b):
            raise ModelRaise("ValueError", f"Expected equal number of rotations in both or a single rotation in either object, got {len(self.mats)} and {len(o.mats)}")
        return list(zip(a, b)), "batch", None, None

    def __mul__(self, o):
        if not isinstance(o, Rot):
            if isinstance(o, TiledRotations):
                return o.__rmul__(self)
            raise ModelRaise("TypeError", "unsupported operand for Rotation *")
        prs, lay, sp, pres = self._pair(o)
        return Rot([mat_mul(a, b) for a, b in prs], lay, sp, pres)

    def inv(self):
        return Rot([mat_T(m) for m in self.mats], self.layout, self.space, self.present)

    def as_matrix(self):
        def m2a(m):
            a = _np.empty((3, 3), dtype=object)
            for i in range(3):
                for j in range(3): a[i, j] = SV(m[i][j])
            return a
        if self.layout == "single": return m2a(self.mats[0])
        if self.layout == "batch": return _np.stack([m2a(m) for m in self.mats])
        raise Unsupported("as_matrix of per-row rotations")

    def apply(self, v, inverse=False):
        mats = [mat_T(m) for m in self.mats] if inverse else self.mats
        if self.layout == "rows":
            if isinstance(v, RowArr):
                _same_space(self.space, v.space, "Rotation.apply")
            elif isinstance(v, TiledRows):
                _len_check(self.space, v.n)
                v = list(v.row)
            vv = _vec3(v)
            return RowArr([SV(x) for x in mat_vec(mats[0], vv)], self.space, self.present)
        if isinstance(v, RowArr):
            if self.layout == "single" or len(mats) == 1:
                return RowArr([SV(x) for x in mat_vec(mats[0], _vec3(v))], v.space, v.present)
            raise Unsupported("batch rotation applied to per-row vectors")
        a = obj(v) if not isinstance(v, _np.ndarray) else v
        if a.ndim == 1:
            vv = _vec3(a)
            if self.layout == "single":
                return obj([SV(x) for x in mat_vec(mats[0], vv)])
            return obj([[SV(x) for x in mat_vec(m, vv)] for m in mats])
        if a.ndim == 2:
            if a.shape[1] != 3: raise ModelRaise("ValueError", "Expected input of shape (3,) or (P, 3)")
            ms = mats if len(mats) > 1 else mats * a.shape[0]
            if len(ms) != a.shape[0]:
                raise ModelRaise("ValueError", "Expected equal numbers of rotations and vectors")
            return obj([[SV(x) for x in mat_vec(m, _vec3(row))] for m, row in zip(ms, a)])
        raise ModelRaise("ValueError", "vector shape")

    def as_euler(self, seq, degrees=False):
        cx = ctx()
        outs = []
        memo = cx.__dict__.setdefault("_as_euler", {})
        for m in self.mats:
            key = (seq, _mkey(m))
            if key in memo:
                names = memo[key]
                unit = "deg" if degrees else "rad"
                vals = [z3.Real(nm) for nm in names]
                outs.append([SV(v if degrees else v * theory.PI / 180, Ang({nm: 1}, 0, unit)) for v, nm in zip(vals, names)])
                continue
            names = [f"eul!{next(cx.counter)}" for _ in seq]
            memo[key] = names
            css = [theory.atom_cs(nm) for nm in names]
            E = euler_matrix(seq, css)
            eqs = [E[i][j] == m[i][j] for i in range(3) for j in range(3)]
            vals = [z3.Real(nm) for nm in names]
            proper = len(seq) == 3 and seq[0].lower() == seq[2].lower()
            rng = []
            if len(seq) == 3:
                if True:  # atom constants always hold degrees
                    lo, hi, mid_lo, mid_hi = -180, 180, (0 if proper else -90), (180 if proper else 90)
                    rng = [vals[0] >= lo, vals[0] <= hi, vals[2] >= lo, vals[2] <= hi, vals[1] >= mid_lo, vals[1] <= mid_hi]
                # sign of sin(second angle) follows from its range
                rng.append(css[1][1] >= 0 if proper else css[1][0] >= 0)
            cx.axiom(f"as_euler({seq}): from_euler({seq}, result) == R, canonical ranges", z3.And(*(eqs + rng)))
            unit = "deg" if degrees else "rad"
            outs.append([SV(v if degrees else v * theory.PI / 180, Ang({nm: 1}, 0, unit)) for v, nm in zip(vals, names)])
        if self.layout == "single":
            return obj(outs[0])
        if self.layout == "rows":
            return RowArr(outs[0], self.space, self.present)
        return obj(outs)

    def as_quat(self, **k):
        cx = ctx()
        outs = []
        memo = cx.__dict__.setdefault("_as_quat", {})
        for m in self.mats:
            key = _mkey(m)
            if key in memo:
                outs.append([SV(v) for v in memo[key]])
                continue
            i = next(cx.counter)
            x, y, z, w = [z3.Real(f"q{c}!{i}") for c in "xyzw"]
            for (px, py, pz, pw) in memo.values():
                dd = x * px + y * py + z * pz + w * pw
                cx.axiom("Cauchy-Schwarz instance for two quaternions: (q.p)^2 <= |q|^2 |p|^2 (theorem of real arithmetic; proved as lemma lagrange_identity + squares >= 0)",
                         dd * dd <= (x * x + y * y + z * z + w * w) * (px * px + py * py + pz * pz + pw * pw))
                if not QUAT_TOL[0]:
                    cx.axiom("Cauchy-Schwarz for two UNIT quaternions: -1 <= q.p <= 1 (lemmas lagrange_identity, cauchy_schwarz_range)", z3.And(dd >= -1, dd <= 1))
            memo[key] = (x, y, z, w)
            if QUAT_TOL[0]:
                # float-robust form of the contract: the returned quaternion is unit only up to rounding
                e = z3.Real(f"qeps!{i}")
                cx.axiom("as_quat() [float-robust form]: | |q|^2 - 1 | <= EPS, 0 < EPS <= 1e-9", z3.And(x * x + y * y + z * z + w * w == 1 + e, e >= -EPS, e <= EPS, EPS > 0, EPS <= z3.RealVal("1/1000000000")))
                outs.append([SV(x), SV(y), SV(z), SV(w)])
                continue
            R = quat_matrix(x, y, z, w)
            eqs = [m[a][b] == R[a][b] for a in range(3) for b in range(3)]
            cx.axiom("as_quat(): unit quaternion (x,y,z,w) with R(q) == R", z3.And(x * x + y * y + z * z + w * w == 1, *eqs))
            outs.append([SV(x), SV(y), SV(z), SV(w)])
        if self.layout == "single": return obj(outs[0])
        if self.layout == "rows": return RowArr(outs[0], self.space, self.present)
        return obj(outs)

    def magnitude(self):
        raise Unsupported("Rotation.magnitude")

    def as_rotvec(self, **k):
        raise Unsupported("Rotation.as_rotvec")

    def __repr__(self): return f"Rot({self.layout},{len(self.mats)})"


QUAT_TOL = [False]
EPS = z3.Real("EPS")


def _mkey(m):
    return "|".join(z3.simplify(m[i][j]).sexpr() for i in range(3) for j in range(3))


def opaque_rot(prefix, layout="single"):
    """a symbolic rotation given by its matrix entries (plain reals) with the facts R^T R = I and det R = 1"""
    cx = ctx()
    m = [[z3.Real(f"{prefix}{i}{j}") for j in range(3)] for i in range(3)]
    facts = []
    for i in range(3):
        for j in range(i, 3):
            facts.append(sum(m[k][i] * m[k][j] for k in range(3)) == (1 if i == j else 0))
            facts.append(sum(m[i][k] * m[j][k] for k in range(3)) == (1 if i == j else 0))
    det = (m[0][0] * (m[1][1] * m[2][2] - m[1][2] * m[2][1]) - m[0][1] * (m[1][0] * m[2][2] - m[1][2] * m[2][0]) + m[0][2] * (m[1][0] * m[2][1] - m[1][1] * m[2][0]))
    facts.append(det == 1)
    cx.axiom(f"{prefix} is a rotation matrix: R^T R = R R^T = I, det R = 1", z3.And(*facts))
    return Rot([m], layout), m


def quat_matrix(x, y, z, w):
    return [
        [1 - 2 * (y * y + z * z), 2 * (x * y - z * w), 2 * (x * z + y * w)],
        [2 * (x * y + z * w), 1 - 2 * (x * x + z * z), 2 * (y * z - x * w)],
        [2 * (x * z - y * w), 2 * (y * z + x * w), 1 - 2 * (x * x + y * y)],
    ]


class TiledRotations(_Generic):
    pass


def rot_input(prefix, layout="single", space=None):
    """a symbolic rotation given by zxz Euler angle inputs phi,theta,psi (degrees)"""
    angs = [theory.angle_input(f"{prefix}{n}") for n in ("phi", "theta", "psi")]
    return Rot.from_euler("zxz", obj(angs), degrees=True) if layout == "single" else None
