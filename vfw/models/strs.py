"""minimal symbolic text values"""
import z3
from ..sym import Unsupported, SB, to_bool


class StrChoice:
    """a string that is one of finitely many concrete alternatives, selected by conditions"""
    __generic__ = True
    __hash__ = None

    def __init__(self, alts):
        self.alts = alts  # list of (z3 Bool, str|None)

    @staticmethod
    def ite(c, a, b):
        aa = a.alts if isinstance(a, StrChoice) else [(z3.BoolVal(True), a)]
        bb = b.alts if isinstance(b, StrChoice) else [(z3.BoolVal(True), b)]
        return StrChoice([(z3.And(c, x), s) for x, s in aa] + [(z3.And(z3.Not(c), x), s) for x, s in bb])

    def eq(self, s):
        return z3.Or(*[c for c, v in self.alts if v == s]) if any(v == s for _, v in self.alts) else z3.BoolVal(False)

    def __eq__(self, o):
        if isinstance(o, str):
            return SB(self.eq(o))
        raise Unsupported("StrChoice comparison")


class SymStr:
    @staticmethod
    def of_number(x):
        raise Unsupported("str() of a symbolic number")
