"""Generic-voxel model of numpy arrays with SYMBOLIC shape (maps, masks, image stacks).

A VArr stands for an n-dimensional array whose axis sizes may be symbolic.  It stores the value of ONE generic element as a term
over the global index variables V0, V1, V2, ... (one per axis position).  Element-wise operations become scalar operations on
the generic element; transposes, slices, reversals and shifts are substitutions on the index variables (an index-map algebra);
masked / point / slice assignment become if-then-else on index conditions.  Because every admitted operation treats all elements
alike (up to index conditions that are part of the term), a fact proved for the generic element holds for every element of every
array of every shape.  Anything that is not modelled raises Unsupported.

Safety obligations generated here: point indices and slice bounds must lie inside the axis (numpy would raise, silently wrap
negative indices, or clip slices and then fail to broadcast), shapes of operands must agree.
"""
import itertools
import z3
from ..sym import SV, SB, Unsupported, ModelRaise, ctx, to_z3, real, is_num, ite, to_bool
from .. import sym
from .frames import _Generic

_ids = itertools.count()


def V(a):
    return z3.Int(f"V{a}")


def _size_t(s):
    return to_z3(s)


def _same_size(a, b):
    ta, tb = _size_t(a), _size_t(b)
    if z3.is_true(z3.simplify(ta == tb)):
        return True
    return False


class VArr(_Generic):
    def __init__(self, shape, elem, dtype="float64", fresh=True):
        self.shape_ = list(shape)
        self.elem = elem
        self.dtype_ = dtype
        self.id = next(_ids)
        self.fresh = fresh  # False for arrays that are inputs of the function under contract

    # ---- basic protocol
    @property
    def shape(self):
        return tuple(self.shape_)

    @property
    def ndim(self):
        return len(self.shape_)

    @property
    def dtype(self):
        import numpy as np
        return np.dtype(self.dtype_) if self.dtype_ != "bool" else np.dtype(bool)

    @property
    def size(self):
        r = 1
        for s in self.shape_:
            r = r * s
        return r

    def __sym_len__(self):
        return self.shape_[0]

    def __sym_isinstance__(self, ts):
        import numpy as np
        return any(t is np.ndarray for t in ts)

    def in_bounds(self):
        return z3.And(*[z3.And(V(a) >= 0, V(a) < _size_t(s)) for a, s in enumerate(self.shape_)])

    @property
    def real(self):
        return self

    def _new(self, elem, shape=None, dtype=None):
        return VArr(shape if shape is not None else self.shape_, elem, dtype or self.dtype_)

    def copy(self, *a, **k):
        return self._new(self.elem)

    def __sym_deepcopy__(self):
        return self.copy()

    def at(self, idx):
        """value of the element at the given index tuple (terms), by substitution"""
        return subst_index(self.elem, {a: to_z3(i) for a, i in enumerate(idx)})

    def astype(self, t, *a, **k):
        nm = getattr(t, "__name__", str(t))
        if nm in ("float32", "single"):
            from .frames import to_f32
            return self._new(_map(self.elem, to_f32), dtype="float32")
        if nm in ("float64", "float", "_b_float", "double"):
            return self._new(self.elem, dtype="float64")
        if nm in ("int", "_b_int", "int64", "int32", "int16", "int8"):
            return self._new(_map(self.elem, lambda v: sym.pyint(v) if isinstance(v, (SV, SB)) else int(v)), dtype=("int64" if nm in ("int", "_b_int") else nm))
        if nm in ("bool", "bool_"):
            return self._new(_map(self.elem, lambda v: SB(to_bool(v))), dtype="bool")
        raise Unsupported(f"astype({nm}) of a voxel array")

    # ---- element-wise arithmetic with broadcasting of size-1 axes / scalars
    def _coerce(self, o):
        if isinstance(o, VArr):
            a, b = self.shape_, o.shape_
            if len(a) != len(b):
                raise Unsupported("broadcast between arrays of different rank")
            shape, sub_self, sub_o = [], {}, {}
            for ax, (x, y) in enumerate(zip(a, b)):
                if _same_size(x, y):
                    shape.append(x)
                elif not isinstance(x, SV) and x == 1:
                    shape.append(y); sub_self[ax] = z3.IntVal(0)
                elif not isinstance(y, SV) and y == 1:
                    shape.append(x); sub_o[ax] = z3.IntVal(0)
                else:
                    ctx().oblige("safe.shape-match", _size_t(x) == _size_t(y), kind="safe", detail=f"axis {ax} of two arrays combined element-wise")
                    shape.append(x)
            return shape, (subst_index(self.elem, sub_self) if sub_self else self.elem), (subst_index(o.elem, sub_o) if sub_o else o.elem)
        if is_num(o) or isinstance(o, (SV, SB)):
            return self.shape_, self.elem, o
        import numpy as np
        if isinstance(o, np.ndarray) and o.ndim == 0:
            return self.shape_, self.elem, o.item()
        raise Unsupported(f"voxel array combined with {type(o).__name__}")

    def _bin(self, o, f, rev=False, dtype=None):
        shape, a, b = self._coerce(o)
        return VArr(shape, f(b, a) if rev else f(a, b), dtype or self.dtype_)

    def __add__(self, o): return self._bin(o, lambda a, b: a + b)
    def __radd__(self, o): return self._bin(o, lambda a, b: a + b, True)
    def __sub__(self, o): return self._bin(o, lambda a, b: a - b)
    def __rsub__(self, o): return self._bin(o, lambda a, b: a - b, True)
    def __mul__(self, o): return self._bin(o, lambda a, b: a * b)
    def __rmul__(self, o): return self._bin(o, lambda a, b: a * b, True)
    def __truediv__(self, o): return self._bin(o, lambda a, b: a / b)
    def __rtruediv__(self, o): return self._bin(o, lambda a, b: a / b, True)
    def __pow__(self, o): return self._bin(o, lambda a, b: a ** b)
    def __neg__(self): return self._new(_map(self.elem, lambda v: -v))
    def __abs__(self): return self._new(_map(self.elem, abs))
    def __lt__(self, o): return self._bin(o, lambda a, b: a < b, dtype="bool")
    def __le__(self, o): return self._bin(o, lambda a, b: a <= b, dtype="bool")
    def __gt__(self, o): return self._bin(o, lambda a, b: a > b, dtype="bool")
    def __ge__(self, o): return self._bin(o, lambda a, b: a >= b, dtype="bool")
    def __eq__(self, o): return self._bin(o, lambda a, b: a == b, dtype="bool")
    def __ne__(self, o): return self._bin(o, lambda a, b: a != b, dtype="bool")
    def __and__(self, o): return self._bin(o, lambda a, b: _b_and(a, b), dtype="bool")
    def __or__(self, o): return self._bin(o, lambda a, b: _b_or(a, b), dtype="bool")
    def __invert__(self): return self._new(_map(self.elem, sym.s_not), dtype="bool")
    __hash__ = None

    def __inplace__(self, f, o):
        """x += y etc.: numpy mutates x in place (aliasing matters: every holder of x sees the change)"""
        shape, a, b = self._coerce(o)
        if len(shape) != len(self.shape_) or not all(_same_size(x, y) for x, y in zip(shape, self.shape_)):
            raise ModelRaise("ValueError", "non-broadcastable output operand")
        self.elem = f(a, b)
        return self

    # ---- index maps
    def transpose(self, *axes):
        axes = axes[0] if len(axes) == 1 and isinstance(axes[0], (tuple, list)) else axes
        if not axes:
            axes = tuple(reversed(range(self.ndim)))
        if sorted(axes) != list(range(self.ndim)):
            raise ModelRaise("ValueError", "axes don't match array")
        # new[V0..] = old[index j = V(position of j in axes)]
        sub = {old_ax: V(new_ax) for new_ax, old_ax in enumerate(axes)}
        return VArr([self.shape_[a] for a in axes], subst_index(self.elem, sub), self.dtype_)

    @property
    def T(self):
        return self.transpose()

    def _norm_slice(self, ax, s):
        """-> (start term, new size) for a step-1 or reversing slice; obligations keep bounds inside the axis"""
        n = self.shape_[ax]
        if s.step not in (None, 1, -1):
            raise Unsupported("slice with a step other than +-1")
        if s.step == -1:
            if s.start is None and s.stop is None:
                return "rev", n
            raise Unsupported("bounded reversing slice")
        lo = 0 if s.start is None else s.start
        hi = n if s.stop is None else s.stop
        cx = ctx()
        if isinstance(lo, (SV,)) or isinstance(hi, SV) or isinstance(n, SV):
            cx.oblige("safe.slice-in-bounds", z3.And(_size_t(lo) >= 0, _size_t(lo) <= _size_t(hi), _size_t(hi) <= _size_t(n)), kind="safe",
                      detail=f"slice bounds on axis {ax} must satisfy 0 <= start <= stop <= size (numpy would wrap a negative start or clip the stop and then change the shape)")
            return lo, hi - lo
        if lo < 0: lo += n
        if hi < 0: hi += n
        lo, hi = max(0, min(lo, n)), max(0, min(hi, n))
        return lo, max(0, hi - lo)

    def _parse_key(self, key):
        if not isinstance(key, tuple):
            key = (key,)
        if any(k is Ellipsis for k in key):
            i = key.index(Ellipsis)
            key = key[:i] + (slice(None),) * (self.ndim - (len(key) - 1 - sum(1 for k in key if k is None))) + key[i + 1:]
        return key

    def __getitem__(self, key):
        if isinstance(key, VArr):
            raise Unsupported("selection of elements by a mask (data-dependent shape)")
        if isinstance(key, tuple) and len(key) == self.ndim and all(type(k).__name__ == "GVec" for k in key):
            # a[i0, i1, i2] with one integer index vector per axis (one entry per row of a table): one picked element per row.
            # numpy would wrap negative indices; the model requires 0 <= index < size (obligation), which is what callers are expected to guard
            from .frames import GVec, _same_space
            sub = {}
            for a, k in enumerate(key):
                _same_space(key[0].space, k.space, "index vectors of one fancy-indexing expression")
                kt = to_z3(k.val)
                if kt.sort().kind() != z3.Z3_INT_SORT:
                    raise ModelRaise("IndexError", "arrays used as indices must be of integer (or boolean) type")
                ctx().oblige("safe.index-in-range", z3.Implies(to_bool_any(key[0].present), z3.And(kt >= 0, kt < _size_t(self.shape_[a]))), kind="safe", detail=f"fancy index along axis {a}")
                sub[a] = kt
            return GVec(subst_index(self.elem, sub), key[0].space, key[0].present)
        key = self._parse_key(key)
        sub, shape, ax_old, new_ax = {}, [], 0, 0
        moves = {}
        for k in key:
            if k is None:
                shape.append(1); new_ax += 1
                continue
            if ax_old >= self.ndim:
                raise ModelRaise("IndexError", "too many indices for array")
            if isinstance(k, slice):
                st, n = self._norm_slice(ax_old, k)
                if st == "rev":
                    moves[ax_old] = (new_ax, "rev", self.shape_[ax_old])
                else:
                    moves[ax_old] = (new_ax, "shift", st)
                shape.append(n); new_ax += 1
            elif isinstance(k, (int, SV)):
                self._index_guard(ax_old, k)
                moves[ax_old] = (None, "fix", k)
            elif isinstance(k, IndexMap):
                moves[ax_old] = (new_ax, "map", k)
                shape.append(k.n); new_ax += 1
            else:
                raise Unsupported(f"index of type {type(k).__name__}")
            ax_old += 1
        while ax_old < self.ndim:
            moves[ax_old] = (new_ax, "shift", 0); shape.append(self.shape_[ax_old]); ax_old += 1; new_ax += 1
        for old, (new, kind, arg) in moves.items():
            if kind == "fix":
                sub[old] = to_z3(arg) if not (isinstance(arg, int) and arg < 0) else _size_t(self.shape_[old]) + arg
            elif kind == "rev":
                sub[old] = _size_t(arg) - 1 - V(new)
            elif kind == "map":
                sub[old] = arg.fn(V(new))
            else:
                sub[old] = V(new) + to_z3(arg) if not (isinstance(arg, int) and arg == 0) else V(new)
        e = subst_index(self.elem, sub)
        if not shape:
            return e
        return VArr(shape, e, self.dtype_)

    def _index_guard(self, ax, k):
        if isinstance(k, SV) or isinstance(self.shape_[ax], SV):
            ctx().oblige("safe.index-in-bounds", z3.And(to_z3(k) >= 0, to_z3(k) < _size_t(self.shape_[ax])), kind="safe",
                         detail=f"integer index on axis {ax} must satisfy 0 <= index < size (a negative index silently wraps, a large one raises IndexError)")
        elif not (-self.shape_[ax] <= k < self.shape_[ax]):
            raise ModelRaise("IndexError", f"index {k} is out of bounds for axis {ax}")

    def __setitem__(self, key, v):
        if isinstance(key, VArr):  # boolean mask of the same shape
            shape, a, m = self._coerce(key)
            vv = v.elem if isinstance(v, VArr) else v
            self.elem = _ite(m, vv, self.elem)
            return
        key = self._parse_key(key)
        cx = ctx()
        lvars = getattr(cx, "loop_vars", {})
        loop_keys = [(a, k) for a, k in enumerate(key) if isinstance(k, SV) and z3.is_const(k.t) and k.t.decl().name() in lvars]
        if loop_keys:
            return self._comprehension_store(key, loop_keys, v, lvars)
        conds, sub_v, ax, vax = [], {}, 0, 0
        vshape = []
        for k in key:
            if k is None:
                raise Unsupported("newaxis in assignment")
            if isinstance(k, slice):
                st, n = self._norm_slice(ax, k)
                if st == "rev":
                    raise Unsupported("assignment through a reversed slice")
                if not (k.start is None and k.stop is None):
                    conds.append(z3.And(V(ax) >= to_z3(st), V(ax) < to_z3(st) + _size_t(n)))
                sub_v[vax] = V(ax) - to_z3(st)
                vshape.append(n); vax += 1
            elif isinstance(k, (int, SV)):
                self._index_guard(ax, k)
                kk = to_z3(k) if not (isinstance(k, int) and k < 0) else _size_t(self.shape_[ax]) + k
                conds.append(V(ax) == kk)
            else:
                raise Unsupported(f"assignment index of type {type(k).__name__}")
            ax += 1
        while ax < self.ndim:
            sub_v[vax] = V(ax); vshape.append(self.shape_[ax]); ax += 1; vax += 1
        if isinstance(v, VArr):
            if v.ndim != len(vshape):
                if v.ndim < len(vshape):
                    raise Unsupported("broadcast of a lower-rank array in slice assignment")
                raise ModelRaise("ValueError", "could not broadcast input array")
            sub2 = {}
            for a_, (sv_, st_) in enumerate(zip(v.shape_, vshape)):
                if _same_size(sv_, st_):
                    sub2[a_] = sub_v[a_]
                elif not isinstance(sv_, SV) and sv_ == 1:
                    sub2[a_] = z3.IntVal(0)
                else:
                    ctx().oblige("safe.shape-match", _size_t(sv_) == _size_t(st_), kind="safe",
                                 detail=f"slice assignment: value axis {a_} must have the size of the target slice (else ValueError: could not broadcast)")
                    sub2[a_] = sub_v[a_]
            val = subst_index(v.elem, sub2)
        else:
            val = v
        c = z3.And(*conds) if conds else z3.BoolVal(True)
        self.elem = _ite(SB(c), val, self.elem)

    def _comprehension_store(self, key, loop_keys, v, lvars):
        """arr[..loop variables..] = value inside generic loops over complete index ranges: every iteration writes its own cell,
        so after the loops cell (V..) holds the value computed by ITS iteration: substitute loop variable -> index variable.
        Conditions: the loop variables are distinct, the remaining keys are full slices, the stores are not under a data-dependent
        branch other than what is kept as an if-then-else, and the value reads this array only at the iteration's own cell."""
        cx = ctx()
        names = [k.t.decl().name() for _, k in loop_keys]
        if len(set(names)) != len(names):
            raise Unsupported("same loop variable on two axes")
        others = [k for a, k in enumerate(key) if not any(a == la for la, _ in loop_keys)]
        if not all(isinstance(k, slice) and k == slice(None) for k in others):
            raise Unsupported("loop-indexed store mixed with partial slices")
        sub = [(k.t, V(a)) for a, k in loop_keys]
        rng = []
        for a, k in loop_keys:
            lo, hi = lvars[k.t.decl().name()][:2]
            rng.append(z3.And(V(a) >= to_z3(lo), V(a) < to_z3(hi)))
        n0 = min(lvars[k.t.decl().name()][2] for _, k in loop_keys)
        # generalise the iteration: facts created inside the loops (sqrt/abs/... axioms) and the fresh symbols they define are
        # re-instantiated for the generic index (loop variable -> index variable, fresh symbol -> its generic twin)
        h0 = min(lvars[k.t.decl().name()][3] for _, k in loop_keys)
        c0 = min(lvars[k.t.decl().name()][4] for _, k in loop_keys)
        body_hyps = list(cx.hyps[h0:])
        import re as _re
        loop_names = set(lvars)
        fresh = {}
        def scan(e, seen):
            if e.get_id() in seen:
                return
            seen.add(e.get_id())
            if z3.is_const(e) and e.decl().kind() == z3.Z3_OP_UNINTERPRETED:
                nm = e.decl().name()
                m = _re.search(r"!(\d+)$", nm)
                if m and int(m.group(1)) >= c0 and nm not in loop_names and not nm.endswith("@g"):
                    fresh[nm] = e
            for ch in e.children():
                scan(ch, seen)
        seen = set()
        for hh in body_hyps:
            scan(hh, seen)
        if fresh and not all(k.t.decl().name() in loop_names for _, k in loop_keys):
            raise Unsupported("generalisation of loop-local symbols")
        # a fresh symbol defined inside the body depends on the iteration: it becomes a function of the index variables, and
        # its defining facts hold for every index (universally quantified, instantiated by the solver's e-matching wherever
        # the function is applied -- also after later index substitutions such as fftshift)
        idx_vars = [V(a) for a, _ in loop_keys]
        for nm, e in fresh.items():
            F = z3.Function(nm + "@g", *([z3.IntSort()] * len(idx_vars) + [e.sort()]))
            sub.append((e, F(*idx_vars)))
        for hh in body_hyps:
            g = z3.substitute(hh, *sub)
            if not g.eq(hh):
                dom = z3.And(*rng)
                cx.hyps.append(z3.ForAll(idx_vars, z3.Implies(dom, g)) if fresh else g)
        cx._solver = None
        branch = [e[0] for e in cx.pc[n0:] if not (len(e) > 2 and e[2] == "domain")]
        cond = z3.substitute(z3.And(*(rng + branch)), *sub) if (rng + branch) else z3.BoolVal(True)
        free_axes = [a for a, k in enumerate(key) if isinstance(k, slice)]
        if isinstance(v, FilteredMap):
            # a filtered image stored back into its own slice: record the per-image gain
            own = subst_index(self.elem, {a: k.t for a, k in loop_keys})
            own = subst_index(own, {fa: V(j) for j, fa in enumerate(free_axes)}) if free_axes != list(range(len(free_axes))) else own
            if not (z3.simplify(v.source.elem.t).eq(z3.simplify(own.t)) if isinstance(own, SV) else False):
                raise Unsupported("filtered image stored into a slice it was not computed from")
            if not v.real:
                raise Unsupported("complex filtered image stored into a real stack")
            gains = []
            for g in v.gains:
                ge = g.elem
                # gain lives on the free axes (0..k-1) of the image; move them to their positions in the stack, loop vars -> index vars
                ge = subst_index(ge, {j: V(fa) for j, fa in enumerate(free_axes)}) if free_axes != list(range(len(free_axes))) else ge
                ge = SV(z3.substitute(ge.t, *sub))
                gains.append(VArr(self.shape_, ge))
            self.filtered = {"gains": gains, "cond": cond, "source_elem": self.elem, "spectrum_roll": v.spectrum_roll}
            f = z3.Function(f"filtered!{next(_ids)}", *([z3.IntSort()] * self.ndim + [z3.RealSort()]))
            self.elem = SV(f(*[V(a) for a in range(self.ndim)]))
            return
        if isinstance(v, VArr):
            if v.ndim != len(free_axes):
                raise Unsupported("loop-indexed store of an array of different rank")
            val = subst_index(v.elem, {j: V(fa) for j, fa in enumerate(free_axes)}) if free_axes != list(range(len(free_axes))) else v.elem
        else:
            val = v
        if isinstance(val, (SV, SB)):
            val = type(val)(z3.substitute(val.t, *sub))
        self.elem = _ite(SB(cond), val, self.elem)

    def reshape(self, *shape):
        shape = shape[0] if len(shape) == 1 and isinstance(shape[0], (tuple, list)) else shape
        if len(shape) == self.ndim and all(_same_size(a, b) for a, b in zip(shape, self.shape_)):
            return self
        raise Unsupported("reshape of a voxel array")

    def sum(self, *a, **k): raise Unsupported("reduction over voxels")
    def mean(self, *a, **k): return reduce_mean(self)
    def max(self, *a, **k): raise Unsupported("reduction over voxels")
    def min(self, *a, **k): raise Unsupported("reduction over voxels")
    def __repr__(self): return f"VArr({self.shape_}, {self.dtype_})"


MEAN = {}


def reduce_mean(arr):
    """mean over all voxels: one uninterpreted number per array (keyed by the generic element term)"""
    key = z3.simplify(arr.elem.t).sexpr() if isinstance(arr.elem, SV) else repr(arr.elem)
    if key not in MEAN:
        MEAN[key] = z3.Real(f"mean_of_array_{len(MEAN)}")
    return SV(MEAN[key])


def _map(e, f):
    return f(e)


def _b_and(a, b):
    if isinstance(a, (SB, bool)) and isinstance(b, (SB, bool)):
        return SB(z3.And(to_bool(a), to_bool(b)))
    return a & b


def _b_or(a, b):
    if isinstance(a, (SB, bool)) and isinstance(b, (SB, bool)):
        return SB(z3.Or(to_bool(a), to_bool(b)))
    return a | b


def _ite(c, a, b):
    if isinstance(a, (SB, bool)) and isinstance(b, (SB, bool)):
        return SB(z3.If(to_bool(c), to_bool(a), to_bool(b)))
    return ite(c if isinstance(c, (SB, bool)) else SB(to_bool(c)), a, b)


def subst_index(e, sub):
    """simultaneous substitution V_a -> term in the generic element"""
    if not sub:
        return e
    pairs = [(V(a), t) for a, t in sub.items()]
    if isinstance(e, SV):
        return SV(z3.substitute(e.t, *pairs))
    if isinstance(e, SB):
        return SB(z3.substitute(e.t, *pairs))
    return e


def input_array(name, shape, dtype="float64", lo=None, hi=None):
    """an input array: elements are an uninterpreted function of the index"""
    f = z3.Function(name, *([z3.IntSort()] * len(shape) + [z3.RealSort()]))
    e = f(*[V(a) for a in range(len(shape))])
    arr = VArr(shape, SV(e), dtype, fresh=False)
    arr.fn = f
    return arr


class MGrid:
    """np.mgrid[0:X:1, 0:Y:1, ...] -> index arrays"""

    def __getitem__(self, key):
        if not isinstance(key, tuple):
            key = (key,)
        shape = []
        for s in key:
            if not isinstance(s, slice) or s.step not in (None, 1) or (s.start not in (None, 0)):
                raise Unsupported("np.mgrid form")
            shape.append(s.stop)
        if not any(isinstance(s, SV) for s in shape):
            import numpy as np
            return np.mgrid[key]
        return [VArr(shape, SV(V(a)), "int64") for a in range(len(shape))]


def to_bool_any(p):
    return p if z3.is_expr(p) else z3.BoolVal(bool(p))


class IndexMap(_Generic):
    """an integer index array used to pick elements along one axis: out[k] = in[f(k)], length n"""

    def __init__(self, name, n, source=None, kind=""):
        self.fn = z3.Function(name, z3.IntSort(), z3.IntSort())
        self.n, self.source, self.kind, self.name = n, source, kind, name
        IndexMap.registry[name] = self

    registry = {}

    def __sym_len__(self):
        return self.n

    @property
    def shape(self):
        return (self.n,)


class Spectrum(_Generic):
    """fftn/fft2 of a voxel array, multiplied by real gain arrays: DFT(x) * gain, element-wise in Fourier space.
    `shifted` says whether the spectrum is currently in fftshift-ed (centred) layout; gains multiplied in that layout are
    converted to natural layout when the spectrum is ifftshift-ed back."""

    def __init__(self, source, gains=(), shifted=0, pending=()):
        self.source, self.gains, self.shifted, self.pending = source, list(gains), shifted, list(pending)

    def __mul__(self, o):
        if isinstance(o, VArr):
            if self.shifted == 0:
                return Spectrum(self.source, self.gains + [o], 0, self.pending)
            return Spectrum(self.source, self.gains, self.shifted, self.pending + [(o, self.shifted)])
        raise Unsupported("spectrum multiplied by a non-array")

    __rmul__ = __mul__

    @property
    def shape(self):
        return self.source.shape


class FilteredMap(_Generic):
    """ifftn(DFT(x) * G) (and its real part): the map x filtered with the Fourier-space gain G"""

    spectrum_roll = None  # per-axis roll (mod n) of the spectrum at the inverse transform when it was not brought back to the natural layout

    def __init__(self, source, gains, real=False):
        self.source, self.gains, self._real = source, gains, real

    @property
    def shape(self):
        return self.source.shape

    @property
    def real(self):
        if self._real:
            return True
        r = FilteredMap(self.source, self.gains, True)
        r.spectrum_roll = self.spectrum_roll
        return r


class FFT:
    """assumed contract of numpy.fft: fftn/ifftn are mutually inverse linear maps that diagonalise circular shifts;
    ifftshift(a)[i] = a[(i + n//2) mod n] and fftshift(a)[i] = a[(i - n//2) mod n] per axis"""

    @staticmethod
    def fftn(x, *a, **k):
        if isinstance(x, VArr):
            return Spectrum(x)
        import numpy as np
        return np.fft.fftn(x, *a, **k)

    fft2 = fftn

    @staticmethod
    def ifftn(s, *a, **k):
        if isinstance(s, Spectrum):
            if s.shifted != 0 or s.pending:
                # the inverse transform is applied to a spectrum that is still laid out with `shifted` net (i)fftshifts: relative to the natural
                # layout it is rolled by shifted * (n // 2) per axis.  The result is x filtered with the (converted) gains only if every roll is
                # a multiple of n; the rolls are handed to the contract, which demands them to be zero.
                if s.shifted not in (1, -1, 2, -2):
                    raise Unsupported("inverse transform of a spectrum shifted more than twice")
                gains = list(s.gains)
                for g, lay in s.pending:
                    if lay not in (1, -1):
                        raise Unsupported("gain applied in a doubly shifted layout")
                    gains.append(FFT._shift(g, +1 if lay == 1 else -1))
                r = FilteredMap(s.source, gains)
                # natural layout iff the roll is a multiple of n: roll == 0, or n == 1 (where every roll is)
                r.spectrum_roll = [z3.If(_size_t(n) == 1, 0, (_size_t(n) / 2) if abs(s.shifted) == 1 else (_size_t(n) - 2 * (_size_t(n) / 2))) for n in s.source.shape_]
                return r
            return FilteredMap(s.source, s.gains)
        import numpy as np
        return np.fft.ifftn(s, *a, **k)

    ifft2 = ifftn

    @staticmethod
    def fftfreq(*a, **k):
        import numpy as np
        return np.fft.fftfreq(*a, **k)

    @staticmethod
    def _shift(x, sign):
        if isinstance(x, Spectrum):
            # layout bookkeeping: fftshift = +1, ifftshift = -1 (mutually inverse for every n).  Gains multiplied in a shifted layout
            # are mapped back:  natural_gain[j] = shifted_gain[index the layout shift sends j to]
            st = x.shifted - sign  # sign=+1 is ifftshift, sign=-1 is fftshift in this helper's convention
            if st == 0:
                gains = list(x.gains)
                for g, lay in x.pending:
                    if lay not in (1, -1):
                        raise Unsupported("gain applied in a doubly shifted layout")
                    # layout +1 (after fftshift): S[i] = F[(i - h) mod n]; natural index j sits at i = (j + h) mod n  -> ifftshift map
                    gains.append(FFT._shift(g, +1 if lay == 1 else -1))
                return Spectrum(x.source, gains, 0, [])
            return Spectrum(x.source, x.gains, st, x.pending)
        if not isinstance(x, VArr):
            import numpy as np
            return np.fft.ifftshift(x) if sign > 0 else np.fft.fftshift(x)
        sub = {}
        for a, n in enumerate(x.shape_):
            nt = _size_t(n)
            h = nt / 2
            # (V + sign*h) mod n written without mod, valid for 0 <= V < n (where the element is defined)
            sub[a] = z3.If(V(a) + h >= nt, V(a) + h - nt, V(a) + h) if sign > 0 else z3.If(V(a) - h < 0, V(a) - h + nt, V(a) - h)
        return VArr(x.shape_, subst_index(x.elem, sub), x.dtype_)

    @staticmethod
    def ifftshift(x, *a, **k):
        return FFT._shift(x, +1)

    @staticmethod
    def fftshift(x, *a, **k):
        return FFT._shift(x, -1)
