"""Generic-row model of pandas DataFrame / Series and of (N,k) numpy arrays derived from them.

A GFrame stands for a table with a *symbolic* number of rows; it stores the values of ONE generic row, the
condition `present` under which that row is (still) in the table, and an index space.  Only operations that are
row-wise in pandas/numpy are modelled (element-wise arithmetic, comparisons, boolean masking, column get/set,
row-wise apply, iterrows); everything else raises Unsupported.  Because every admitted operation treats all rows
alike, a fact proved about the generic row holds for every row of every table of every length.

Index spaces: filtering by a mask that is not syntactically all-true creates a new space; integer positions and
labels carry the space they belong to; combining objects of different spaces positionally or by label is an
`index-space` obligation failure (this is how label/position confusion after a filter is caught).

Assumed pandas 3 / numpy 2 semantics (trusted base): see DESIGN.md section 3.5.
"""
import itertools
import z3
from ..sym import SV, SB, Unsupported, ModelRaise, ctx, to_bool, to_z3, ite, is_num
from .. import sym

_space_counter = itertools.count()


class Space:
    """an index space.  pos_id identifies the *positional* layout (which rows, in which order); label_id identifies the
    index labels.  A boolean filter creates new positions but inherits labels; reset_index(drop=True) keeps the
    positions and makes labels equal to positions (RangeIndex)."""

    def __init__(self, n=None, parent=None, tag="", pos_id=None, label_id=None):
        cx = ctx()
        self.pos_id = pos_id if pos_id is not None else next(_space_counter)
        self.label_id = label_id if label_id is not None else self.pos_id
        self.n = n if n is not None else SV(cx.fresh(f"N{tag}", "Int"))
        cx.assume(to_z3(self.n) >= 0)
        self.parent = parent
        if not hasattr(cx, "spaces"):
            cx.spaces = []
        cx.spaces.append(self)

    @property
    def is_range(self):
        return self.label_id == self.pos_id

    def __repr__(self):
        return f"Space(pos={self.pos_id},labels={self.label_id})"


def _same_space(a, b, what, labels=False):
    if a is b:
        return
    if labels:
        if a.label_id == b.label_id and a.pos_id == b.pos_id:
            return
        if a.label_id == b.label_id:
            raise Unsupported(f"{what}: label alignment between a table and a filtered version of it")
    elif a.pos_id == b.pos_id:
        return
    ctx().oblige("frame.index-space", z3.BoolVal(False), kind="frame",
                 detail=f"{what}: operands live in different index spaces ({a} vs {b}); positions/labels of one are used on the other")
    raise Unsupported(f"{what}: different index spaces")


def space_for_count(n):
    """the positional layout that an array of `n` rows allocated by the code (np.zeros((n,k)), np.arange(n)) lines up
    with: n must be the row count of an existing table; the new array is positional (no labels), a DataFrame built
    from it gets a RangeIndex over the same positions"""
    cx = ctx()
    nt = z3.simplify(to_z3(n))
    best = None
    for sp in getattr(cx, "spaces", []):
        if z3.simplify(to_z3(sp.n)).eq(nt):
            if sp.is_range:
                return sp
            best = best or sp
    if best is not None:
        return _reset_space(best)
    raise Unsupported("array allocated with a symbolic length that is not the row count of a known table")


def _mentions(e, v):
    stack, seen = [e], set()
    while stack:
        x = stack.pop()
        if x.get_id() in seen:
            continue
        seen.add(x.get_id())
        if x.eq(v):
            return True
        stack.extend(x.children())
    return False


def _is_int_type(t):
    return t is int or t in ("int", "int64", "int32") or getattr(t, "__name__", "") in ("int64", "int32", "int_", "_b_int", "int", "intc")


def _is_float_type(t):
    return t is float or t in ("float", "float64", "float32") or getattr(t, "__name__", "") in ("float64", "float32", "_b_float", "float", "single", "double")


def _val(x):
    return x


def _elem_op(f, a, b):
    return f(a, b)


class _Generic:
    __generic__ = True
    __array_priority__ = 2000
    __array_ufunc__ = None  # numpy defers binary operators to the reflected method of the model object
    __hash__ = None


def _binary(self, other, f, reverse=False):
    """element-wise op between a generic object and a scalar / generic object / per-row constant vector"""
    raise NotImplementedError


class GVec(_Generic):
    """(N,) vector: one value per row.  kind: 'series' (label-aligned pandas Series) or 'array' (positional)"""

    objdtype = False

    def __init__(self, val, space, present=None, kind="array", name=None):
        self.val = val
        self.space = space
        self.present = present if present is not None else z3.BoolVal(True)
        self.kind = kind
        self.name = name

    def _new(self, v, kind=None):
        return GVec(v, self.space, self.present, kind or self.kind, self.name)

    def _other(self, o):
        if isinstance(o, GVec):
            _same_space(self.space, o.space, "element-wise operation")
            return o.val
        if isinstance(o, (RowArr, GFrame)):
            return NotImplemented
        if is_num(o) or isinstance(o, str) or o is None:
            return o
        if hasattr(o, "shape") and getattr(o, "shape", None) == ():
            return o.item()
        raise Unsupported(f"GVec op with {type(o).__name__}")

    def _bin(self, o, f, rev=False):
        ov = self._other(o)
        if ov is NotImplemented:
            return NotImplemented
        return self._new(f(ov, self.val) if rev else f(self.val, ov))

    def __add__(self, o): return self._bin(o, lambda a, b: a + b)
    def __radd__(self, o): return self._bin(o, lambda a, b: a + b, True)
    def __sub__(self, o): return self._bin(o, lambda a, b: a - b)
    def __rsub__(self, o): return self._bin(o, lambda a, b: a - b, True)
    def __mul__(self, o): return self._bin(o, lambda a, b: a * b)
    def __rmul__(self, o): return self._bin(o, lambda a, b: a * b, True)
    def __truediv__(self, o): return self._bin(o, lambda a, b: a / b)
    def __rtruediv__(self, o): return self._bin(o, lambda a, b: a / b, True)
    def __floordiv__(self, o): return self._bin(o, lambda a, b: a // b)
    def __mod__(self, o): return self._bin(o, lambda a, b: a % b)
    def __pow__(self, o): return self._bin(o, lambda a, b: a ** b)
    def __neg__(self): return self._new(-self.val)
    def __abs__(self): return self._new(abs(self.val))
    def __lt__(self, o): return self._bin(o, lambda a, b: a < b)
    def __le__(self, o): return self._bin(o, lambda a, b: a <= b)
    def __gt__(self, o): return self._bin(o, lambda a, b: a > b)
    def __ge__(self, o): return self._bin(o, lambda a, b: a >= b)
    def __eq__(self, o): return self._bin(o, lambda a, b: _eq(a, b))
    def __ne__(self, o): return self._bin(o, lambda a, b: sym.s_not(_eq(a, b)))
    def __and__(self, o): return self._bin(o, lambda a, b: _band(a, b))
    def __rand__(self, o): return self._bin(o, lambda a, b: _band(a, b))
    def __or__(self, o): return self._bin(o, lambda a, b: _bor(a, b))
    def __ror__(self, o): return self._bin(o, lambda a, b: _bor(a, b))
    def __invert__(self): return self._new(sym.s_not(self.val))

    # pandas Series API
    @property
    def values(self): return self._new(self.val, "array")
    def to_numpy(self, *a, **k): return self._new(self.val, "array")
    def copy(self, *a, **k): return self._new(self.val)
    def mod(self, o): return self % o
    def eq(self, o): return self == o
    def mul(self, o): return self * o
    def add(self, o): return self + o
    def sub(self, o): return self - o
    def abs(self): return abs(self)
    def astype(self, t, *a, **k):
        if t is object or t in ("object", "O") or t is str and False:
            r = self._new(self.val)
            r.objdtype = True
            return r
        if _is_int_type(t):
            return self._new(sym.pyint(self.val) if isinstance(self.val, (SV, SB)) else int(self.val))
        if _is_float_type(t):
            return self._new(sym.pyfloat(self.val) if isinstance(self.val, (SV, SB)) else self.val)
        if t is str:
            raise Unsupported("astype(str) on a symbolic column")
        raise Unsupported(f"astype({t})")
    def fillna(self, v, **k):
        return self._new(_fillna(self.val, v))
    def reset_index(self, drop=False, inplace=False, **k):
        if not drop:
            raise Unsupported("Series.reset_index(drop=False)")
        sp = _reset_space(self.space)
        return GVec(self.val, sp, self.present, self.kind, self.name)
    def reshape(self, *shape):
        shape = shape[0] if len(shape) == 1 and isinstance(shape[0], tuple) else shape
        if len(shape) == 2 and shape[1] == 1:
            return RowArr([self.val], self.space, self.present)
        if len(shape) == 1:
            return self
        raise Unsupported(f"reshape{shape} of a per-row vector")
    @property
    def shape(self): return (_count(self.space, self.present),)
    def __sym_len__(self): return _count(self.space, self.present)
    @property
    def iloc(self): return _VecILoc(self)
    def unique(self):
        own = self.val
        pres = self.present
        def member(v):
            if isinstance(v, SV) and isinstance(own, SV) and v.t.eq(own.t):
                return pres
            raise Unsupported("membership of a foreign value in a column's key set")
        return KeySet(member, own)
    target_space = None  # for vectors of row positions into another table (KD-tree results, arange)

    def __sym_isinstance__(self, ts):
        import numpy as np
        if self.kind == "array":
            return any(t is np.ndarray for t in ts)
        return any(getattr(t, "__name__", "") == "Series" for t in ts)

    def __getitem__(self, k):
        if isinstance(k, GVec) and isinstance(k.val, SV) and k.val.isint:
            return _take_rows(self, k)
        if isinstance(k, GVec):  # boolean mask
            return _mask_vec(self, k)
        if isinstance(k, slice) and k == slice(None):
            return self
        if isinstance(k, tuple) and len(k) == 2 and isinstance(k[0], slice) and k[0] == slice(None) and k[1] is None:
            r = RowArr([self.val], self.space)  # v[:, np.newaxis]: an (N,1) column that broadcasts over the columns of an (N,k) array
            r.broadcast_col = True
            return r
        if isinstance(k, int) or isinstance(k, SV):
            return PosElem(self, k)
        raise Unsupported(f"GVec[{type(k).__name__}]")
    def __setitem__(self, k, v):
        if isinstance(k, tuple) and len(k) == 1 and isinstance(k[0], GVec):
            k = k[0]
        if isinstance(k, GVec) and getattr(k, "where_of", None) is not None:
            k = k.where_of  # v[np.where(mask)] = x  is  v[mask] = x
        if isinstance(k, GVec) and not (isinstance(k.val, SV) and k.val.isint):
            _same_space(self.space, k.space, "masked store into a per-row vector")
            if isinstance(v, GVec):
                v = v.val
            self.val = _guarded(_ite_any(to_bool(k.val), v, self.val), self.val)
            return
        if isinstance(k, (SV, int)):
            pv = RowPos(self.space).val.t
            kt = to_z3(k)
            ctx().oblige("safe.index-in-range", z3.And(kt >= 0, kt < to_z3(self.space.n)), kind="safe", detail="element store into a per-row vector")
            self.val = _ite_any(pv == kt, v, self.val)
            return
        raise Unsupported("per-row vector store form")

    def __generic_iter__(self):
        raise Unsupported("iteration over a per-row vector (data-dependent loop)")
    def sum(self, *a, **k): raise Unsupported("reduction over rows (sum)")
    def max(self, *a, **k): return col_extreme(self, "max")
    def min(self, *a, **k): return col_extreme(self, "min")
    def __sym_minmax__(self, which): return col_extreme(self, which)
    dedup = False
    def drop_duplicates(self, *a, **k):
        r = self._new(self.val)
        r.dedup = True
        return r
    def isin(self, other):
        if isinstance(other, GVec):
            return self._new(SB(other.count_of(self.val) >= 1), "series")
        raise Unsupported("isin with a non-column argument")
    def count_of(self, v):
        """number of rows of this column whose value equals v (uninterpreted, >= 0; the generic row itself counts)"""
        cx = ctx()
        fn = z3.Function(f"count!{self.space.pos_id}!{self.name}", z3.RealSort(), z3.IntSort())
        t = sym.real(to_z3(v))
        cx.axiom("count_of(column, v) >= 0, and >= 1 for the value of a present row", z3.And(fn(t) >= 0, z3.Implies(self.present, fn(sym.real(to_z3(self.val))) >= 1)))
        c = fn(t)
        if self.dedup:
            return SV(z3.If(c >= 1, z3.IntVal(1), z3.IntVal(0)))
        return SV(c)
    def sqrt(self): return self._new(_u(self.val, "sqrt"))
    def __repr__(self): return f"GVec({self.val}, {self.space}, {self.kind})"


def _u(v, fn):
    from .. import theory
    return getattr(theory, fn)(v)


def _eq(a, b):
    r = a == b
    return r


def col_extreme(vec, which):
    """min()/max() of a column of a non-empty table: a number m with m <= (>=) the generic row's value (attained by some
    row, which no obligation here needs)"""
    cx = ctx()
    m = cx.fresh(f"col{which}")
    v = sym.real(to_z3(vec.val))
    cx.oblige("safe.reduction-of-empty-table", to_z3(vec.space.n) >= 1, kind="safe", detail=f"{which}() of an empty column raises ValueError")
    cx.axiom(f"{which}(column) bounds every present row's value", z3.Implies(vec.present, (m <= v) if which == "min" else (m >= v)))
    return SV(m)


def _band(a, b):
    if isinstance(a, (SB, bool)) and isinstance(b, (SB, bool)):
        return SB(z3.And(to_bool(a), to_bool(b)))
    return a & b


def _bor(a, b):
    if isinstance(a, (SB, bool)) and isinstance(b, (SB, bool)):
        return SB(z3.Or(to_bool(a), to_bool(b)))
    return a | b


ISNAN = z3.Function("isnan", z3.RealSort(), z3.BoolSort())
F32 = z3.Function("f32", z3.RealSort(), z3.RealSort())


def to_f32(v):
    """narrowing to single precision: uninterpreted, idempotent, f32(0) = 0 (instances added on use)"""
    t = sym.real(to_z3(v))
    r = F32(t)
    cx = ctx()
    cx.axiom("f32: f32(f32(x)) = f32(x), f32(0) = 0", z3.And(F32(r) == r, F32(z3.RealVal(0)) == 0))
    return SV(r)


def _fillna(v, fill):
    if isinstance(v, SV) and not v.isint:
        s = z3.simplify(ISNAN(v.t))
        return ite(ISNAN(v.t), fill, v)
    return v


def _count(space, present):
    """number of rows: the space's count (present is all-true within a space by construction)"""
    return space.n


def _reset_space(space):
    if space.is_range:
        return space
    return Space(n=space.n, parent=space, pos_id=space.pos_id, label_id=space.pos_id)


def _filter_space(space, mask_true=False, mask=None):
    """the layout of the rows of `space` that pass a filter; the same mask (same formula) on the same layout gives the same filtered layout,
    so that a[m] and b[m] stay aligned"""
    cx = ctx()
    memo = cx.__dict__.setdefault("_filter_spaces", {})
    key = None
    if mask is not None:
        key = (space.pos_id, z3.simplify(mask).sexpr())
        if key in memo:
            return memo[key]
    sp = Space(parent=space, tag="f", label_id=space.label_id)
    cx.assume(to_z3(sp.n) <= to_z3(space.n))
    if key is not None:
        memo[key] = sp
    return sp


def _take_rows(arr, idx):
    """arr[idx] where idx is a vector (one entry per row of ANOTHER layout) of row positions into arr: the result lives in
    idx's layout; its generic row is arr's row at position idx -- obtained by substituting arr's position variable.
    Requires arr's values to be expressed as functions of its row position (pos_frame inputs)."""
    pos_arr = RowPos(arr.space).val.t
    it = idx.val.t
    if idx.space.pos_id == arr.space.pos_id and it.eq(pos_arr):
        return arr  # identity selection (np.arange(n))
    ctx().oblige("safe.index-in-range", z3.And(it >= 0, it < to_z3(arr.space.n)), kind="safe", detail="row positions used as a fancy index must lie inside the indexed table")
    def sub(v):
        if isinstance(v, SV):
            return SV(z3.substitute(v.t, (pos_arr, it)))
        return v
    pres = z3.substitute(arr.present, (pos_arr, it)) if not z3.is_true(arr.present) else arr.present
    if isinstance(arr, RowArr):
        return RowArr([sub(v) for v in arr.vals], idx.space, z3.And(idx.present, pres))
    return GVec(sub(arr.val), idx.space, z3.And(idx.present, pres), arr.kind, arr.name)


def pos_frame(cols, prefix, space=None, angle_cols=()):
    """an input table whose column values are uninterpreted functions of the row position (so that rows can be picked by
    position): row[c] = F_c(pos)"""
    from .. import theory
    sp = space or Space(tag=prefix)
    pos = RowPos(sp).val.t
    row = {}
    for c in cols:
        F = z3.Function(f"{prefix}{c}", z3.IntSort(), z3.RealSort())
        row[c] = SV(F(pos))
    fr = GFrame(cols, row, sp)
    fr.fn_prefix = prefix
    return fr


def _mask_vec(v, m):
    _same_space(v.space, m.space, "boolean mask")
    sp = _filter_space(v.space, mask=z3.And(v.present, to_bool(m.val)))
    r = GVec(v.val, sp, z3.And(v.present, to_bool(m.val)), v.kind, v.name)
    if getattr(v, "target_space", None) is not None:
        r.target_space = v.target_space
    return r


class PosElem:
    """element at a given *position* of a per-row vector: only usable for the generic row's own position"""
    def __init__(self, vec, pos):
        raise Unsupported("positional element access of a per-row vector")


class _VecILoc:
    def __init__(self, v): self.v = v
    def __getitem__(self, k):
        raise Unsupported("Series.iloc[...]")


class KeySet(_Generic):
    """the set of distinct values of a key column (result of unique()): iterating it is a keyed-partition loop.
    member(v) -> z3 Bool: is value v one of the keys"""
    def __init__(self, member, own_val=None):
        self.member = member
        self.own_val = own_val
    def __generic_for__(self, interp, st, env):
        return keyed_loop(self, interp, st, env)
    def __sym_contains__(self, x):
        return SB(self.member(x))


def keyed_loop(keys, interp, st, env):
    """`for t in <distinct keys>: ... df.loc[df[c] == t, ...] ...`
    Iterations touch disjoint row sets when every `.loc` access to a generic table in the body is masked by
    equality of one column with the loop key (checked on the AST; keys are distinct because they come from
    unique()).  For the generic row with key value tau the only iteration that can touch it is t == tau, and it
    runs iff tau is one of the keys: the body is executed once with t := tau, every table write guarded by
    member(tau)."""
    import ast
    if not isinstance(st.target, ast.Name):
        raise Unsupported("keyed loop with tuple target")
    var = st.target.id
    key_cols = set()
    for node in ast.walk(ast.Module(body=st.body, type_ignores=[])):
        if isinstance(node, ast.Subscript) and isinstance(node.value, ast.Attribute) and node.value.attr == "loc":
            sel = node.slice.elts[0] if isinstance(node.slice, ast.Tuple) else node.slice
            ok = (isinstance(sel, ast.Compare) and len(sel.ops) == 1 and isinstance(sel.ops[0], ast.Eq)
                  and isinstance(sel.comparators[0], ast.Name) and sel.comparators[0].id == var)
            if not ok:
                raise Unsupported(f"keyed loop at line {st.lineno}: table access not masked by equality with the loop key")
            key_cols.add(ast.unparse(sel.left))
        elif isinstance(node, ast.Subscript) and isinstance(node.slice, ast.Compare) and len(node.slice.ops) == 1 and isinstance(node.slice.ops[0], ast.Eq) \
                and isinstance(node.slice.comparators[0], ast.Name) and node.slice.comparators[0].id == var:
            key_cols.add(ast.unparse(node.slice.left))  # v[labels == key] (per-row vectors)
        if isinstance(node, (ast.For, ast.While)):
            raise Unsupported("nested loop inside a keyed loop")
    cx = ctx()
    tau = cx.keyed_row_key(key_cols, interp, env) if hasattr(cx, "keyed_row_key") else None
    if tau is None:
        # the key of the generic row: value of the masked column of the (single) generic table accessed in the body
        vals = []
        for kc in key_cols:
            v = interp.ev(ast.parse(kc, mode="eval").body, env)
            if isinstance(v, GVec):
                vals.append(v.val)
        gen = [v for v in vals if isinstance(v, SV)]
        if len(gen) != 1 and len({g.t.sexpr() for g in gen}) != 1:
            raise Unsupported("keyed loop: cannot identify the generic row's key column")
        tau = gen[0]
    guard = keys.member(tau)
    env.vars[var] = tau
    stack = getattr(cx, "write_guard", [])
    cx.write_guard = stack + [guard]
    try:
        interp.block(st.body, env)
    finally:
        cx.write_guard = stack
    env.vars[var] = Poison("loop key after a keyed-partition loop")


def _guarded(new, old):
    g = getattr(ctx(), "write_guard", [])
    if not g:
        return new
    return _ite_any(z3.And(*g), new, old)


class RowArr(_Generic):
    """(N,k) array: k values per generic row"""
    def __init__(self, vals, space, present=None):
        self.vals = list(vals)
        self.space = space
        self.present = present if present is not None else z3.BoolVal(True)
    @property
    def k(self): return len(self.vals)
    def _new(self, vals): return RowArr(vals, self.space, self.present)
    def _other(self, o):
        import numpy as np
        if isinstance(o, GFrame):
            o = o.to_numpy()
        if isinstance(o, RowArr):
            _same_space(self.space, o.space, "array op")
            if o.k == self.k: return o.vals
            if o.k == 1: return o.vals * self.k
            raise ModelRaise("ValueError", f"operands could not be broadcast together with shapes (N,{self.k}) (N,{o.k})")
        if isinstance(o, GVec):
            raise ModelRaise("ValueError", f"operands could not be broadcast together with shapes (N,{self.k}) (N,)") if self.k != 1 else Unsupported("(N,1) with (N,) broadcast")
        if is_num(o): return [o] * self.k
        if hasattr(o, "__scalar__"): return [o.__scalar__()] * self.k
        if isinstance(o, TiledRows):
            _len_check(self.space, o.n)
            return list(o.row)
        if isinstance(o, (list, tuple, np.ndarray)):
            a = np.asarray(o, dtype=object)
            if a.ndim == 1 and a.shape[0] == self.k: return list(a)
            if a.ndim == 2 and a.shape[0] == 1 and a.shape[1] == self.k: return list(a[0])
            if a.ndim == 0: return [a.item()] * self.k
            raise Unsupported(f"broadcast of (N,{self.k}) with shape {a.shape}")
        raise Unsupported(f"RowArr op with {type(o).__name__}")
    def _bin(self, o, f, rev=False):
        ov = self._other(o)
        return self._new([f(b, a) if rev else f(a, b) for a, b in zip(self.vals, ov)])
    def __add__(self, o): return self._bin(o, lambda a, b: a + b)
    def __radd__(self, o): return self._bin(o, lambda a, b: a + b, True)
    def __sub__(self, o): return self._bin(o, lambda a, b: a - b)
    def __rsub__(self, o): return self._bin(o, lambda a, b: a - b, True)
    def __mul__(self, o): return self._bin(o, lambda a, b: a * b)
    def __rmul__(self, o): return self._bin(o, lambda a, b: a * b, True)
    def __truediv__(self, o): return self._bin(o, lambda a, b: a / b)
    def __rtruediv__(self, o): return self._bin(o, lambda a, b: a / b, True)
    def __neg__(self): return self._new([-a for a in self.vals])
    def __lt__(self, o): return self._bin(o, lambda a, b: a < b)
    def __le__(self, o): return self._bin(o, lambda a, b: a <= b)
    def __gt__(self, o): return self._bin(o, lambda a, b: a > b)
    def __ge__(self, o): return self._bin(o, lambda a, b: a >= b)
    def __eq__(self, o): return self._bin(o, lambda a, b: a == b)
    def __ne__(self, o): return self._bin(o, lambda a, b: a != b)
    def __pow__(self, o): return self._new([a ** o for a in self.vals])
    @property
    def shape(self): return (self.space.n, self.k)
    @property
    def ndim(self): return 2
    @property
    def T(self): raise Unsupported("transpose of an (N,k) per-row array")
    lead = 0  # number of leading singleton axes added by reshape((1, N, k))
    f32 = False
    def reshape(self, *shape):
        shape = shape[0] if len(shape) == 1 and isinstance(shape[0], (tuple, list)) else shape
        if len(shape) == 3 and shape[0] == 1 and not isinstance(shape[2], SV) and int(shape[2]) == self.k:
            _len_check(self.space, shape[1])
            r = self._new(self.vals)
            r.lead = 1
            r.f32 = self.f32
            return r
        raise Unsupported(f"reshape of a per-row array to {shape}")
    def __sym_len__(self): return self.space.n
    def copy(self): return self._new(self.vals)
    def __sym_isinstance__(self, ts):
        import numpy as np
        return any(t is np.ndarray for t in ts)
    def astype(self, t, *a, **k):
        if getattr(t, "__name__", "") in ("float32", "single"):
            r = self._new([to_f32(v) for v in self.vals])
            r.lead, r.f32 = self.lead, True
            return r
        if _is_int_type(t):
            return self._new([sym.pyint(v) if isinstance(v, (SV, SB)) else int(v) for v in self.vals])
        if _is_float_type(t):
            return self._new([sym.pyfloat(v) if isinstance(v, (SV, SB)) else float(v) for v in self.vals])
        raise Unsupported(f"astype({t})")
    def __getitem__(self, key):
        if isinstance(key, tuple) and len(key) == 2:
            r, c = key
            if isinstance(r, slice) and r == slice(None):
                if isinstance(c, int):
                    return GVec(self.vals[c], self.space, self.present)
                if isinstance(c, slice):
                    return self._new(self.vals[c])
                if isinstance(c, list):
                    return self._new([self.vals[i] for i in c])
            if isinstance(r, GVec) and isinstance(r.val, SV) and r.val.isint:
                t = _take_rows(self, r)
                return t[(slice(None), c)]
            if (isinstance(r, SV) or isinstance(r, int)) and isinstance(c, slice) and c == slice(None):
                return self.row_at(r)
            if isinstance(r, SV) or isinstance(r, int):
                raise Unsupported("row access by position in a per-row array")
        if isinstance(key, GVec) and isinstance(key.val, SV) and key.val.isint:
            return _take_rows(self, key)
        if isinstance(key, GVec):  # boolean mask rows
            _same_space(self.space, key.space, "boolean mask")
            sp = _filter_space(self.space, mask=z3.And(self.present, to_bool(key.val)))
            return RowArr(self.vals, sp, z3.And(self.present, to_bool(key.val)))
        if isinstance(key, slice) and key == slice(None):
            return self
        raise Unsupported(f"RowArr[{key!r}]")
    def __setitem__(self, key, v):
        if isinstance(key, tuple) and len(key) == 2 and isinstance(key[0], slice) and key[0] == slice(None) and isinstance(key[1], int):
            if isinstance(v, GVec):
                _same_space(self.space, v.space, "column assignment")
                v = v.val
            self.vals[key[1]] = v
            return
        if (isinstance(key, tuple) and len(key) == 2 and isinstance(key[0], slice) and key[0] == slice(None) and isinstance(key[1], list)
                and all(isinstance(c, int) for c in key[1]) and isinstance(v, RowArr) and v.k == len(key[1])):
            _same_space(self.space, v.space, "column assignment")
            new = list(v.vals)  # the right-hand side was evaluated before the store (numpy fancy indexing copies)
            for c, x in zip(key[1], new):
                self.vals[c] = x
            return
        raise Unsupported(f"RowArr[{key!r}] = ...")
    def row_at(self, r):
        """row at (symbolic) position r as a concrete-shape vector: requires values expressed as functions of the row position"""
        from .npm import obj
        pv = RowPos(self.space).val.t
        rt = to_z3(r)
        ctx().oblige("safe.index-in-range", z3.And(rt >= 0, rt < to_z3(self.space.n)), kind="safe", detail="row position into a per-row array")
        out = []
        for v in self.vals:
            if isinstance(v, SV):
                if not _mentions(v.t, pv):
                    raise Unsupported("row access by position: values are not functions of the row position")
                out.append(SV(z3.substitute(v.t, (pv, rt))))
            else:
                out.append(v)
        return obj(out)

    def __generic_iter__(self):
        raise Unsupported("iteration over rows of an array")
    def tolist(self): raise Unsupported("tolist of per-row array")
    def __repr__(self): return f"RowArr({self.vals}, {self.space})"


class TiledRows(_Generic):
    """np.tile(vec, (n, 1)): n identical rows"""
    def __init__(self, row, n):
        self.row, self.n = list(row), n


def _len_check(space, n):
    a, b = to_z3(space.n), to_z3(n)
    if z3.is_true(z3.simplify(a == b)):
        return
    ctx().oblige("safe.shape-match", a == b, kind="safe", detail="row counts of two operands must agree")


class GRow(_Generic):
    """one row as seen by df.apply(f, axis=1) / iterrows()"""
    def __init__(self, cols, vals):
        self.cols = list(cols)
        self.d = dict(vals)
    def copy(self): return GRow(self.cols, self.d)
    def __getitem__(self, k):
        if isinstance(k, slice):
            lo = self.cols.index(k.start) if k.start is not None else 0
            hi = self.cols.index(k.stop) if k.stop is not None else len(self.cols) - 1
            return [self.d[c] for c in self.cols[lo:hi + 1]]
        if isinstance(k, list):
            return [self.d[c] for c in k]
        if k not in self.d:
            raise ModelRaise("KeyError", str(k))
        return self.d[k]
    def __setitem__(self, k, v):
        if k not in self.d:
            self.cols.append(k)
        self.d[k] = v
    def __getattr__(self, k):
        d = self.__dict__.get("d", {})
        if k in d: return d[k]
        raise AttributeError(k)
    @property
    def values(self):
        import numpy as np
        a = np.empty(len(self.cols), dtype=object)
        for i, c in enumerate(self.cols): a[i] = self.d[c]
        return a


class _Loc:
    def __init__(self, f): self.f = f
    def _split(self, k):
        if isinstance(k, tuple):
            if len(k) != 2: raise Unsupported("loc with >2 keys")
            return k
        return k, slice(None)
    def __getitem__(self, k):
        r, c = self._split(k)
        f = self.f.select_rows(r)
        return f.select_cols(c)
    def __setitem__(self, k, v):
        r, c = self._split(k)
        self.f.set_cells(r, c, v)


class _ILoc:
    def __init__(self, f): self.f = f
    def __getitem__(self, k):
        if isinstance(k, tuple):
            r, c = k
        else:
            r, c = k, slice(None)
        f = self.f
        if isinstance(r, SiteList):
            f = r.select(f)
        elif type(r).__name__ == "FnArr":
            pv = RowPos(f.space).val.t
            sp = _filter_space(f.space)
            f = GFrame(f.cols, f.row, sp, z3.And(f.present, r.f(pv)), perm=f.perm)
        elif isinstance(r, GVec):
            f = f.select_rows(r)
        elif isinstance(r, slice) and r == slice(None):
            pass
        else:
            raise Unsupported(f"iloc[{type(r).__name__}]")
        if isinstance(c, slice) and c == slice(None):
            return f
        if isinstance(c, slice) and all(isinstance(x, int) or x is None for x in (c.start, c.stop)) and c.step in (None, 1):
            cs = f.cols[c]
            return GFrame(cs, {k: f.row[k] for k in cs}, f.space, f.present)
        raise Unsupported("iloc column selection")

    def __setitem__(self, k, v):
        if isinstance(k, tuple) and isinstance(k[0], slice) and k[0] == slice(None) and isinstance(k[1], slice):
            cs = self.f.cols[k[1]]
            self.f.set_cells(slice(None), list(cs), v)
            return
        raise Unsupported("iloc assignment form")


class ColIndex(list):
    """column labels of a table with a concrete column order (pandas.Index protocol subset)"""
    def isin(self, values):
        vs = list(values)
        return [bool(c in vs) for c in self]
    def tolist(self): return list(self)
    def to_list(self): return list(self)
    @property
    def values(self): return list(self)
    def get_loc(self, k):
        if k not in self:
            raise ModelRaise("KeyError", str(k))
        return self.index(k)


class SiteList(_Generic):
    """a Python list filled inside a generic-iteration loop with the loop's own index (idx_list.append(i)):
    membership of the generic row is the disjunction of the path conditions at the append sites"""
    def __init__(self, space):
        self.space = space
        self.member = z3.BoolVal(False)
    def add(self, cond):
        self.member = z3.Or(self.member, cond)
    def select(self, f):
        _same_space(f.space, self.space, "positional selection (iloc) with indices collected in a loop over another table")
        if not self.space.is_range:
            # iterrows() over a table whose labels are not 0..n-1 yields LABELS; .iloc wants positions
            ctx().oblige("frame.index-space", z3.BoolVal(False), kind="frame",
                         detail="row labels collected by iterrows() over a table whose labels differ from its positions are used as positions (.iloc)")
            raise Unsupported("labels used as positions")
        sp = _filter_space(f.space)
        return GFrame(f.cols, f.row, sp, z3.And(f.present, self.member), perm=f.perm)


class GFrame(_Generic):
    def __init__(self, cols, row, space, present=None, perm=None):
        self.cols = list(cols)
        self.row = dict(row)
        self.space = space
        self.present = present if present is not None else z3.BoolVal(True)
        self.perm = perm  # symbolic column order (list of z3 Int: perm[j] = canonical id of the j-th column) or None

    def _clone(self, **kw):
        f = GFrame(self.cols, self.row, self.space, self.present, self.perm)
        f.objcols = set(getattr(self, "objcols", ()))
        f.mult = self.mult
        for a in ("parts", "selectors"):
            if hasattr(self, a):
                setattr(f, a, getattr(self, a))
        for k, v in kw.items(): setattr(f, k, v)
        return f

    # ---- basic protocol
    @property
    def columns(self):
        if self.perm is not None:
            return PermCols(self)
        return ColIndex(self.cols)

    @columns.setter
    def columns(self, names):
        names = list(names)
        if len(names) != len(self.cols):
            raise ModelRaise("ValueError", f"Length mismatch: Expected axis has {len(self.cols)} elements, new values have {len(names)} elements")
        self.row = {n: self.row[c] for n, c in zip(names, self.cols)}
        self.cols = names

    def rename(self, columns=None, **k):
        m = columns or {}
        cols = [m.get(c, c) for c in self.cols]
        return GFrame(cols, {m.get(c, c): v for c, v in self.row.items()}, self.space, self.present)

    def dropna(self, axis=0, how="any", **k):
        if axis == 1 and how == "all":
            keep = [c for c in self.cols if c not in getattr(self, "nan_cols", ())]
            r = GFrame(keep, {c: self.row[c] for c in keep}, self.space, self.present)
            return r
        raise Unsupported("dropna form")
    @property
    def shape(self): return (self.space.n, len(self.cols))
    def __sym_len__(self): return self.space.n
    def __sym_isinstance__(self, ts):
        return any(getattr(t, "__name__", "") == "DataFrame" for t in ts)
    @property
    def loc(self): return _Loc(self)
    @property
    def iloc(self): return _ILoc(self)
    @property
    def values(self): return self.to_numpy()
    @property
    def index(self): return GIndex(self)
    @property
    def empty(self):
        return self.space.n == 0

    def to_numpy(self, *a, **k):
        if self.perm is not None:
            # position j of the array holds the column whose canonical id is perm[j]
            vals = []
            for j in range(len(self.cols)):
                v = None
                for cid, c in enumerate(self.cols):
                    cv = self.row[c]
                    v = cv if v is None else ite(self.perm[j] == cid, cv, v)
                vals.append(v)
            return RowArr(vals, self.space, self.present)
        return RowArr([self.row[c] for c in self.cols], self.space, self.present)

    def copy(self, deep=True): return self._clone()
    def __deepcopy__(self, memo): return self._clone()

    def select_rows(self, r):
        if isinstance(r, slice) and r == slice(None):
            return self
        if isinstance(r, GVec) and isinstance(r.val, SV) and r.val.isint and getattr(r, "target_space", None) is not None and r.target_space.pos_id == self.space.pos_id:
            # rows picked by a vector of row positions of THIS table (labels = positions for a RangeIndex): the generic row of the result is this
            # table's row at that position; needs the table's values as functions of the row position
            if not self.space.is_range:
                raise Unsupported("row selection by positions on a table without a RangeIndex")
            pv = RowPos(self.space).val.t
            row = {}
            for c, v in self.row.items():
                if isinstance(v, SV):
                    if not _mentions(v.t, pv) and not r.val.t.eq(pv):
                        raise Unsupported("row selection by positions: values are not functions of the row position")
                    row[c] = SV(z3.substitute(v.t, (pv, r.val.t)))
                else:
                    row[c] = v
            return GFrame(self.cols, row, r.space, r.present, perm=self.perm)
        if isinstance(r, GVec):
            _same_space(self.space, r.space, "boolean row mask")
            if not isinstance(r.val, (SB, bool)):
                raise Unsupported("row selection by a non-boolean vector")
            mt = z3.simplify(to_bool(r.val))
            if z3.is_true(mt):
                return self
            sp = _filter_space(self.space, mask=z3.And(self.present, mt))
            return GFrame(self.cols, self.row, sp, z3.And(self.present, mt), perm=self.perm)
        if isinstance(r, SiteList):
            return r.select(self)
        raise Unsupported(f"row selection by {type(r).__name__}")

    def select_cols(self, c):
        if isinstance(c, slice):
            if c == slice(None):
                return self
            lo = self.cols.index(c.start) if c.start is not None else 0
            hi = self.cols.index(c.stop) if c.stop is not None else len(self.cols) - 1
            if self.perm is not None:
                raise Unsupported("label slice of columns on a frame with symbolic column order")
            cs = self.cols[lo:hi + 1]
            return GFrame(cs, {k: self.row[k] for k in cs}, self.space, self.present)
        if isinstance(c, str):
            if c not in self.row:
                raise ModelRaise("KeyError", c)
            return GVec(self.row[c], self.space, self.present, "series", c)
        if isinstance(c, (list, tuple)) or type(c).__name__ == "ndarray":
            cs = list(c)
            if cs and all(isinstance(k, bool) or type(k).__name__ == "bool_" for k in cs):  # boolean column mask: frame order
                if len(cs) != len(self.cols):
                    raise ModelRaise("IndexError", "Boolean index has wrong length")
                if self.perm is not None:
                    raise Unsupported("boolean column mask on a frame with symbolic column order")
                cs = [k for k, b in zip(self.cols, cs) if b]
            for k in cs:
                if k not in self.row:
                    raise ModelRaise("KeyError", str(k))
            return GFrame(cs, {k: self.row[k] for k in cs}, self.space, self.present)
        if isinstance(c, PermCols):
            return self
        raise Unsupported(f"column selection by {type(c).__name__}")

    def __getitem__(self, k):
        if isinstance(k, GVec):
            return self.select_rows(k)
        return self.select_cols(k)

    def _coerce_cell(self, v, ncols, what):
        """value to be written into `ncols` columns of the generic row -> list of per-column values"""
        import numpy as np
        if isinstance(v, GVec):
            if v.kind == "array" and v.space.pos_id != self.space.pos_id:
                # a plain array is assigned positionally: lengths must agree, element i goes to row i
                _len_check(self.space, v.space.n)
                pv, pf = RowPos(v.space).val.t, RowPos(self.space).val.t
                if isinstance(v.val, SV) and _mentions(v.val.t, pv):
                    return [SV(z3.substitute(v.val.t, (pv, pf)))] * ncols
                if not isinstance(v.val, SV):
                    return [v.val] * ncols
                _same_space(self.space, v.space, what)
            _same_space(self.space, v.space, what, labels=(v.kind == "series"))
            return [v.val] * ncols
        if isinstance(v, RowArr):
            _same_space(self.space, v.space, what)
            if v.k != ncols:
                raise ModelRaise("ValueError", f"shape mismatch: {v.k} columns into {ncols}")
            return list(v.vals)
        if isinstance(v, GFrame):
            _same_space(self.space, v.space, what, labels=True)
            if len(v.cols) != ncols:
                raise ModelRaise("ValueError", "shape mismatch")
            return [v.row[c] for c in v.cols]
        if isinstance(v, TiledRows):
            _len_check(self.space, v.n)
            if len(v.row) != ncols:
                raise ModelRaise("ValueError", "shape mismatch")
            return list(v.row)
        if is_num(v) or isinstance(v, str) or v is None:
            return [v] * ncols
        if isinstance(v, (list, tuple, np.ndarray)):
            a = np.asarray(v, dtype=object)
            if a.ndim == 1 and len(a) == ncols and ncols > 1:
                return list(a)
            raise Unsupported(f"{what}: concrete array of shape {a.shape} into a symbolic-length table")
        if isinstance(v, SymRange):
            a = v.a
            start, stop, step = (0, a[0], 1) if len(a) == 1 else (a[0], a[1], a[2] if len(a) > 2 else 1)
            if step != 1:
                raise Unsupported("range with a step into a table column")
            _len_check(self.space, stop - start)
            return [RowPos(self.space).val + start] * ncols
        raise Unsupported(f"{what}: value of type {type(v).__name__}")

    def set_cells(self, r, c, v):
        if isinstance(c, str):
            cs = [c]
        elif isinstance(c, slice) and c == slice(None):
            cs = list(self.cols)
        elif isinstance(c, (list, tuple)):
            cs = list(c)
        else:
            raise Unsupported("column key")
        vals = self._coerce_cell(v, len(cs), "cell assignment")
        if isinstance(r, slice) and r == slice(None):
            mask = None
        elif isinstance(r, GVec):
            _same_space(self.space, r.space, "row mask in assignment")
            mask = to_bool(r.val)
        else:
            raise Unsupported(f"row key {type(r).__name__} in assignment")
        nan_cols = set(getattr(self, "nan_cols", ()))
        self.nan_cols = nan_cols - set(cs) if mask is None else nan_cols
        for k, nv in zip(cs, vals):
            if k not in self.row:
                if mask is not None:
                    raise Unsupported("masked assignment creates a column")
                self.cols.append(k)
                self.row[k] = nv
                continue
            old = self.row[k]
            if k not in getattr(self, "objcols", ()):
                _dtype_guard(old, nv, k)
            self.row[k] = _guarded(nv if mask is None else _ite_any(mask, nv, old), old)

    def __setitem__(self, k, v):
        if isinstance(k, str):
            vals = self._coerce_cell(v, 1, f"column assignment [{k}]")
            if k not in self.row:
                self.cols.append(k)
            self.row[k] = _guarded(vals[0], self.row.get(k, vals[0]))
            self.nan_cols = set(getattr(self, "nan_cols", ())) - {k}
            if getattr(v, "objdtype", False) or isinstance(vals[0], str) or type(vals[0]).__name__ == "StrChoice":
                self.objcols = set(getattr(self, "objcols", ())) | {k}
            return
        if isinstance(k, list):
            vals = self._coerce_cell(v, len(k), "columns assignment")
            for kk, vv in zip(k, vals):
                if kk not in self.row:
                    self.cols.append(kk)
                self.row[kk] = vv
            self.nan_cols = set(getattr(self, "nan_cols", ())) - set(k)
            return
        raise Unsupported("frame setitem")

    def _arith(self, o, f, rev=False):
        a = self.to_numpy()
        if isinstance(o, GFrame):
            if list(o.cols) != list(self.cols):
                raise Unsupported("arithmetic between frames with different columns")
            o = o.to_numpy()
        r = a._bin(o, f, rev)
        return GFrame(self.cols, dict(zip(self.cols, r.vals)), self.space, self.present)
    def __add__(self, o): return self._arith(o, lambda a, b: a + b)
    def __radd__(self, o): return self._arith(o, lambda a, b: a + b, True)
    def __sub__(self, o): return self._arith(o, lambda a, b: a - b)
    def __rsub__(self, o): return self._arith(o, lambda a, b: a - b, True)
    def __mul__(self, o): return self._arith(o, lambda a, b: a * b)
    def __rmul__(self, o): return self._arith(o, lambda a, b: a * b, True)
    def __truediv__(self, o): return self._arith(o, lambda a, b: a / b)
    def __neg__(self): return GFrame(self.cols, {c: -v for c, v in self.row.items()}, self.space, self.present)

    def apply(self, f, axis=0, **kw):
        if axis != 1:
            raise Unsupported("DataFrame.apply(axis=0)")
        r = f(GRow(self.cols, self.row))
        if isinstance(r, GRow):
            return GFrame(r.cols, r.d, self.space, self.present)
        return GVec(r, self.space, self.present, "series")

    def iterrows(self):
        return RowIter(self)

    def reset_index(self, drop=False, inplace=False, **k):
        if not drop:
            raise Unsupported("reset_index(drop=False)")
        sp = _reset_space(self.space)
        if inplace:
            self.space = sp
            return None
        return self._clone(space=sp)

    def fillna(self, v, inplace=False, **k):
        row = {c: _fillna(x, v) for c, x in self.row.items()}
        if inplace:
            self.row = row
            return None
        return self._clone(row=row)

    def astype(self, t, **k):
        return self

    def round(self, nd=0):
        raise Unsupported("DataFrame.round")

    def drop(self, *a, **k):
        cols = k.get("columns")
        if cols is not None and not a:
            cols = [cols] if isinstance(cols, str) else list(cols)
            cs = [c for c in self.cols if c not in cols]
            return GFrame(cs, {c: self.row[c] for c in cs}, self.space, self.present)
        raise Unsupported("DataFrame.drop(index=...)")

    def sort_values(self, by=None, **k):
        """only for n stacked copies of a table (RepList.concat): sorting by a column whose values are distinct in the table groups
        the n copies of each row together (assumed pandas contract): position = rank_of_parent * n + j with j in [0,n) the place of the
        copy within its block; the copies are identical rows, so which copy stands where is unobservable"""
        rep = getattr(self.space, "rep", None)
        if rep is None or k.get("ascending", True) is not True or k.get("inplace") or not isinstance(by, str) or by not in self.row:
            raise Unsupported("sort_values on a generic table")
        cx = ctx()
        ctx().oblige(f"requires.sort_key_{by}_distinct_per_parent", z3.BoolVal(by in getattr(rep["src"], "unique_cols", ())), kind="requires",
                     detail="sort_values groups the copies of one parent only if the key identifies the parent")
        sp = Space(n=self.space.n, tag="srt")
        sp.label_id = self.space.label_id
        u = next(cx.counter)
        j, pr = z3.Int(f"block_place!{u}"), z3.Int(f"parent_rank!{u}")
        nn = to_z3(rep["n"])
        cx.assume(z3.And(j >= 0, j < nn, pr >= 0, pr < to_z3(rep["src_space"].n)))
        sp.rep = dict(rep, sorted_by=by, block_index=j, parent_rank=pr)
        r = GFrame(list(self.cols), dict(self.row), sp, self.present, perm=self.perm)
        r.mult = self.mult
        return r
    mult = None  # multiplicity of the generic row in the table (z3 Int) when it can differ from 1
    def merge(self, right, how="inner", on=None, **k):
        if how != "inner" or not isinstance(right, GVec) or right.name is None or right.name not in self.row:
            raise Unsupported("merge form")
        # inner merge on the shared column: a left row appears once per matching right row (assumed pandas contract)
        c = right.count_of(self.row[right.name])
        sp = Space(tag="m")
        r = GFrame(self.cols, self.row, sp, z3.And(self.present, to_z3(c) >= 1))
        r.mult = to_z3(c)
        return r
    def groupby(self, *a, **k): raise Unsupported("groupby on a generic table")
    def drop_duplicates(self, *a, **k): raise Unsupported("drop_duplicates on a generic table")
    def __repr__(self): return f"GFrame({self.cols}, {self.space})"


def _ite_any(c, a, b):
    if isinstance(a, str) or isinstance(b, str):
        from .strs import StrChoice
        return StrChoice.ite(c, a, b)
    return ite(SB(c), a, b)


def _dtype_guard(old, new, col):
    """pandas 3: writing a str into a float64 column through .loc raises TypeError (assumed model of setitem)"""
    if isinstance(new, str) and isinstance(old, (SV, float, int)):
        raise ModelRaise("TypeError", f"Invalid value {new!r} for dtype 'float64' (column {col})")


class PermCols(_Generic):
    """column labels of a frame whose order is a symbolic permutation"""
    def __init__(self, f): self.f = f
    def __iter__(self):
        raise Unsupported("iteration over symbolically ordered columns")
    def sorted_names(self): return sorted(self.f.cols)
    def __sym_len__(self): return len(self.f.cols)


class GIndex(_Generic):
    def __init__(self, f): self.f = f
    @property
    def is_range(self): return self.f.space.is_range


class RowIter(_Generic):
    """for i, row in df.iterrows(): generic-iteration loop.  Admitted effects: list.append of the loop's own index
    (SiteList) -- anything else that crosses iterations makes the loop unsupported."""
    def __init__(self, f): self.f = f
    def __generic_for__(self, interp, st, env):
        import ast
        f = self.f
        if not (isinstance(st.target, ast.Tuple) and len(st.target.elts) == 2):
            raise Unsupported("iterrows target")
        iname, rname = st.target.elts[0].id, st.target.elts[1].id
        # every list that the body appends to must be an empty python list now: turn it into a SiteList
        appended = set()
        assigned = set()
        for node in ast.walk(ast.Module(body=st.body, type_ignores=[])):
            if isinstance(node, ast.Call) and isinstance(node.func, ast.Attribute) and node.func.attr == "append" and isinstance(node.func.value, ast.Name):
                appended.add(node.func.value.id)
            if isinstance(node, (ast.Assign, ast.AugAssign)):
                for t in (node.targets if isinstance(node, ast.Assign) else [node.target]):
                    for nn in ast.walk(t):
                        if isinstance(nn, ast.Name): assigned.add(nn.id)
        idx = LoopIndex(f.space)
        for name in appended:
            cur = interp.lookup(name, env)
            if cur != []:
                raise Unsupported("generic loop appends to a non-empty list")
            _set(env, name, SiteAppender(f.space, idx))
        pre = {k: env.get(k) for k in assigned if env.has(k)}
        env.vars[iname] = idx
        env.vars[rname] = GRow(f.cols, f.row)
        cx = ctx()
        n0 = len(cx.pc)
        interp.block(st.body, env)
        for name in appended:
            ap = env.get(name)
            _set(env, name, ap.sitelist)
        # loop-carried scalars must not survive the loop (they would depend on the last iteration)
        for k in assigned:
            if k in (iname, rname): continue
            env.vars[k] = Poison(f"value of loop-local {k!r} after a generic-iteration loop")


def _set(env, name, v):
    e = env
    while e is not None:
        if name in e.vars:
            e.vars[name] = v
            return
        e = e.parent
    env.vars[name] = v


class Poison:
    def __init__(self, why): self.why = why
    def __getattr__(self, k): raise Unsupported(self.__dict__.get("why", "poison"))
    def __bool__(self): raise Unsupported(self.why)


class LoopIndex(_Generic):
    def __init__(self, space): self.space = space


class SiteAppender(_Generic):
    def __init__(self, space, idx):
        self.sitelist = SiteList(space)
        self.idx = idx
    def append(self, v):
        if v is not self.idx:
            raise Unsupported("generic loop appends something other than the loop index")
        cx = ctx()
        self.sitelist.add(z3.And(*[e[0] for e in cx.pc[getattr(self, "_pc0", 0):]]) if cx.pc else z3.BoolVal(True))


class SymRange(_Generic):
    def __init__(self, *a):
        self.a = a
    def __iter__(self):
        raise Unsupported("range() with symbolic bounds (needs an invariant)")
    def __generic_for__(self, interp, st, env):
        from .kernels import SymRangeIter
        a = self.a
        lo, hi, step = (0, a[0], 1) if len(a) == 1 else (a[0], a[1], a[2] if len(a) > 2 else 1)
        if step != 1:
            raise Unsupported("symbolic range with a step")
        return SymRangeIter(lo, hi).__generic_for__(interp, st, env)


class SymArange(_Generic):
    """np.arange(start, start+n): element at row r is start + r"""
    def __init__(self, start, n, step=1):
        self.start, self.n, self.step = start, n, step
    def elem_at_row(self, space):
        raise Unsupported("arange element needs the row position")


def fresh_frame(cols, prefix="", space=None, kinds=None, perm=None):
    """a generic input table: one symbolic value per column"""
    sp = space or Space(tag=prefix)
    row = {}
    for c in cols:
        k = (kinds or {}).get(c, "Real")
        t = z3.Int(f"{prefix}{c}") if k == "Int" else z3.Real(f"{prefix}{c}")
        row[c] = SV(t)
    return GFrame(cols, row, sp, perm=perm)


class KeyedTable(_Generic):
    """a small lookup table with one row per distinct key (e.g. tomogram dimensions: tomo_id -> x,y,z): columns are
    uninterpreted functions of the key, `has(key)` says whether the key occurs.  Assumed shape of what
    ioutils.dimensions_load returns for per-tomogram input."""
    def __init__(self, name, key_col, cols, int_valued=True):
        self.name, self.key_col, self.cols = name, key_col, list(cols)
        self.fn = {c: z3.Function(f"{name}_{c}", z3.RealSort(), z3.RealSort()) for c in cols}
        self.has = z3.Function(f"{name}_has", z3.RealSort(), z3.BoolSort())
        self.n = SV(z3.Int(f"{name}_rows"))
    @property
    def shape(self): return (self.n, len(self.cols) + 1)
    def __sym_len__(self): return self.n
    @property
    def columns(self): return [self.key_col] + self.cols
    def __getitem__(self, k):
        if k == self.key_col: return _KeyCol(self)
        raise Unsupported("whole column of a keyed table")
    @property
    def loc(self): return _KeyedLoc(self)
    def lookup(self, key, col):
        kt = sym.real(to_z3(key))
        ctx().oblige("safe.key-present", self.has(kt), kind="safe", detail=f"lookup of a key in {self.name}: the key must occur in the table (else IndexError/KeyError)")
        return SV(self.fn[col](kt))


class _KeyCol(_Generic):
    def __init__(self, t): self.t = t
    def unique(self):
        t = self.t
        return KeySet(lambda v: t.has(sym.real(to_z3(v))))
    def __eq__(self, k):
        return _KeyMask(self.t, k)
    @property
    def values(self): return self


class _KeyMask(_Generic):
    def __init__(self, t, key): self.t, self.key = t, key


class _KeyedLoc(_Generic):
    def __init__(self, t): self.t = t
    def __getitem__(self, k):
        if isinstance(k, tuple) and isinstance(k[0], _KeyMask):
            m, c = k
            if isinstance(c, str):
                return _OneCell(self.t.lookup(m.key, c))
            if isinstance(c, slice):
                cols = self.t.cols
                lo = cols.index(c.start) if c.start else 0
                hi = cols.index(c.stop) if c.stop else len(cols) - 1
                return _OneRow({cc: self.t.lookup(m.key, cc) for cc in cols[lo:hi + 1]})
            if isinstance(c, list):
                return _OneRow({cc: self.t.lookup(m.key, cc) for cc in c})
        raise Unsupported("keyed table .loc form")


class _OneCell(_Generic):
    """a one-element Series"""
    def __init__(self, v): self.v = v
    @property
    def iloc(self): return self
    @property
    def values(self): return self
    def to_numpy(self): return self
    def reset_index(self, **k): return self
    def item(self): return self.v
    def __getitem__(self, k):
        if k == 0: return self.v
        raise ModelRaise("IndexError", "single positional indexer is out-of-bounds")
    def __sym_float__(self):
        # pandas 3: float(Series) is a TypeError (pandas 2 allowed it for length-1 Series with a FutureWarning)
        raise ModelRaise("TypeError", "float() argument must be a string or a real number, not 'Series'")
    __sym_int__ = __sym_float__


class _OneRow(_Generic):
    """a one-row DataFrame"""
    def __init__(self, d): self.d = d
    def reset_index(self, **k): return self
    def __getitem__(self, k): return _OneCell(self.d[k])
    @property
    def iloc(self): return _OneRowILoc(self)
    @property
    def values(self):
        import numpy as np
        a = np.empty((1, len(self.d)), dtype=object)
        for j, v in enumerate(self.d.values()): a[0, j] = v
        return a
    def to_numpy(self): return self.values
    @property
    def shape(self): return (1, len(self.d))
    @property
    def columns(self): return list(self.d)


class _OneRowILoc:
    def __init__(self, r): self.r = r
    def __getitem__(self, k):
        if k == 0: return GRow(list(self.r.d), self.r.d)
        raise Unsupported("one-row iloc")


class RowPos:
    """0-based position of the generic row within a positional layout"""
    def __init__(self, space):
        cx = ctx()
        t = z3.Int(f"pos!{space.pos_id}")
        if not hasattr(space, "_pos_declared"):
            space._pos_declared = True
            cx.assume(z3.And(t >= 0, t < to_z3(space.n)))
        self.val = SV(t)
