"""Models for point-cloud kernels (memthick, nnana, ribana): arrays indexed by symbolic integers, masks, index lists, KD-tree
ball queries, and *generic-iteration loops* with site recording.

Generic iteration.  `for j in range(n)`, `for i, nb in enumerate(neighbor_lists)`, `for n in neighbors` are executed ONCE for an
arbitrary iteration: the loop variable is a fresh symbol constrained to the iterated domain, every scalar that the body assigns
and that lives across iterations is havocked before the body (any value, optionally constrained by an invariant the contract
supplies), and the only cross-iteration effects admitted are adding to collections (list.append, array stores), which are
recorded as *sites* together with the facts that hold there.  A universally quantified property of the collection's elements is
the site obligation  facts_at_site => P(element).  Facts learnt inside the body are popped when the body ends.
"""
import ast
import itertools
import z3
from ..sym import SV, SB, Unsupported, ModelRaise, ctx, to_z3, real, is_num
from .. import sym
from .frames import _Generic, Poison, _set
from .npm import obj, OA

_uid = itertools.count()


class Site:
    def __init__(self, facts, value, lineno, kind):
        self.facts, self.value, self.lineno, self.kind = facts, value, lineno, kind
        cx = ctx()
        n0 = getattr(cx, "_outer_loop_pc", len(cx.pc))
        # facts that hold for EVERY execution of the loop body for this iteration: library axioms / requires, the path condition
        # before the outermost generic loop, and the loop-domain facts -- but not the branch conditions taken inside the body
        self.domain = list(cx.hyps) + [e[0] for e in cx.pc[:n0]] + [e[0] for e in cx.pc[n0:] if len(e) > 2 and e[2] == "domain"]


class SiteList(_Generic):
    """a python list that is only ever appended to inside generic loops"""

    def __init__(self, name):
        self.name = name
        self.sites = []

    def append(self, v):
        cx = ctx()
        self.sites.append(Site(cx.facts(), v, cx.lineno, "append"))

    def sort(self, *a, **k):
        self.sorted = True

    def __sym_len__(self):
        return SV(ctx().fresh(f"len_{self.name}", "Int"))


class StoreArr(_Generic):
    """an output array that is written at symbolic positions; reads return unconstrained values"""

    def __init__(self, name, shape=None, sort="Real"):
        self.name, self._shape, self.sort = name, shape, sort
        self.sites = []

    @property
    def shape(self):
        return self._shape

    def __setitem__(self, k, v):
        cx = ctx()
        self.sites.append(Site(cx.facts(), (k, v), cx.lineno, "store"))

    def __getitem__(self, k):
        return SV(ctx().fresh(f"{self.name}_read", self.sort))

    def __sym_len__(self):
        return self._shape[0]


def generic_body(interp, st, env, bind, invariant=None):
    """execute the loop body once for an arbitrary iteration (see module docstring).  bind(env) sets the loop targets and
    returns the list of assumptions about them."""
    cx = ctx()
    body = ast.Module(body=st.body, type_ignores=[])
    targets = {n.id for n in ast.walk(st.target) if isinstance(n, ast.Name)}
    appended, assigned = set(), set()
    for node in ast.walk(body):
        if isinstance(node, ast.Call) and isinstance(node.func, ast.Attribute) and node.func.attr == "append" and isinstance(node.func.value, ast.Name):
            appended.add(node.func.value.id)
        if isinstance(node, (ast.Assign, ast.AugAssign, ast.For)):
            tg = node.targets if isinstance(node, ast.Assign) else [node.target]
            for t in tg:
                if isinstance(t, ast.Name):
                    assigned.add(t.id)
                elif isinstance(t, ast.Tuple):
                    assigned.update(n.id for n in t.elts if isinstance(n, ast.Name))
    for name in appended:
        if env.has(name):
            cur = env.get(name)
            if isinstance(cur, SiteList):
                continue
            if cur != []:
                raise Unsupported(f"generic loop appends to non-empty list {name}")
            _set(env, name, SiteList(name))
    carried = [k for k in assigned if k not in targets and env.has(k)]
    n_pc = len(cx.pc)
    cinv = getattr(cx, "carried_invariants", {})
    inv_assumes = []
    for k in carried:
        cur = env.get(k)
        hv = _havoc(cur, k)
        if k in cinv and isinstance(hv, SV):
            # loop-carried scalar with an invariant supplied by the contract: init is an obligation, the invariant is assumed
            # for the arbitrary iteration, preservation is an obligation at the end of the body
            if is_num(cur):
                cx.oblige(f"inv.init.{k}", cinv[k](cur if isinstance(cur, SV) else SV(to_z3(cur))), kind="inv")
            inv_assumes.append(cinv[k](hv))
        _set(env, k, hv)
    outer = not hasattr(cx, "_outer_loop_pc")
    if outer:
        cx._outer_loop_pc = n_pc
    for a in list(bind(env)) + inv_assumes:
        cx.pc.append((a, st.lineno, "domain"))
    cx._solver = None
    if invariant is not None:
        cx.pc.append((invariant(env), st.lineno, "domain"))
    from ..interp import Break, Continue
    try:
        interp.block(st.body, env)
    except (Break, Continue):
        pass
    for k in carried:
        if k in cinv and isinstance(env.get(k), SV):
            cx.oblige(f"inv.preserve.{k}", cinv[k](env.get(k)), kind="inv")
    del cx.pc[n_pc:]
    if outer:
        del cx._outer_loop_pc
    cx._solver = None
    for k in assigned:
        if k in targets:
            env.vars[k] = Poison(f"loop variable {k} after a generic-iteration loop")
        elif env.has(k):
            _set(env, k, _havoc(env.get(k), k))


def _havoc(cur, name):
    cx = ctx()
    if isinstance(cur, Poison):
        return cur
    if isinstance(cur, (SiteList, StoreArr)) or hasattr(cur, "__generic__"):
        return cur
    if isinstance(cur, bool):
        return SB(cx.fresh(f"hv_{name}", "Bool"))
    if isinstance(cur, int) or (isinstance(cur, SV) and cur.isint):
        return SV(cx.fresh(f"hv_{name}", "Int"))
    if isinstance(cur, (float, SV)):
        return SV(cx.fresh(f"hv_{name}", "Real"))
    return Poison(f"loop-carried {name}")


class SymRangeIter(_Generic):
    """range(n) / prange(n) with symbolic n"""

    def __init__(self, lo, hi):
        self.lo, self.hi = lo, hi

    def __generic_for__(self, interp, st, env):
        if not isinstance(st.target, ast.Name):
            raise Unsupported("range loop target")
        j = SV(ctx().fresh(st.target.id, "Int"))

        def bind(e):
            e.vars[st.target.id] = j
            return [z3.And(j.t >= to_z3(self.lo), j.t < to_z3(self.hi))]

        cx = ctx()
        mk = getattr(cx, "range_inv_spec_factory", None)
        if mk is not None:
            spec = mk(self, env)
            if spec is not None:
                lo = to_z3(self.lo)

                def bind_at(e, k):
                    e.vars[st.target.id] = SV(lo + k)
                return run_invariant_loop(interp, st, env, SV(to_z3(self.hi) - lo), bind_at, spec, label=getattr(spec, "label", "range"))
        lv = cx.__dict__.setdefault("loop_vars", {})
        lv[j.t.decl().name()] = (self.lo, self.hi, len(cx.pc), len(cx.hyps), cx.counter.n)
        inv = getattr(cx, "loop_invariants", {}).get(st.lineno)
        try:
            generic_body(interp, st, env, bind, inv)
        finally:
            lv.pop(j.t.decl().name(), None)


class Points(_Generic):
    """(N,3) array of coordinates indexed by symbolic integers: points[i] -> (fx(i), fy(i), fz(i))"""

    def __init__(self, name, n=None):
        self.name = name
        self.f = [z3.Function(f"{name}_{a}", z3.IntSort(), z3.RealSort()) for a in "xyz"]
        self.n = n if n is not None else SV(z3.Int(f"n_{name}"))

    @property
    def shape(self):
        return (self.n, 3)

    def __sym_len__(self):
        return self.n

    def vec(self, i):
        it = to_z3(i)
        return [f(it) for f in self.f]

    def __getitem__(self, k):
        if isinstance(k, tuple) and len(k) == 2 and isinstance(k[1], int):
            return SV(self.f[k[1]](to_z3(k[0])))
        if isinstance(k, IndexList):
            return SubPoints(self, k)
        if isinstance(k, (SV, int)):
            return obj([SV(t) for t in self.vec(k)])
        raise Unsupported(f"points[{type(k).__name__}]")


class Mask(_Generic):
    def __init__(self, name, n):
        self.name, self.n = name, n
        self.f = z3.Function(name, z3.IntSort(), z3.BoolSort())

    def __getitem__(self, i):
        return SB(self.f(to_z3(i)))

    def __sym_len__(self):
        return self.n

    def where(self):
        return (IndexList(self),)

    def __sym_count__(self):
        c = SV(ctx().fresh(f"count_{self.name}", "Int"))
        ctx().assume(c.t >= 0)
        return c


class IndexList(_Generic):
    """np.where(mask)[0]: ascending indices i with mask[i]; element at position n is idx(n)"""

    def __init__(self, mask):
        self.mask = mask
        self.id = next(_uid)
        self.f = z3.Function(f"where_{mask.name}", z3.IntSort(), z3.IntSort())
        self.len = SV(z3.Int(f"count_{mask.name}"))

    def __sym_len__(self):
        return self.len

    def __getitem__(self, n):
        nt = to_z3(n)
        idx = self.f(nt)
        cx = ctx()
        cx.oblige("safe.index-in-range", z3.And(nt >= 0, nt < self.len.t), kind="safe", detail=f"position into np.where({self.mask.name})")
        cx.axiom("np.where(mask)[0][n] is an index i in [0,N) with mask[i] true (for 0 <= n < count)",
                 z3.Implies(z3.And(nt >= 0, nt < self.len.t), z3.And(self.mask.f(idx), idx >= 0, idx < to_z3(self.mask.n))))
        return SV(idx)


class PtsExpr(_Generic):
    """(len(il), 3) array whose row n is a vector expression of the row position n (points[index_list] and sums / scalar multiples of such)"""

    def __init__(self, il, vec_at):
        self.il, self._vec_at = il, vec_at

    def __sym_len__(self):
        return self.il.len

    @property
    def shape(self):
        return (self.il.len, 3)

    def vec_at(self, n):
        return self._vec_at(to_z3(n))

    def _lift(self, o):
        if isinstance(o, PtsExpr):
            if o.il is not self.il:
                raise Unsupported("arithmetic of two point selections made with different index lists")
            return o.vec_at
        if is_num(o) or isinstance(o, SV):
            t = real(to_z3(o)) if isinstance(o, SV) else z3.RealVal(str(__import__("fractions").Fraction(o)))
            return lambda n: [t, t, t]
        raise Unsupported(f"point-array arithmetic with {type(o).__name__}")

    def _bin(self, o, f, rev=False):
        a, b = self.vec_at, self._lift(o)
        if rev:
            a, b = b, a
        return PtsExpr(self.il, lambda n: [f(x, y) for x, y in zip(a(n), b(n))])

    def __add__(self, o): return self._bin(o, lambda x, y: x + y)
    def __radd__(self, o): return self._bin(o, lambda x, y: x + y, True)
    def __sub__(self, o): return self._bin(o, lambda x, y: x - y)
    def __rsub__(self, o): return self._bin(o, lambda x, y: x - y, True)
    def __mul__(self, o): return self._bin(o, lambda x, y: x * y)
    def __rmul__(self, o): return self._bin(o, lambda x, y: x * y, True)
    def __neg__(self): return PtsExpr(self.il, lambda n: [-x for x in self.vec_at(n)])


class SubPoints(PtsExpr):
    """points[index_list]"""

    def __init__(self, pts, il):
        self.pts = pts
        PtsExpr.__init__(self, il, lambda n: pts.vec(il.f(n)))


class KDTree(_Generic):
    """assumed contract of scipy.spatial.KDTree(points).query_ball_point(queries, r): for query i exactly the positions n of
    tree points with |tree[n] - query[i]| <= r"""

    def __init__(self, pts, *a, **k):
        if not isinstance(pts, SubPoints):
            raise Unsupported("KDTree over this kind of array")
        self.pts = pts

    def query_ball_point(self, queries, r, **k):
        if not isinstance(queries, PtsExpr):
            raise Unsupported("ball query with this kind of array")
        nl = NeighborLists(self, queries, r)
        ctx().__dict__.setdefault("ball_queries", []).append(nl)  # for the caller's contract: which balls were asked for
        return nl


class NeighborLists(_Generic):
    def __init__(self, tree, queries, r):
        self.tree, self.queries, self.r = tree, queries, r

    def __generic_enumerate__(self):
        return self

    def __generic_for__(self, interp, st, env):
        if not (isinstance(st.target, ast.Tuple) and len(st.target.elts) == 2):
            raise Unsupported("neighbor list loop must be `for i, neighbors in enumerate(...)`")
        iname, nname = st.target.elts[0].id, st.target.elts[1].id
        i = SV(ctx().fresh(iname, "Int"))

        def bind(e):
            e.vars[iname] = i
            e.vars[nname] = Neighbors(self, i)
            return [z3.And(i.t >= 0, i.t < self.queries.il.len.t)]

        generic_body(interp, st, env, bind, getattr(ctx(), "loop_invariants", {}).get(st.lineno))


def dist2(a, b):
    return sum(((x - y) * (x - y) for x, y in zip(a, b)), z3.RealVal(0))


class Neighbors(_Generic):
    def __init__(self, nl, i):
        self.nl, self.i = nl, i

    def member(self, n):
        """n is in the ball-query result of query i"""
        nt = to_z3(n)
        r = real(to_z3(self.nl.r))
        return z3.And(nt >= 0, nt < self.nl.tree.pts.il.len.t, dist2(self.nl.tree.pts.vec_at(nt), self.nl.queries.vec_at(self.i.t)) <= r * r)

    def __generic_for__(self, interp, st, env):
        n = SV(ctx().fresh(st.target.id, "Int"))

        def bind(e):
            e.vars[st.target.id] = n
            return [self.member(n)]

        generic_body(interp, st, env, bind, getattr(ctx(), "loop_invariants", {}).get(st.lineno))


# ---------------------------------------------------------------------------------------------------------------------
# symbolic sequences with order-preserving filtering (results of radius queries)


class SeqArr(_Generic):
    """1-D array of symbolic length: elem(k) for 0 <= k < n.  `pos(k)` maps its positions to positions of the ROOT sequence it
    was filtered from (identity for a root)."""

    def __init__(self, n, elem, root=None, pos=None):
        self.n, self.elem = n, elem
        self.root = root or self
        self.pos = pos or (lambda k: k)

    @property
    def size(self):
        return self.n

    def __sym_len__(self):
        return self.n

    @property
    def shape(self):
        return (self.n,)

    def __getitem__(self, k):
        if isinstance(k, SeqArr) and getattr(k, "is_mask", False):
            return filter_seq(self, k)
        if isinstance(k, (int, SV)):
            kt = to_z3(k)
            ctx().oblige("safe.index-in-range", z3.And(kt >= 0, kt < to_z3(self.n)), kind="safe", detail="element of a (possibly empty) query result")
            return self.elem(kt)
        raise Unsupported("sequence index")

    def _cmp(self, o, f):
        e = self.elem
        if isinstance(o, SeqArr):
            if o.root is not self.root:
                raise Unsupported("comparison of sequences from different queries")
            oe = o.elem
            m = SeqArr(self.n, lambda k: f(e(k), oe(k)), self.root, self.pos)
        else:
            m = SeqArr(self.n, lambda k: f(e(k), o), self.root, self.pos)
        m.is_mask = True
        return m

    def __eq__(self, o): return self._cmp(o, lambda a, b: a == b)
    def __ne__(self, o): return self._cmp(o, lambda a, b: a != b)
    def __gt__(self, o): return self._cmp(o, lambda a, b: a > b)
    def __ge__(self, o): return self._cmp(o, lambda a, b: a >= b)
    def __lt__(self, o): return self._cmp(o, lambda a, b: a < b)
    def __le__(self, o): return self._cmp(o, lambda a, b: a <= b)
    __hash__ = None


def filter_seq(seq, mask):
    """seq[mask]: the elements at the positions where mask holds, in order.  Assumed numpy contract, stated with a strictly
    increasing position map sigma: [0,n') -> [0,n): mask(sigma(k)), every position with mask is hit, n' = 0 iff no position has mask."""
    cx = ctx()
    if mask.root is not seq.root:
        raise Unsupported("mask from another sequence")
    memo = cx.__dict__.setdefault("_filters", {})
    k0 = z3.Int("k!probe")
    key = (id(seq.root), to_bool_sexpr(mask.elem(k0)), z3.simplify(to_z3(seq.n)).sexpr(), str(seq.pos(k0)))
    if key not in memo:
        u = next(cx.counter)
        sig = z3.Function(f"sigma!{u}", z3.IntSort(), z3.IntSort())
        inv = z3.Function(f"sigma_inv!{u}", z3.IntSort(), z3.IntSort())
        n2 = z3.Int(f"nsel!{u}")
        n = to_z3(seq.n)
        k, j = z3.Ints(f"k!{u} j!{u}")
        m = lambda t: to_bool_z3(mask.elem(t))
        cx.axiom("boolean-mask selection a[mask] keeps exactly the masked positions in order (numpy contract)", z3.And(
            n2 >= 0, n2 <= n,
            z3.ForAll([k], z3.Implies(z3.And(k >= 0, k < n2), z3.And(sig(k) >= 0, sig(k) < n, m(sig(k))))),
            z3.ForAll([k, j], z3.Implies(z3.And(k >= 0, k < j, j < n2), sig(k) < sig(j))),
            z3.ForAll([j], z3.Implies(z3.And(j >= 0, j < n, m(j)), z3.And(n2 > 0, sig(0) <= j, inv(j) >= 0, inv(j) < n2, sig(inv(j)) == j))),
            z3.Implies(n2 > 0, z3.And(sig(0) >= 0, sig(0) < n, m(sig(0)))),
        ))
        memo[key] = (sig, SV(n2), seq.root)  # the root is kept alive so that its id() cannot be recycled while the memo exists
    sig, n2 = memo[key][:2]
    e, p = seq.elem, seq.pos
    return SeqArr(n2, lambda kk: e(sig(kk)), seq.root, lambda kk: p(sig(kk)))


def to_bool_z3(x):
    return x.t if isinstance(x, SB) else (z3.BoolVal(bool(x)) if isinstance(x, bool) else sym.to_bool(x))


def to_bool_sexpr(x):
    return z3.simplify(to_bool_z3(x)).sexpr()


class ActiveArr(_Generic):
    """boolean array indexed by point positions (np.full((n,), True) with later updates)"""

    def __init__(self, name):
        self.f = z3.Function(name, z3.IntSort(), z3.BoolSort())

    def __getitem__(self, k):
        if isinstance(k, SeqArr):
            f, e = self.f, k.elem
            return SeqArr(k.n, lambda t: SB(f(to_z3(e(t)))), k.root, k.pos)
        return SB(self.f(to_z3(k)))


class RadiusTree(_Generic):
    """assumed contract of sklearn KDTree.query_radius(q, r, return_distance=True, sort_results=True) for ONE query point:
    the positions of all tree points within distance <= r, sorted by ascending distance, with those distances"""

    def __init__(self, name="tree"):
        self.name = name
        self.ids = z3.Function(f"{name}_ids", z3.IntSort(), z3.IntSort())
        self.D = z3.Function(f"{name}_dist", z3.IntSort(), z3.RealSort())
        self.n = SV(z3.Int(f"{name}_nfound"))
        self.true_dist = z3.Function(f"{name}_true_dist", z3.IntSort(), z3.RealSort())  # distance of tree point p to the query
        self.n_points = z3.Int(f"{name}_npoints")
        self.rank = z3.Function(f"{name}_rank", z3.IntSort(), z3.IntSort())  # position in the result of a listed tree point

    def query_radius(self, q, r, return_distance=False, sort_results=False, **k):
        if not (return_distance and sort_results):
            raise Unsupported("query_radius without distances / sorting")
        cx = ctx()
        rt = real(to_z3(r))
        k_, j_, p_ = z3.Ints("k!q j!q p!q")
        n = self.n.t
        cx.axiom("query_radius contract: n >= 0; listed ids are distinct tree positions with D(k) = true distance <= r; ascending; every tree point within r is listed", z3.And(
            n >= 0,
            z3.ForAll([k_], z3.Implies(z3.And(k_ >= 0, k_ < n), z3.And(self.ids(k_) >= 0, self.ids(k_) < self.n_points, self.D(k_) == self.true_dist(self.ids(k_)), self.D(k_) <= rt, self.D(k_) >= 0))),
            z3.ForAll([k_, j_], z3.Implies(z3.And(k_ >= 0, k_ < j_, j_ < n), z3.And(self.D(k_) <= self.D(j_), self.ids(k_) != self.ids(j_)))),
            z3.ForAll([p_], z3.Implies(z3.And(p_ >= 0, p_ < self.n_points, self.true_dist(p_) <= rt), z3.And(self.rank(p_) >= 0, self.rank(p_) < n, self.ids(self.rank(p_)) == p_))),
        ))
        ids, D = self.ids, self.D
        a = SeqArr(self.n, lambda t: SV(ids(t)))
        b = SeqArr(self.n, lambda t: SV(D(t)), a.root)
        return _Wrap1(a), _Wrap1(b)


class _Wrap1:
    """array of one result per query point: [0] gives the result of the single query"""

    def __init__(self, x):
        self.x = x

    def __getitem__(self, k):
        if k == 0:
            return self.x
        raise Unsupported("query_radius with several query points")


class Tok:
    def __init__(self, ttype, pos):
        self.token_type, self.pos = ttype, pos
        self.value = ("token-value", pos)
        self.location = ("token-location", pos)


class SymStack(_Generic):
    """a list used as a stack/queue of tokens: symbolic length n, token type at position k is T(k)"""

    def __init__(self, name="tokens"):
        self.n = SV(z3.Int(f"{name}_len"))
        ctx().assume(self.n.t >= 0)
        self.T = z3.Function(f"{name}_type", z3.IntSort(), z3.IntSort())
        self.popped = []

    def __sym_len__(self):
        return self.n

    def _at(self, k):
        kt = to_z3(k)
        if isinstance(k, int) and k < 0:
            kt = self.n.t + k
        ctx().oblige("safe.index-in-range", z3.And(kt >= 0, kt < self.n.t), kind="safe", detail="list index on the token queue")
        return Tok(SV(self.T(kt)), kt)

    def __getitem__(self, k):
        return self._at(k)

    def pop(self, *a):
        if a:
            raise Unsupported("pop(index)")
        t = self._at(-1)
        self.n = SV(self.n.t - 1)
        self.popped.append(t)
        return t


# ---------------------------------------------------------------------------------------------------------------------
# arrays as functions of the index, sets, and loops verified with an inductive invariant


class FnArr(_Generic):
    """array / set indexed by integers, represented by a function index-term -> z3 term (a Python closure).  Element stores
    and masked stores compose closures; havoc replaces the closure by a fresh uninterpreted function."""

    def __init__(self, f, n=None, sort="Real", name="arr"):
        self.f, self.n, self.sort, self.name = f, n, sort, name

    @staticmethod
    def const(v, n=None, sort="Real", name="arr"):
        t = {"Real": lambda: z3.RealVal(v), "Int": lambda: z3.IntVal(int(v)), "Bool": lambda: z3.BoolVal(bool(v))}[sort]()
        return FnArr(lambda i: t, n, sort, name)

    @staticmethod
    def fresh_fn(name, sort):
        F = z3.Function(name, z3.IntSort(), {"Real": z3.RealSort(), "Int": z3.IntSort(), "Bool": z3.BoolSort()}[sort])
        return lambda i: F(i)

    def _wrap(self, t):
        return SB(t) if self.sort == "Bool" else SV(t)

    def _val(self, v):
        if self.sort == "Bool":
            return sym.to_bool(v)
        t = to_z3(v)
        if self.sort == "Real":
            return real(t)
        if self.sort == "Int" and t.sort().kind() != z3.Z3_INT_SORT:
            return z3.ToInt(t)
        return t

    def _guard(self, kt):
        if self.n is not None:
            ctx().oblige("safe.index-in-range", z3.And(kt >= 0, kt < to_z3(self.n)), kind="safe", detail=f"index into {self.name}")

    def __getitem__(self, k):
        if isinstance(k, (SV, int)):
            kt = to_z3(k)
            self._guard(kt)
            return self._wrap(self.f(kt))
        raise Unsupported(f"FnArr[{type(k).__name__}]")

    def __setitem__(self, k, v):
        old = self.f
        if isinstance(k, FnArr):  # boolean mask
            m, val = k.f, self._val(v)
            self.f = lambda i, old=old, m=m, val=val: z3.If(m(i), val, old(i))
            return
        if hasattr(k, "space") and hasattr(k, "val"):  # per-row boolean vector (frames.GVec): index = row position
            from .frames import RowPos
            pv = RowPos(k.space).val.t
            mt = sym.to_bool(k.val)
            val = self._val(v)
            self.f = lambda i, old=old, mt=mt, pv=pv, val=val: z3.If(z3.substitute(mt, (pv, i)), val, old(i))
            return
        kt = to_z3(k)
        self._guard(kt)
        val = self._val(v)
        gs = list(getattr(ctx(), "guard_mode", None) or [])
        rec = getattr(self, "recording", None)
        if rec is not None:
            rec.append((kt, gs, val))  # store inside a loop over all elements of a symbolic collection: lifted at loop exit (lift_stores)
            return
        if gs:
            g = z3.And(*gs)
            self.f = lambda i, old=old, kt=kt, val=val, g=g: z3.If(z3.And(g, i == kt), val, old(i))
            return
        self.f = lambda i, old=old, kt=kt, val=val: z3.If(i == kt, val, old(i))

    # set protocol
    def add(self, k):
        self.__setitem__(k, True)

    def __sym_contains__(self, k):
        return SB(self.f(to_z3(k)))

    def __mul__(self, s):
        f, st = self.f, real(to_z3(s))
        return FnArr(lambda i: real(f(i)) * st, self.n, "Real", self.name)

    __rmul__ = __mul__

    def __sym_len__(self):
        return self.n

    @property
    def shape(self):
        return (self.n,)


def _split_conj(f):
    """ForAll xs. A => (c1 and ... and cn)  -->  [ForAll xs. A => c1, ...] (smaller, more stable queries)"""
    if z3.is_quantifier(f) and f.is_forall():
        body = f.body()
        if z3.is_implies(body) and z3.is_and(body.arg(1)) and body.arg(1).num_args() > 1:
            vs = [z3.Const(f.var_name(i), f.var_sort(i)) for i in range(f.num_vars())]
            out = []
            for c in body.arg(1).children():
                b = z3.substitute_vars(z3.Implies(body.arg(0), c), *reversed(vs))
                out.append(z3.ForAll(vs, b))
            return out
    return [f]


def lift_stores(arr, var, domain):
    """`for e in C: ... arr[e] = v (under guards) ...` executed once for the generic element `var` of C (domain(var) holds): the effect of the
    whole loop on arr is  arr'(i) = v  if some element e of C with its guards true has e == i, else arr(i).  For stores at the loop variable itself
    this is  If(domain(i) and guards[var := i], v[var := i], arr(i)).  Requires: the loop visits every element once and the guards of element e read
    arr only at e (reads see the state before the loop)."""
    rec, arr.recording = arr.recording, None
    old = arr.f
    for kt, gs, val in rec:
        if not kt.eq(var):
            raise Unsupported("store at an index other than the loop element inside a loop over all elements")
        g = z3.And(domain, *gs)
        arr.f = (lambda i, old=arr.f, g=g, val=val: z3.If(z3.substitute(g, (var, i)), z3.substitute(val, (var, i)) if z3.is_expr(val) else val, old(i)))
    return arr


class AppendLog(FnArr):
    """a list that is empty before an invariant loop and only appended to inside it: log(k) = something was appended in iteration k (at most once
    per iteration); the appended values are recorded for the contract"""

    def __init__(self, name, initial=()):
        self.offset = len(initial)
        self.initial = list(initial)
        n0 = self.offset
        FnArr.__init__(self, (lambda i: z3.And(i >= 0, i < n0)) if n0 else (lambda i: z3.BoolVal(False)), None, "Bool", name)
        self.values = []

    def append(self, v):
        cx = ctx()
        k = getattr(cx, "inv_k", None)
        if k is None:
            raise Unsupported("append to a logged list outside its invariant loop")
        self.values.append((k, v, [e[0] for e in cx.pc]))
        self[SV(k + self.offset)] = True


class InvSpec:
    """contract-side description of a loop verified by induction: program variables that the loop changes (state), ghost
    functions, the invariant as named clauses, and the ghost update"""
    state = {}   # variable name -> sort
    ghosts = {}  # ghost name -> sort

    def ghost_init(self):
        return {g: (lambda i, s=s: {"Int": z3.IntVal(0), "Real": z3.RealVal(0), "Bool": z3.BoolVal(False)}[s]) for g, s in self.ghosts.items()}

    def inv(self, k, S, G):
        return []

    def ghost_step(self, k, S0, S1, G0):
        return G0


def run_invariant_loop(interp, st, env, n, bind_at, spec, label="loop"):
    """`for x in seq:` with an inductive invariant: init obligations, one arbitrary iteration from a havocked state that satisfies
    the invariant (preserve obligations), then the exit state = havocked state satisfying the invariant at k = n (hypothesis)."""
    cx = ctx()
    from ..interp import Break, Continue
    objs = {}
    # the contract names its state by role; a spec may say which program variable plays a role (found by the object it holds), so that a renamed
    # local does not put the loop out of reach
    alias = spec.resolve(env) if hasattr(spec, "resolve") else {}
    if alias:
        class _AliasEnv:
            def __init__(self, e): self.e = e
            def has(self, k): return self.e.has(alias.get(k, k))
            def get(self, k): return self.e.get(alias.get(k, k))
            def __getattr__(self, k): return getattr(self.e, k)
        env_view = _AliasEnv(env)
    else:
        env_view = env
    scalars = dict(getattr(spec, "scalars", {}) or {})  # loop-carried numbers (name -> "Int" | "Real"): havocked per iteration like the arrays
    for v in spec.state:
        o = env_view.get(v) if env_view.has(v) else None
        if isinstance(o, list) and len(o) <= 1 and spec.state[v] == "Bool":
            # a Python list (empty or with one initial element) that the loop only appends to: represented by the set of positions filled so far;
            # the element appended in iteration k lands at position len(initial list) + k
            init = list(o)
            o = AppendLog(v, init)
            _set(env, alias.get(v, v), o)
        if not isinstance(o, FnArr):
            raise Unsupported(f"invariant loop: state variable {v} is not an index-function array/set")
        objs[v] = o
    def view(v, fn):
        """the contract's view of a state array: an array of another element type than the contract declares is seen through Python truthiness
        (a number counts as True iff it is non-zero), e.g. a set re-implemented as an integer array"""
        act, dec = objs[v].sort, spec.state[v]
        if act == dec:
            return fn
        if dec == "Bool":
            return lambda i, fn=fn: fn(i) != 0
        raise Unsupported(f"invariant loop: state variable {v} has element type {act}, the contract expects {dec}")
    spec.bound_objects = objs  # role -> state object, for the contract's postcondition
    S_init = {v: view(v, o.f) for v, o in objs.items()}
    for sname in scalars:
        S_init[sname] = to_z3(env.get(sname))
    G_init = spec.ghost_init() if not hasattr(spec, "ghost_init_from") else spec.ghost_init_from(S_init, objs)
    for nm, f in spec.inv(z3.IntVal(0), S_init, G_init):
        cx.oblige(f"inv.init.{label}.{nm}", f, kind="inv")
    u = next(cx.counter)
    k = z3.Int(f"k!{u}")
    def fresh_raw(tag):
        """one fresh function per state *object* (two roles of the contract may be played by the same program array)"""
        by_obj, out = {}, {}
        for v in spec.state:
            o = objs[v]
            if id(o) not in by_obj:
                by_obj[id(o)] = FnArr.fresh_fn(f"{v}@{tag}", o.sort)
            out[v] = by_obj[id(o)]
        return out
    S_raw = fresh_raw(f"k!{u}")
    S = {v: view(v, S_raw[v]) for v in spec.state}
    for sname, sort in scalars.items():
        S[sname] = cx.fresh(f"{sname}@k", sort)
    G = {g: FnArr.fresh_fn(f"{g}@k!{u}", s) for g, s in spec.ghosts.items()}
    n_pc = len(cx.pc)
    nt = to_z3(n)
    cx.pc.append((z3.And(k >= 0, k < nt), st.lineno, "domain"))
    for nm, f in spec.inv(k, S, G):
        cx.pc.append((f, st.lineno, "domain"))
    cx._solver = None
    for v, o in objs.items():
        o.f = S_raw[v]
    for sname in scalars:
        _set(env, sname, SV(S[sname]))
    bind_at(env, k)
    cx.inv_k = k
    try:
        interp.block(st.body, env)
    except Continue:
        pass
    except Break:
        raise Unsupported("break inside a loop verified by invariant")
    for v in spec.state:
        if env_view.get(v) is not objs[v]:
            raise Unsupported(f"invariant loop: state variable {v} was rebound inside the loop")
    S1 = {v: view(v, o.f) for v, o in objs.items()}
    for sname in scalars:
        S1[sname] = to_z3(env.get(sname))
    G1 = spec.ghost_step(k, S, S1, G)
    for nm, f in spec.inv(k + 1, S1, G1):
        for j, part in enumerate(_split_conj(f)):
            cx.oblige(f"inv.preserve.{label}.{nm}" + (f".{j}" if j else ""), part, kind="inv")
    del cx.pc[n_pc:]
    cx._solver = None
    S2_raw = fresh_raw(f"exit!{u}")
    S2 = {v: view(v, S2_raw[v]) for v in spec.state}
    for sname, sort in scalars.items():
        S2[sname] = cx.fresh(f"{sname}@exit", sort)
    G2 = {g: FnArr.fresh_fn(f"{g}@exit!{u}", s) for g, s in spec.ghosts.items()}
    for nm, f in spec.inv(nt, S2, G2):
        cx.assume(f)
    for v, o in objs.items():
        o.f = S2_raw[v]
    for sname in scalars:
        _set(env, sname, SV(S2[sname]))
    cx.__dict__.setdefault("loop_exit", {})[label] = {"S": S2, "G": G2}
    import ast
    for node in ast.walk(ast.Module(body=st.body, type_ignores=[])):
        if isinstance(node, (ast.Assign, ast.AugAssign)):
            for t in (node.targets if isinstance(node, ast.Assign) else [node.target]):
                if isinstance(t, ast.Name) and t.id not in spec.state and t.id not in set(alias.values()) and t.id not in scalars and env.has(t.id):
                    _set(env, t.id, Poison(f"loop-local {t.id} after an invariant loop"))


class PermSeq(_Generic):
    """np.argsort(values): a permutation sigma of the row positions [0,n) (with inverse rk) that sorts the values ascending;
    [::-1] reverses it (descending).  Iterating it with an InvSpec registered in ctx.inv_specs['perm'] runs an invariant loop."""

    def __init__(self, n, sigma, rk, key, ascending=True):
        self.n, self.sigma, self.rk, self.key, self.ascending = n, sigma, rk, key, ascending

    @staticmethod
    def argsort(vec):
        from .frames import RowPos
        cx = ctx()
        u = next(cx.counter)
        S = z3.Function(f"sigma!{u}", z3.IntSort(), z3.IntSort())
        R = z3.Function(f"rank!{u}", z3.IntSort(), z3.IntSort())
        pv = RowPos(vec.space).val.t
        vt = real(to_z3(vec.val))
        key = lambda i: z3.substitute(vt, (pv, i))
        n = to_z3(vec.space.n)
        cx.axiom("np.argsort contract: sigma is a permutation of [0,n) with inverse rank, values at sigma(0), sigma(1), ... ascending",
                 z3.And(*PermSeq.axioms(n, lambda x: S(x), lambda x: R(x), key, True)))
        return PermSeq(vec.space.n, lambda t: S(t), lambda t: R(t), key, True)

    @staticmethod
    def axioms(n, S, R, key, ascending):
        a, b, i = z3.Ints("a!ps b!ps i!ps")
        le = (lambda x, y: x <= y) if ascending else (lambda x, y: x >= y)
        return [z3.ForAll([a], z3.Implies(z3.And(a >= 0, a < n), z3.And(S(a) >= 0, S(a) < n, R(S(a)) == a))),
                z3.ForAll([i], z3.Implies(z3.And(i >= 0, i < n), z3.And(R(i) >= 0, R(i) < n, S(R(i)) == i))),
                z3.ForAll([a, b], z3.Implies(z3.And(a >= 0, a <= b, b < n), le(key(S(a)), key(S(b)))))]

    def __getitem__(self, k):
        if isinstance(k, slice) and k.start is None and k.stop is None and k.step == -1:
            # reversed view: sigma'(a) = sigma(n-1-a), rank'(i) = n-1-rank(i).  Named by fresh functions defined pointwise; the
            # permutation/sortedness facts of the reversed view are *obligations* (derived from the argsort contract), then used as facts
            cx = ctx()
            u = next(cx.counter)
            n, s, r = to_z3(self.n), self.sigma, self.rk
            S2 = z3.Function(f"sigma_rev!{u}", z3.IntSort(), z3.IntSort())
            R2 = z3.Function(f"rank_rev!{u}", z3.IntSort(), z3.IntSort())
            t = z3.Int(f"t!{u}")
            defs = [z3.ForAll([t], S2(t) == s(n - 1 - t)), z3.ForAll([t], R2(t) == n - 1 - r(t))]
            axs = PermSeq.axioms(n, lambda x: S2(x), lambda x: R2(x), self.key, not self.ascending)
            nh = len(cx.hyps)
            cx.hyps.extend(defs)
            for j, ax in enumerate(axs):
                for jj, part in enumerate(_split_conj(ax)):
                    cx.oblige(f"model.reversed_argsort.{['permutation', 'inverse', 'sorted'][j]}.{jj}", part, kind="model")
            del cx.hyps[nh:]  # the pointwise definitions are used for these obligations only; afterwards the derived facts stand for the view
            for ax in axs:
                cx.assume(ax)
            return PermSeq(self.n, lambda x: S2(x), lambda x: R2(x), self.key, not self.ascending)
        raise Unsupported("indexing of an argsort result")

    def __sym_len__(self):
        return self.n

    def __generic_for__(self, interp, st, env):
        import ast
        cx = ctx()
        mk = getattr(cx, "inv_spec_factory", None)
        if mk is None or not isinstance(st.target, ast.Name):
            raise Unsupported("loop over an argsort result without an invariant")
        spec = mk(self, env)
        name = st.target.id

        def bind_at(e, k):
            e.vars[name] = SV(self.sigma(k))
        run_invariant_loop(interp, st, env, self.n, bind_at, spec, label="greedy")
