"""Models for point-cloud kernels (memthick, nnana, ribana): arrays indexed by symbolic integers, masks, index lists, KD-tree
ball queries, and *generic-iteration loops* with site recording.

Generic iteration.  `for j in range(n)`, `for i, nb in enumerate(neighbor_lists)`, `for n in neighbors` are executed ONCE for an
arbitrary iteration: the loop variable is a fresh symbol constrained to the iterated domain, every scalar that the body assigns
and that lives across iterations is havocked before the body (any value, optionally constrained by an invariant the contract
supplies), and the only cross-iteration effects admitted are adding to collections (list.append, array stores), which are
recorded as *sites* together with the facts that hold there.  A universally quantified property of the collection's elements is
the site obligation  facts_at_site => P(element).  Facts learnt inside the body are popped when the body ends.
"""
import ast
import itertools
import z3
from ..sym import SV, SB, Unsupported, ModelRaise, ctx, to_z3, real, is_num
from .. import sym
from .frames import _Generic, Poison, _set
from .npm import obj, OA

_uid = itertools.count()


class Site:
    def __init__(self, facts, value, lineno, kind):
        self.facts, self.value, self.lineno, self.kind = facts, value, lineno, kind
        cx = ctx()
        n0 = getattr(cx, "_outer_loop_pc", len(cx.pc))
        # facts that hold for EVERY execution of the loop body for this iteration: library axioms / requires, the path condition
        # before the outermost generic loop, and the loop-domain facts -- but not the branch conditions taken inside the body
        self.domain = list(cx.hyps) + [e[0] for e in cx.pc[:n0]] + [e[0] for e in cx.pc[n0:] if len(e) > 2 and e[2] == "domain"]


class SiteList(_Generic):
    """a python list that is only ever appended to inside generic loops"""

    def __init__(self, name):
        self.name = name
        self.sites = []

    def append(self, v):
        cx = ctx()
        self.sites.append(Site(cx.facts(), v, cx.lineno, "append"))

    def sort(self, *a, **k):
        self.sorted = True

    def __sym_len__(self):
        return SV(ctx().fresh(f"len_{self.name}", "Int"))


class StoreArr(_Generic):
    """an output array that is written at symbolic positions; reads return unconstrained values"""

    def __init__(self, name, shape=None, sort="Real"):
        self.name, self._shape, self.sort = name, shape, sort
        self.sites = []

    @property
    def shape(self):
        return self._shape

    def __setitem__(self, k, v):
        cx = ctx()
        self.sites.append(Site(cx.facts(), (k, v), cx.lineno, "store"))

    def __getitem__(self, k):
        return SV(ctx().fresh(f"{self.name}_read", self.sort))

    def __sym_len__(self):
        return self._shape[0]


def generic_body(interp, st, env, bind, invariant=None):
    """execute the loop body once for an arbitrary iteration (see module docstring).  bind(env) sets the loop targets and
    returns the list of assumptions about them."""
    cx = ctx()
    body = ast.Module(body=st.body, type_ignores=[])
    targets = {n.id for n in ast.walk(st.target) if isinstance(n, ast.Name)}
    appended, assigned = set(), set()
    for node in ast.walk(body):
        if isinstance(node, ast.Call) and isinstance(node.func, ast.Attribute) and node.func.attr == "append" and isinstance(node.func.value, ast.Name):
            appended.add(node.func.value.id)
        if isinstance(node, (ast.Assign, ast.AugAssign, ast.For)):
            tg = node.targets if isinstance(node, ast.Assign) else [node.target]
            for t in tg:
                if isinstance(t, ast.Name):
                    assigned.add(t.id)
                elif isinstance(t, ast.Tuple):
                    assigned.update(n.id for n in t.elts if isinstance(n, ast.Name))
    for name in appended:
        if env.has(name):
            cur = env.get(name)
            if isinstance(cur, SiteList):
                continue
            if cur != []:
                raise Unsupported(f"generic loop appends to non-empty list {name}")
            _set(env, name, SiteList(name))
    carried = [k for k in assigned if k not in targets and env.has(k)]
    n_pc = len(cx.pc)
    cinv = getattr(cx, "carried_invariants", {})
    inv_assumes = []
    for k in carried:
        cur = env.get(k)
        hv = _havoc(cur, k)
        if k in cinv and isinstance(hv, SV):
            # loop-carried scalar with an invariant supplied by the contract: init is an obligation, the invariant is assumed
            # for the arbitrary iteration, preservation is an obligation at the end of the body
            if is_num(cur):
                cx.oblige(f"inv.init.{k}", cinv[k](cur if isinstance(cur, SV) else SV(to_z3(cur))), kind="inv")
            inv_assumes.append(cinv[k](hv))
        _set(env, k, hv)
    outer = not hasattr(cx, "_outer_loop_pc")
    if outer:
        cx._outer_loop_pc = n_pc
    for a in list(bind(env)) + inv_assumes:
        cx.pc.append((a, st.lineno, "domain"))
    cx._solver = None
    if invariant is not None:
        cx.pc.append((invariant(env), st.lineno, "domain"))
    from ..interp import Break, Continue
    try:
        interp.block(st.body, env)
    except (Break, Continue):
        pass
    for k in carried:
        if k in cinv and isinstance(env.get(k), SV):
            cx.oblige(f"inv.preserve.{k}", cinv[k](env.get(k)), kind="inv")
    del cx.pc[n_pc:]
    if outer:
        del cx._outer_loop_pc
    cx._solver = None
    for k in assigned:
        if k in targets:
            env.vars[k] = Poison(f"loop variable {k} after a generic-iteration loop")
        elif env.has(k):
            _set(env, k, _havoc(env.get(k), k))


def _havoc(cur, name):
    cx = ctx()
    if isinstance(cur, Poison):
        return cur
    if isinstance(cur, (SiteList, StoreArr)) or hasattr(cur, "__generic__"):
        return cur
    if isinstance(cur, bool):
        return SB(cx.fresh(f"hv_{name}", "Bool"))
    if isinstance(cur, int) or (isinstance(cur, SV) and cur.isint):
        return SV(cx.fresh(f"hv_{name}", "Int"))
    if isinstance(cur, (float, SV)):
        return SV(cx.fresh(f"hv_{name}", "Real"))
    return Poison(f"loop-carried {name}")


class SymRangeIter(_Generic):
    """range(n) / prange(n) with symbolic n"""

    def __init__(self, lo, hi):
        self.lo, self.hi = lo, hi

    def __generic_for__(self, interp, st, env):
        if not isinstance(st.target, ast.Name):
            raise Unsupported("range loop target")
        j = SV(ctx().fresh(st.target.id, "Int"))

        def bind(e):
            e.vars[st.target.id] = j
            return [z3.And(j.t >= to_z3(self.lo), j.t < to_z3(self.hi))]

        cx = ctx()
        lv = cx.__dict__.setdefault("loop_vars", {})
        lv[j.t.decl().name()] = (self.lo, self.hi, len(cx.pc), len(cx.hyps), cx.counter.n)
        inv = getattr(cx, "loop_invariants", {}).get(st.lineno)
        try:
            generic_body(interp, st, env, bind, inv)
        finally:
            lv.pop(j.t.decl().name(), None)


class Points(_Generic):
    """(N,3) array of coordinates indexed by symbolic integers: points[i] -> (fx(i), fy(i), fz(i))"""

    def __init__(self, name, n=None):
        self.name = name
        self.f = [z3.Function(f"{name}_{a}", z3.IntSort(), z3.RealSort()) for a in "xyz"]
        self.n = n if n is not None else SV(z3.Int(f"n_{name}"))

    @property
    def shape(self):
        return (self.n, 3)

    def __sym_len__(self):
        return self.n

    def vec(self, i):
        it = to_z3(i)
        return [f(it) for f in self.f]

    def __getitem__(self, k):
        if isinstance(k, tuple) and len(k) == 2 and isinstance(k[1], int):
            return SV(self.f[k[1]](to_z3(k[0])))
        if isinstance(k, IndexList):
            return SubPoints(self, k)
        if isinstance(k, (SV, int)):
            return obj([SV(t) for t in self.vec(k)])
        raise Unsupported(f"points[{type(k).__name__}]")


class Mask(_Generic):
    def __init__(self, name, n):
        self.name, self.n = name, n
        self.f = z3.Function(name, z3.IntSort(), z3.BoolSort())

    def __getitem__(self, i):
        return SB(self.f(to_z3(i)))

    def __sym_len__(self):
        return self.n

    def where(self):
        return (IndexList(self),)

    def __sym_count__(self):
        c = SV(ctx().fresh(f"count_{self.name}", "Int"))
        ctx().assume(c.t >= 0)
        return c


class IndexList(_Generic):
    """np.where(mask)[0]: ascending indices i with mask[i]; element at position n is idx(n)"""

    def __init__(self, mask):
        self.mask = mask
        self.id = next(_uid)
        self.f = z3.Function(f"where_{mask.name}", z3.IntSort(), z3.IntSort())
        self.len = SV(z3.Int(f"count_{mask.name}"))

    def __sym_len__(self):
        return self.len

    def __getitem__(self, n):
        nt = to_z3(n)
        idx = self.f(nt)
        cx = ctx()
        cx.oblige("safe.index-in-range", z3.And(nt >= 0, nt < self.len.t), kind="safe", detail=f"position into np.where({self.mask.name})")
        cx.axiom("np.where(mask)[0][n] is an index i in [0,N) with mask[i] true (for 0 <= n < count)",
                 z3.Implies(z3.And(nt >= 0, nt < self.len.t), z3.And(self.mask.f(idx), idx >= 0, idx < to_z3(self.mask.n))))
        return SV(idx)


class SubPoints(_Generic):
    """points[index_list]"""

    def __init__(self, pts, il):
        self.pts, self.il = pts, il

    def __sym_len__(self):
        return self.il.len

    def vec_at(self, n):
        return self.pts.vec(self.il.f(to_z3(n)))


class KDTree(_Generic):
    """assumed contract of scipy.spatial.KDTree(points).query_ball_point(queries, r): for query i exactly the positions n of
    tree points with |tree[n] - query[i]| <= r"""

    def __init__(self, pts, *a, **k):
        if not isinstance(pts, SubPoints):
            raise Unsupported("KDTree over this kind of array")
        self.pts = pts

    def query_ball_point(self, queries, r, **k):
        if not isinstance(queries, SubPoints):
            raise Unsupported("ball query with this kind of array")
        return NeighborLists(self, queries, r)


class NeighborLists(_Generic):
    def __init__(self, tree, queries, r):
        self.tree, self.queries, self.r = tree, queries, r

    def __generic_enumerate__(self):
        return self

    def __generic_for__(self, interp, st, env):
        if not (isinstance(st.target, ast.Tuple) and len(st.target.elts) == 2):
            raise Unsupported("neighbor list loop must be `for i, neighbors in enumerate(...)`")
        iname, nname = st.target.elts[0].id, st.target.elts[1].id
        i = SV(ctx().fresh(iname, "Int"))

        def bind(e):
            e.vars[iname] = i
            e.vars[nname] = Neighbors(self, i)
            return [z3.And(i.t >= 0, i.t < self.queries.il.len.t)]

        generic_body(interp, st, env, bind, getattr(ctx(), "loop_invariants", {}).get(st.lineno))


def dist2(a, b):
    return sum(((x - y) * (x - y) for x, y in zip(a, b)), z3.RealVal(0))


class Neighbors(_Generic):
    def __init__(self, nl, i):
        self.nl, self.i = nl, i

    def member(self, n):
        """n is in the ball-query result of query i"""
        nt = to_z3(n)
        r = real(to_z3(self.nl.r))
        return z3.And(nt >= 0, nt < self.nl.tree.pts.il.len.t, dist2(self.nl.tree.pts.vec_at(nt), self.nl.queries.vec_at(self.i.t)) <= r * r)

    def __generic_for__(self, interp, st, env):
        n = SV(ctx().fresh(st.target.id, "Int"))

        def bind(e):
            e.vars[st.target.id] = n
            return [self.member(n)]

        generic_body(interp, st, env, bind, getattr(ctx(), "loop_invariants", {}).get(st.lineno))
