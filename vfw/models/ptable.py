"""Position-function tables: a pandas table whose cell (row i, column c) is a z3 term F_c(i) of the row position i (a Python
closure), for code that reads single cells, aggregates over masked rows and writes masked cells (`df.loc[mask, col] = v`).
Contracts state quantified invariants over the closures.  Assumed pandas semantics (the model):

  df[col] == x, <, >, &           element-wise masks
  df.loc[mask, cols].values[0]    the cells of the FIRST row (lowest position) where the mask holds; IndexError when there is none
  np.max(df.loc[mask, [col]].values)   a value attained by some masked row and >= every masked row (requires a masked row)
  df.loc[mask, cols].shape[0]     the number of masked rows (uninterpreted count; facts about it are supplied by the contract)
  df.loc[mask, col] = v / op= v   masked rows get the new cell value, all other cells unchanged
  df[col] = scalar, df[col] op= scalar, df.loc[df.index[-1], col] = v, df[col].values[0], df[col][0]
"""
import z3
from ..sym import SV, SB, ctx, to_z3, real, Unsupported, ModelRaise
from .frames import _Generic

_COUNT = z3.Function("count_rows", z3.IntSort(), z3.IntSort())  # count_rows(mask id) -- facts are added per mask instance


def _scalar(v):
    if isinstance(v, (SV, int, float)):
        return real(to_z3(v))
    raise Unsupported(f"cell value of type {type(v).__name__}")


class PMask(_Generic):
    def __init__(self, t, f):
        self.t, self.f = t, f

    def __and__(self, o):
        if not isinstance(o, PMask) or o.t is not self.t:
            raise Unsupported("mask conjunction across tables")
        return PMask(self.t, lambda i, a=self.f, b=o.f: z3.And(a(i), b(i)))

    def __or__(self, o):
        return PMask(self.t, lambda i, a=self.f, b=o.f: z3.Or(a(i), b(i)))

    def __invert__(self):
        return PMask(self.t, lambda i, a=self.f: z3.Not(a(i)))

    def any(self):
        j = z3.Int(f"j!{next(ctx().counter)}")
        return SB(z3.Exists([j], z3.And(j >= 0, j < to_z3(self.t.n), self.f(j))))


class PCol(_Generic):
    """a column (or a per-row expression over one table)"""

    def __init__(self, t, f, name=None):
        self.t, self.f, self.name = t, f, name

    def _cmp(self, o, op):
        ot = _scalar(o)
        return PMask(self.t, lambda i, f=self.f: op(f(i), ot))

    def __eq__(self, o): return self._cmp(o, lambda a, b: a == b)
    def __ne__(self, o): return self._cmp(o, lambda a, b: a != b)
    def __lt__(self, o): return self._cmp(o, lambda a, b: a < b)
    def __le__(self, o): return self._cmp(o, lambda a, b: a <= b)
    def __gt__(self, o): return self._cmp(o, lambda a, b: a > b)
    def __ge__(self, o): return self._cmp(o, lambda a, b: a >= b)
    __hash__ = None

    def _arith(self, o, op):
        ot = _scalar(o)
        return PCol(self.t, lambda i, f=self.f: op(f(i), ot))

    def __add__(self, o): return self._arith(o, lambda a, b: a + b)
    def __sub__(self, o): return self._arith(o, lambda a, b: a - b)
    __radd__ = __add__

    @property
    def values(self):
        return PVals(self.t, None, [self.f], scalar_rows=True)

    def __getitem__(self, k):
        if isinstance(k, int) and k == 0:
            return self.t.cell_at(z3.IntVal(0), self.f)
        raise Unsupported("positional access into a column")


class PVals(_Generic):
    """`.values` of a selection: rows = masked rows in table order; each row a list of cells (or a scalar for a single column name)"""

    def __init__(self, t, mask, fs, scalar_rows):
        self.t, self.mask, self.fs, self.scalar_rows = t, mask, fs, scalar_rows

    def first_pos(self):
        cx = ctx()
        t = self.t
        if self.mask is None:
            cx.oblige("safe.first-row-exists", to_z3(t.n) >= 1, kind="safe", detail=".values[0] of an empty table raises IndexError")
            return z3.IntVal(0)
        r = getattr(self.mask, "_first_row", None)  # cached on the mask object itself (an id()-keyed cache can hit a recycled id)
        if r is None:
            r = cx.fresh("first_row", "Int")
            j = z3.Int(f"j!{next(cx.counter)}")
            n = to_z3(t.n)
            # existence is an obligation (IndexError otherwise); then r is the lowest masked position
            wit = cx.fresh("some_row", "Int")
            cx.oblige("safe.selected-row-exists", z3.Exists([j], z3.And(j >= 0, j < n, self.mask.f(j))), kind="safe", detail=".values[0] of an empty selection raises IndexError")
            cx.axiom("pandas: df.loc[mask, cols].values[0] is the first (lowest-position) masked row", z3.And(r >= 0, r < n, self.mask.f(r), z3.ForAll([j], z3.Implies(z3.And(j >= 0, j < r), z3.Not(self.mask.f(j))))))
            self.mask._first_row = r
        return r

    def __getitem__(self, k):
        if isinstance(k, int) and k == 0:
            r = self.first_pos()
            cells = [SV(f(r)) for f in self.fs]
            return cells[0] if self.scalar_rows else PRow(cells)
        raise Unsupported(".values[k] for k != 0")

    def max(self):
        cx = ctx()
        if len(self.fs) != 1:
            raise Unsupported("max over several columns")
        f, t = self.fs[0], self.t
        n = to_z3(t.n)
        j = z3.Int(f"j!{next(cx.counter)}")
        m = self.mask.f if self.mask is not None else (lambda i: z3.BoolVal(True))
        cx.oblige("safe.max-of-nonempty", z3.Exists([j], z3.And(j >= 0, j < n, m(j))), kind="safe", detail="np.max of an empty selection raises ValueError")
        M = cx.fresh("max_val", "Real")
        w = cx.fresh("max_row", "Int")
        cx.axiom("numpy: np.max over the masked rows is attained by one of them and dominates all of them", z3.And(w >= 0, w < n, m(w), f(w) == M, z3.ForAll([j], z3.Implies(z3.And(j >= 0, j < n, m(j)), f(j) <= M))))
        return SV(M)


class PRow(list):
    """one row of cells; supports tuple unpacking"""


class PSel(_Generic):
    """df.loc[mask, cols]"""

    def __init__(self, t, mask, cols, single, label_pos=None):
        self.t, self.mask, self.cols, self.single = t, mask, cols, single
        self.label_pos = label_pos  # df.loc[label, [cols]]: ONE row (a Series); its .values is the vector of that row's cells
        self.expr = None  # per-row expressions after an arithmetic operator (for `op=`)

    @property
    def values(self):
        if self.label_pos is not None and not self.single:
            from .npm import obj
            return obj([SV(self.t.cols[c](self.label_pos)) for c in self.cols])
        return PVals(self.t, self.mask, [self.t.cols[c] for c in self.cols], scalar_rows=self.single)

    @property
    def shape(self):
        cx = ctx()
        cnt = SV(cx.fresh("n_selected", "Int"))
        cx.assume(z3.And(cnt.t >= 0, cnt.t <= to_z3(self.t.n)))
        self.t.counts.append((self.mask, cnt))
        return (cnt, len(self.cols))

    def _arith(self, o, op):
        ot = _scalar(o)
        r = PSel(self.t, self.mask, self.cols, self.single)
        r.expr = [(lambda i, f=self.t.cols[c]: op(f(i), ot)) for c in self.cols]
        return r

    def __add__(self, o): return self._arith(o, lambda a, b: a + b)
    def __sub__(self, o): return self._arith(o, lambda a, b: a - b)
    __iadd__ = __add__
    __isub__ = __sub__


class _PLoc:
    def __init__(self, t):
        self.t = t

    def _key(self, k):
        if isinstance(k, PMask):
            k = (k, list(self.t.cols))
        if not (isinstance(k, tuple) and len(k) == 2):
            raise Unsupported("loc form on a position-function table")
        r, c = k
        single = isinstance(c, str)
        cols = [c] if single else list(c)
        for x in cols:
            if x not in self.t.cols:
                raise ModelRaise("KeyError", x)
        if isinstance(r, PMask):
            if r.t is not self.t:
                raise Unsupported("mask of another table")
            return r, cols, single
        if isinstance(r, PLabel) and r.t is self.t:
            self._label_pos = r.pos
            return PMask(self.t, lambda i, p=r.pos: i == p), cols, single
        raise Unsupported(f"loc row selector {type(r).__name__}")

    def __getitem__(self, k):
        self._label_pos = None
        m, cols, single = self._key(k)
        return PSel(self.t, m, cols, single, label_pos=self._label_pos)

    def __setitem__(self, k, v):
        self._label_pos = None
        m, cols, single = self._key(k)
        t = self.t
        if isinstance(v, PSel):
            # `df.loc[mask, cols] op= x`: the interpreter evaluates the subscript twice; the per-row expression old(i) op x does not depend on
            # the mask, so selecting with the (identical) target mask is exact
            if v.expr is None or v.t is not t or v.cols != cols:
                raise Unsupported("assignment of a selection to a different selection")
            for c, e in zip(cols, v.expr):
                t.cols[c] = (lambda i, old=t.cols[c], e=e, mf=m.f: z3.If(mf(i), e(i), old(i)))
            return
        val = _scalar(v)
        for c in cols:
            t.cols[c] = (lambda i, old=t.cols[c], mf=m.f, val=val: z3.If(mf(i), val, old(i)))


class PLabel:
    """an index label = a row position of a table with a RangeIndex"""

    def __init__(self, t, pos):
        self.t, self.pos = t, pos


class _PIndex:
    def __init__(self, t):
        self.t = t

    def __getitem__(self, k):
        n = to_z3(self.t.n)
        if isinstance(k, int) and k == -1:
            ctx().oblige("safe.index-in-range", n >= 1, kind="safe", detail="index[-1] of an empty table")
            return PLabel(self.t, n - 1)
        if isinstance(k, (int, SV)):
            kt = to_z3(k)
            ctx().oblige("safe.index-in-range", z3.And(kt >= 0, kt < n), kind="safe", detail="index[k]")
            return PLabel(self.t, kt)
        raise Unsupported("index[...] form")


class PTable(_Generic):
    def __init__(self, names, prefix, n=None, int_cols=()):
        cx = ctx()
        self.prefix = prefix
        self.n = n if n is not None else SV(cx.fresh(f"N_{prefix}", "Int"))
        cx.assume(to_z3(self.n) >= 0)
        self.cols = {}
        self.fn = {}
        for c in names:
            F = z3.Function(f"{prefix}{c}", z3.IntSort(), z3.IntSort() if c in int_cols else z3.RealSort())
            self.fn[c] = F
            self.cols[c] = (lambda i, F=F: real(F(i)))
        self._first = {}
        self.counts = []
        self.initial = dict(self.cols)

    def cell_at(self, pos, f):
        ctx().oblige("safe.index-in-range", z3.And(pos >= 0, pos < to_z3(self.n)), kind="safe", detail="positional cell access")
        return SV(f(pos))

    def __getitem__(self, c):
        if isinstance(c, str):
            if c not in self.cols:
                raise ModelRaise("KeyError", c)
            return PCol(self, self.cols[c], c)
        raise Unsupported("table[...] form on a position-function table")

    def __setitem__(self, c, v):
        if not isinstance(c, str):
            raise Unsupported("table[...] = form")
        if isinstance(v, PCol):
            if v.t is not self:
                raise Unsupported("column of another table")
            self.cols[c] = v.f
            return
        val = _scalar(v)
        self.cols[c] = (lambda i, val=val: val)

    @property
    def loc(self):
        return _PLoc(self)

    @property
    def index(self):
        return _PIndex(self)

    @property
    def shape(self):
        return (self.n, len(self.cols))

    def changed(self, c):
        return self.cols[c] is not self.initial[c]
