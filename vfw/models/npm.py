"""numpy as seen by the interpreter.

Concrete data goes to the real numpy.  Small arrays of *concrete shape* holding symbolic scalars are real numpy
object arrays (numpy's own broadcasting/indexing/ufunc dispatch then runs on SV/SB elements), allocation functions
return object arrays so that symbolic values can be stored; np.empty returns an array of `Uninit` poison values, so
reading uninitialised memory is an obligation failure.  Per-row generic arrays (frames.RowArr / GVec) get row-wise
semantics only.
"""
import numpy as _np
import z3
from ..sym import SV, SB, Unsupported, ModelRaise, ctx, ite, to_bool, is_num, to_z3
from .. import sym, theory
from .frames import RowArr, GVec, GFrame, TiledRows, _Generic, _len_check


class Uninit:
    """an element of np.empty(): any arithmetic on it is a read of uninitialised memory"""
    def _bad(self, *a, **k):
        ctx().oblige("safe.uninitialised-read", z3.BoolVal(False), kind="safe",
                     detail="arithmetic on an element of np.empty() that was never written")
        raise ModelRaise("UninitialisedRead", "read of np.empty() memory")
    __add__ = __radd__ = __sub__ = __rsub__ = __mul__ = __rmul__ = __truediv__ = __rtruediv__ = _bad
    __lt__ = __le__ = __gt__ = __ge__ = __neg__ = __abs__ = __float__ = __int__ = __bool__ = _bad
    def __repr__(self): return "<uninit>"


def _has_sym(x, d=0):
    if isinstance(x, (SV, SB, _Generic, Uninit)):
        return True
    if isinstance(x, _np.ndarray):
        return x.dtype == object
    if d < 4 and isinstance(x, (list, tuple)):
        return any(_has_sym(y, d + 1) for y in x)
    return False


def _conc_int(x, what):
    if isinstance(x, SV):
        raise Unsupported(f"{what} must be concrete, got a symbolic value")
    if isinstance(x, (float, _np.floating)):
        raise ModelRaise("TypeError", f"'float' object cannot be interpreted as an integer ({what})")
    return int(x)


def _shape(shape):
    if isinstance(shape, (list, tuple)):
        return tuple(_conc_int(s, "array shape") for s in shape)
    return (_conc_int(shape, "array shape"),)


def _generic_alloc(shape, fill):
    """np.zeros((N,k)) / np.zeros((N,)) with N the symbolic row count of a table -> per-row constant array;
    any other symbolic shape -> generic-voxel array (voxels.VArr)"""
    from .frames import space_for_count
    from .voxels import VArr
    if isinstance(shape, _np.ndarray):
        shape = list(shape)
    if isinstance(shape, SV):
        try:
            sp = space_for_count(shape)
            return GVec(fill, sp)
        except Unsupported:
            return VArr([shape], fill)
    if isinstance(shape, (tuple, list)) and shape and any(isinstance(s, SV) for s in shape):
        if isinstance(shape[0], SV) and len(shape) <= 2 and not any(isinstance(s, SV) for s in shape[1:]):
            try:
                sp = space_for_count(shape[0])
                if len(shape) == 1:
                    return GVec(fill, sp)
                return RowArr([fill] * int(shape[1]), sp)
            except Unsupported:
                pass
        return VArr(list(shape), fill)
    return None


def _tile_block(x, reps):
    """np.tile(B, (N, 1)) for a block B with one entry per subunit (n rows): N*n rows, row p holds B[p mod n].  Lines up with the
    current layout of the table made of n stacked copies of an N-row table: after sort_values (blocks of n copies per parent) p mod n
    is the place j of the row within its block; without such a layout the block index is an unknown in [0,n)"""
    from .frames import RowPos, _reset_space
    cx = ctx()
    target = None
    for sp in reversed(getattr(cx, "spaces", [])):
        rep = getattr(sp, "rep", None)
        if rep is not None and z3.simplify(to_z3(rep["n"]) - to_z3(x.space.n)).eq(z3.IntVal(0)) and z3.simplify(to_z3(rep["src_space"].n) - to_z3(reps)).eq(z3.IntVal(0)):
            target = sp
            break
    if target is None:
        raise Unsupported("np.tile of a per-row block without a replicated table of matching size")
    rep = target.rep
    idx = rep.get("block_index")
    if idx is None:
        idx = rep.get("tile_index")
        if idx is None:
            idx = rep["tile_index"] = cx.fresh("tile_index", "Int")
            cx.assume(z3.And(idx >= 0, idx < to_z3(rep["n"])))
    # the generic row of the block is taken to be the one that lands in the generic row of the table: its position is idx.
    # (angle atoms and other per-row Skolem constants of the block stay attached to that row, which a substitution would lose)
    pv = RowPos(x.space).val.t
    cx.assume(pv == idx)
    tsp = _reset_space(target)
    if isinstance(x, GVec):
        return GVec(x.val, tsp)
    return RowArr(list(x.vals), tsp)


class MaskIndex:
    """result of np.where(cond) with one argument on a symbolic condition array: the set of positions where cond holds"""
    def __init__(self, cond):
        self.cond = cond
    def __getitem__(self, k):
        if k == 0 and self.cond.ndim == 1:
            return self
        raise Unsupported("component of np.where(cond) on symbolic data")


class OA(_np.ndarray):
    """numpy object array holding symbolic scalars (concrete shape)"""
    def astype(self, t, *a, **k):
        if t in (float, _np.float64, "float", "float64") or getattr(t, "__name__", "") in ("_b_float", "float64"):
            return self
        if t in (int, _np.int64, "int") or getattr(t, "__name__", "") in ("_b_int", "int64"):
            out = _np.empty(self.shape, dtype=object).view(OA)
            for i in _np.ndindex(self.shape):
                v = _np.ndarray.__getitem__(self, i)
                out[i] = sym.pyint(v) if isinstance(v, (SV, SB)) else int(v)
            return out
        if getattr(t, "__name__", "") in ("float32", "single"):
            from .frames import to_f32
            out = _np.empty(self.shape, dtype=object).view(OA)
            for i in _np.ndindex(self.shape):
                out[i] = to_f32(_np.ndarray.__getitem__(self, i))
            return out
        if t is object:
            return self
        raise Unsupported(f"astype({t}) of a symbolic array")

    def __setitem__(self, key, v):
        cond = None
        if isinstance(key, MaskIndex):
            cond = key.cond
        elif isinstance(key, _np.ndarray) and key.dtype == object and key.shape == self.shape and key.size and all(isinstance(x, (SB, bool, _np.bool_)) for x in key.flat):
            cond = key
        elif isinstance(key, tuple) and len(key) == 1 and isinstance(key[0], MaskIndex):
            cond = key[0].cond
        if cond is not None:
            if cond.shape != self.shape:
                raise Unsupported("mask assignment with a mask of different shape")
            vv = _np.broadcast_to(obj(v) if _has_sym(v) or isinstance(v, _np.ndarray) else _np.array(v, dtype=object), self.shape)
            for i in _np.ndindex(self.shape):
                c = cond[i]
                old = _np.ndarray.__getitem__(self, i)
                if isinstance(c, SB) and (getattr(old, "ang", None) is not None or getattr(vv[i], "ang", None) is not None):
                    # angle-valued entries: fork the path instead of building an if-then-else (keeps the angle forms)
                    _np.ndarray.__setitem__(self, i, vv[i] if bool(c) else old)
                else:
                    _np.ndarray.__setitem__(self, i, ite(c, vv[i], old) if isinstance(c, SB) else (vv[i] if c else old))
            return
        if isinstance(v, (RowArr, GVec)):
            raise Unsupported("per-row generic value stored into a concrete-shape array")
        _np.ndarray.__setitem__(self, key, v)

    def __getitem__(self, key):
        if isinstance(key, MaskIndex) or (isinstance(key, _np.ndarray) and key.dtype == object and key.size and any(isinstance(x, SB) for x in key.flat)):
            raise Unsupported("selection of array elements by a symbolic mask (data-dependent shape)")
        return _np.ndarray.__getitem__(self, key)

    def __bool__(self):
        if self.size == 1:
            return bool(self.flat[0])
        raise ModelRaise("ValueError", "The truth value of an array with more than one element is ambiguous")

    def _cmp(self, o, f):
        if isinstance(o, _Generic):
            return NotImplemented
        a, b = _np.broadcast_arrays(_np.asarray(self).view(_np.ndarray), _np.asarray(o, dtype=object) if not isinstance(o, _np.ndarray) else o)
        out = _np.empty(a.shape, dtype=object)
        for i in _np.ndindex(a.shape):
            out[i] = f(a[i], b[i])
        return out.view(OA)

    def __lt__(self, o): return self._cmp(o, lambda x, y: x < y)
    def __le__(self, o): return self._cmp(o, lambda x, y: x <= y)
    def __gt__(self, o): return self._cmp(o, lambda x, y: x > y)
    def __ge__(self, o): return self._cmp(o, lambda x, y: x >= y)
    def __eq__(self, o): return self._cmp(o, lambda x, y: x == y)
    def __ne__(self, o): return self._cmp(o, lambda x, y: x != y)
    def __and__(self, o): return self._cmp(o, lambda x, y: x & y)
    def __or__(self, o): return self._cmp(o, lambda x, y: x | y)
    def __invert__(self):
        out = _np.empty(self.shape, dtype=object)
        for i in _np.ndindex(self.shape):
            v = _np.ndarray.__getitem__(self, i)
            out[i] = ~v if isinstance(v, SB) else (not v)
        return out.view(OA)
    __hash__ = None


NATIVE_OK = {"power", "multiply", "add", "subtract", "divide", "true_divide", "negative", "transpose", "reshape", "squeeze", "expand_dims", "copy",
             "ravel", "flip", "roll", "swapaxes", "moveaxis", "repeat", "mod", "remainder", "mean", "shape", "ndim", "size", "fliplr", "flipud", "rot90",
             "array_equal", "broadcast_to", "atleast_3d", "take", "diag", "trace", "outer", "matmul", "tensordot", "cumsum", "prod", "append", "insert"}


def obj(a):
    """object array from nested lists / arrays"""
    if isinstance(a, OA):
        return a
    if isinstance(a, _np.ndarray) and a.dtype == object:
        return a.view(OA)
    if isinstance(a, _np.ndarray):
        return a.astype(object).view(OA)
    # build via shape discovery (np.array on lists of SV would try sequence protocol on SV)
    def shp(x):
        if isinstance(x, (list, tuple)):
            if not x: return (0,)
            return (len(x),) + shp(x[0])
        if isinstance(x, _np.ndarray):
            return x.shape
        return ()
    s = shp(a)
    out = _np.empty(s, dtype=object).view(OA)
    if s == ():
        out[()] = a
        return out
    def fill(x, idx):
        if len(idx) == len(s):
            out[idx] = x
            return
        if isinstance(x, _np.ndarray):
            x = list(x)
        if not isinstance(x, (list, tuple)) or len(x) != s[len(idx)]:
            raise ModelRaise("ValueError", "setting an array element with a sequence (inhomogeneous shape)")
        for i, y in enumerate(x):
            fill(y, idx + (i,))
    fill(a, ())
    return out


def _elementwise(fn_sym, fn_np):
    def f(x, *a, **k):
        if isinstance(x, (SV, SB)):
            return fn_sym(x)
        if type(x).__name__ == "VArr":
            return x._new(fn_sym(x.elem) if isinstance(x.elem, (SV, SB)) else fn_np(x.elem))
        if isinstance(x, GVec):
            return x._new(fn_sym(x.val) if isinstance(x.val, (SV, SB)) else fn_np(x.val))
        if isinstance(x, RowArr):
            return x._new([fn_sym(v) if isinstance(v, (SV, SB)) else fn_np(v) for v in x.vals])
        if isinstance(x, _np.ndarray) and x.dtype == object or (isinstance(x, (list, tuple)) and _has_sym(x)):
            a_ = obj(x)
            out = _np.empty(a_.shape, dtype=object).view(OA)
            for i in _np.ndindex(a_.shape):
                v = a_[i]
                out[i] = fn_sym(v) if isinstance(v, (SV, SB)) else fn_np(v)
            return out
        return fn_np(x, *a, **k)
    return f


class NP:
    """namespace standing for `np` inside interpreted code"""
    pi = _np.pi
    nan = _np.nan
    inf = _np.inf
    newaxis = None
    float32 = _np.float32
    float64 = _np.float64
    int32 = _np.int32
    int64 = _np.int64
    int16 = _np.int16
    int8 = _np.int8
    uint8 = _np.uint8
    single = _np.single
    ndarray = _np.ndarray
    integer = _np.integer
    floating = _np.floating
    bool_ = _np.bool_
    number = _np.number

    def __getattr__(self, name):
        real = getattr(_np, name)
        if not callable(real):
            return real
        def passthrough(*a, **k):
            if _has_sym(a) or _has_sym(list(k.values())):
                if name in NATIVE_OK and not any(isinstance(x, _Generic) for x in a):
                    r = real(*[obj(x) if _has_sym(x) and not isinstance(x, (SV, SB)) else x for x in a], **k)
                    return r.view(OA) if isinstance(r, _np.ndarray) and r.dtype == object else r
                raise Unsupported(f"np.{name} has no symbolic model")
            return real(*a, **k)
        passthrough.__name__ = name
        return passthrough

    # ---- allocation
    def zeros(self, shape, dtype=float, **k):
        g = _generic_alloc(shape, 0.0 if dtype in (float, None, _np.float64, _np.float32) else 0)
        if g is not None:
            return g
        a = _np.empty(_shape(shape), dtype=object).view(OA)
        a.fill(0.0 if dtype in (float, None, _np.float64, _np.float32) else (False if dtype is bool else 0))
        return a
    def ones(self, shape, dtype=float, **k):
        g = _generic_alloc(shape, 1.0 if dtype in (float, None, _np.float64, _np.float32) else 1)
        if g is not None:
            return g
        a = _np.empty(_shape(shape), dtype=object).view(OA)
        a.fill(1.0 if dtype in (float, None, _np.float64, _np.float32) else (True if dtype is bool else 1))
        return a
    def full(self, shape, v, dtype=None, **k):
        if k:
            raise Unsupported(f"np.full keywords {sorted(k)}")
        g = _generic_alloc(shape, v)
        if g is not None:
            if dtype is not None:
                # the fill value is cast to the requested data type (an integer type truncates it)
                if not hasattr(g, "astype"):
                    raise Unsupported("np.full(dtype=...) of this generic array")
                return g.astype(_np.dtype(dtype).type if not isinstance(dtype, str) else dtype)
            return g
        if dtype is not None and _np.dtype(dtype).kind != "f":
            raise Unsupported("np.full with a non-float dtype on a concrete shape")
        a = _np.empty(_shape(shape), dtype=object).view(OA)
        a.fill(v)
        return a
    def empty(self, shape, **k):
        g = _generic_alloc(shape, Uninit())
        if g is not None:
            return g
        a = _np.empty(_shape(shape), dtype=object).view(OA)
        for i in _np.ndindex(a.shape):
            a[i] = Uninit()
        return a
    def eye(self, n, *a, **k):
        return _np.eye(n, *a, **k).astype(object).view(OA)

    def mean(self, x, *a, **k):
        if type(x).__name__ == "VArr":
            return x.mean()
        if _has_sym(x):
            r = obj(x)
            return _np.ndarray.mean(r, *a, **k)
        return _np.mean(x, *a, **k)

    def add(self, a, b, *r, **k):
        return a + b

    def divide(self, a, b, *r, **k):
        return a / b

    def zeros_like(self, x, **k):
        if isinstance(x, _np.ndarray): return self.zeros(x.shape)
        raise Unsupported("zeros_like of generic")
    def asarray(self, x, dtype=None, **k):
        # no copy for arrays: the result aliases the argument (in-place stores through it reach the caller's array)
        if isinstance(x, (RowArr, GVec)) or type(x).__name__ == "VArr":
            return x
        return self.array(x, dtype=dtype, **k)
    def array(self, x, dtype=None, ndmin=0, **k):
        if isinstance(x, RowArr):
            return x.copy()
        if isinstance(x, GVec):
            return x
        if type(x).__name__ == "VArr":
            return x.copy() if k.get("copy", True) else x
        if isinstance(x, GFrame):
            return x.to_numpy()
        if _has_sym(x):
            a = obj(x).copy().view(OA)
            while a.ndim < ndmin:
                a = a.reshape((1,) + a.shape)
            return a
        if ndmin:
            k["ndmin"] = ndmin
        if isinstance(x, (SV,)):
            return x
        a = _np.array(x, dtype=dtype, **k)
        return a
    def atleast_2d(self, x):
        if isinstance(x, RowArr): return x
        if isinstance(x, _np.ndarray) and x.dtype == object:
            return x if x.ndim >= 2 else x.reshape(1, -1)
        if _has_sym(x): return self.atleast_2d(obj(x))
        return _np.atleast_2d(x)
    def atleast_1d(self, x):
        if isinstance(x, (RowArr, GVec)): return x
        if isinstance(x, (SV, SB)): return obj([x])
        return _np.atleast_1d(x)
    def arange(self, *a, **k):
        if _has_sym(a):
            from .frames import space_for_count, RowPos
            start, stop, step = (0, a[0], 1) if len(a) == 1 else (a[0], a[1], a[2] if len(a) > 2 else 1)
            if step == 1 and not isinstance(start, SV):
                sp = space_for_count(stop - start)
                return GVec(RowPos(sp).val + start, sp)
            raise Unsupported("np.arange with symbolic bounds")
        return _np.arange(*a, **k)
    def tile(self, x, reps):
        if type(x).__name__ == "VArr":
            reps = tuple(reps) if isinstance(reps, (tuple, list)) else (reps,)
            if len(reps) != x.ndim:
                raise Unsupported("tile with a different rank")
            shape = []
            for s, r in zip(x.shape_, reps):
                if not isinstance(r, SV) and r == 1:
                    shape.append(s)
                elif not isinstance(s, SV) and s == 1:
                    shape.append(r)
                else:
                    raise Unsupported("tile of a non-singleton axis")
            from .voxels import VArr, subst_index
            sub = {a: z3.IntVal(0) for a, (s, r) in enumerate(zip(x.shape_, reps)) if not (not isinstance(r, SV) and r == 1)}
            return VArr(shape, subst_index(x.elem, sub), x.dtype_)
        if isinstance(x, (RowArr, GVec)) and isinstance(reps, tuple) and len(reps) == 2 and not isinstance(reps[1], SV) and reps[1] == 1:
            return _tile_block(x, reps[0])
        if isinstance(reps, tuple) and len(reps) == 2 and reps[1] == 1 and isinstance(reps[0], SV):
            a = obj(x) if not isinstance(x, _np.ndarray) else x
            if a.ndim == 1:
                return TiledRows(list(a), reps[0])
            raise Unsupported("tile of a 2-D block over a symbolic count")
        if _has_sym(reps):
            raise Unsupported("np.tile with symbolic reps")
        return _np.tile(obj(x) if _has_sym(x) else x, reps)
    def repeat(self, x, n, axis=None):
        if isinstance(n, SV) and axis == 0:
            a = obj(x) if not isinstance(x, _np.ndarray) else x
            if a.ndim == 2 and a.shape[0] == 1:
                return TiledRows(list(a[0]), n)
            raise Unsupported("np.repeat of several rows a symbolic number of times")
        if _has_sym(x) or _has_sym([n]):
            return _np.repeat(obj(x), n, axis=axis).view(OA)
        return _np.repeat(x, n, axis=axis)

    def deg2rad(self, x): return _elementwise(theory.deg2rad, _np.deg2rad)(x)
    def radians(self, x): return _elementwise(theory.deg2rad, _np.deg2rad)(x)
    def rad2deg(self, x): return _elementwise(theory.rad2deg, _np.rad2deg)(x)
    def degrees(self, x): return _elementwise(theory.rad2deg, _np.rad2deg)(x)
    def sqrt(self, x): return _elementwise(theory.sqrt, _np.sqrt)(x)
    def cos(self, x): return _elementwise(theory.cos, _np.cos)(x)
    def sin(self, x): return _elementwise(theory.sin, _np.sin)(x)
    def arccos(self, x): return _elementwise(theory.arccos, _np.arccos)(x)
    def tan(self, x): return _elementwise(theory.tan, _np.tan)(x)
    def exp(self, x): return _elementwise(theory.exp, _np.exp)(x)
    def abs(self, x): return _elementwise(abs, _np.abs)(x)
    absolute = abs
    def floor(self, x): return _elementwise(lambda v: v.floor() if isinstance(v, SV) else v, _np.floor)(x)
    def ceil(self, x): return _elementwise(lambda v: v.ceil() if isinstance(v, SV) else v, _np.ceil)(x)
    def round(self, x, decimals=0, **k):
        # numpy rounds halves to even (like Python's round); only whole-number rounding of symbolic values is modelled
        if _has_sym(x) or isinstance(x, (GVec, RowArr)):
            if decimals != 0 or k:
                raise Unsupported("np.round with decimals on symbolic data")
            return _elementwise(lambda v: SV(sym.real(to_z3(sym.pyround(v, None)))) if isinstance(v, SV) else float(round(v)), _np.round)(x)
        return _np.round(x, decimals, **k)
    around = round
    def rint(self, x):
        return self.round(x)
    def square(self, x): return _elementwise(lambda v: v * v, _np.square)(x)
    def logical_not(self, x): return _elementwise(sym.s_not, _np.logical_not)(x)
    def arctan2(self, y, x):
        if isinstance(y, (SV,)) or isinstance(x, SV):
            return theory.arctan2(y, x)
        if isinstance(y, GVec) or isinstance(x, GVec):
            g = y if isinstance(y, GVec) else x
            yv = y.val if isinstance(y, GVec) else y
            xv = x.val if isinstance(x, GVec) else x
            if isinstance(yv, _Generic) or isinstance(xv, _Generic):
                raise Unsupported("arctan2 of mixed generic arrays")
            return g._new(theory.arctan2(yv, xv))
        if _has_sym(y) or _has_sym(x):
            ya, xa = _np.broadcast_arrays(obj(y), obj(x))
            out = _np.empty(ya.shape, dtype=object).view(OA)
            for i in _np.ndindex(ya.shape):
                out[i] = theory.arctan2(ya[i], xa[i]) if isinstance(ya[i], SV) or isinstance(xa[i], SV) else _np.arctan2(ya[i], xa[i])
            return out
        return _np.arctan2(y, x)
    def where(self, c, *ab):
        if ab and isinstance(c, (bool, _np.bool_)):
            return ab[0] if c else ab[1]
        if ab and (type(c).__name__ == "VArr" or any(type(v).__name__ == "VArr" for v in ab)):
            from .voxels import VArr, _ite
            g = c if type(c).__name__ == "VArr" else [v for v in ab if type(v).__name__ == "VArr"][0]
            shape, _, ce = g._coerce(c) if g is not c else (g.shape_, None, c.elem)
            _, _, ae = g._coerce(ab[0]) if ab[0] is not g else (None, None, g.elem)
            _, _, be = g._coerce(ab[1]) if ab[1] is not g else (None, None, g.elem)
            return VArr(shape, _ite(ce, ae, be))
        if not ab and hasattr(c, "where"):
            return c.where()
        if not ab and isinstance(c, GVec):
            # np.where(mask) of a per-row boolean vector: the positions where it holds; only usable as an index into a vector of the same
            # layout (v[np.where(mask)] = x  is  v[mask] = x)
            # represented as the vector of the positions where the mask holds (aligned with every other array filtered by the same mask)
            from .frames import RowPos, _filter_space
            pres = z3.And(c.present, sym.to_bool(c.val))
            idx = GVec(RowPos(c.space).val, _filter_space(c.space, mask=pres), pres)
            idx.target_space = c.space
            idx.where_of = c
            return (idx,)
        if not ab:
            if isinstance(c, _np.ndarray) and c.dtype == object and any(isinstance(x, SB) for x in c.flat):
                return MaskIndex(c) if c.ndim != 1 else (MaskIndex(c),)
            if _has_sym(c):
                raise Unsupported("np.where(cond) on symbolic data")
            return _np.where(c)
        a, b = ab
        if isinstance(c, (SB,)):
            return ite(c, a, b)
        if isinstance(c, GVec):
            av = a.val if isinstance(a, GVec) else a
            bv = b.val if isinstance(b, GVec) else b
            if isinstance(av, str) or isinstance(bv, str):
                from .frames import _ite_any
                return c._new(_ite_any(sym.to_bool(c.val), av, bv))
            return c._new(ite(c.val, av, bv))
        if _has_sym(c) or _has_sym(a) or _has_sym(b):
            ca, aa, ba = _np.broadcast_arrays(obj(c), obj(a), obj(b))
            out = _np.empty(ca.shape, dtype=object).view(OA)
            for i in _np.ndindex(ca.shape):
                out[i] = ite(ca[i], aa[i], ba[i]) if isinstance(ca[i], SB) else (aa[i] if ca[i] else ba[i])
            return out
        return _np.where(c, a, b)
    mgrid = __import__("vfw.models.voxels", fromlist=["MGrid"]).MGrid()

    def argsort(self, x, *a, **k):
        """assumed contract: a permutation sigma of [0,n) with x[sigma(0)] <= x[sigma(1)] <= ... (ascending)"""
        if isinstance(x, GVec):
            from .kernels import PermSeq
            return PermSeq.argsort(x)
        if type(x).__name__ == "VArr" and x.ndim == 1:
            from .voxels import IndexMap
            cx = ctx()
            m = IndexMap(f"argsort!{next(cx.counter)}", x.shape_[0], source=x, kind="argsort")
            return m
        if _has_sym(x):
            raise Unsupported("np.argsort on symbolic data")
        return _np.argsort(x, *a, **k)

    def delete(self, arr, idx, axis=None):
        """assumed contract (axis=0): the rows whose index is not listed, in their original order"""
        if type(arr).__name__ == "VArr" and axis == 0:
            from .voxels import IndexMap, VArr, subst_index, V
            cx = ctx()
            n_new = SV(cx.fresh("n_kept", "Int"))
            m = IndexMap(f"kept!{next(cx.counter)}", n_new, source=idx, kind="delete")
            out = arr[(m,) + (slice(None),) * (arr.ndim - 1)]
            out.kept_map = m
            return out
        if _has_sym(arr) or _has_sym(idx):
            raise Unsupported("np.delete on symbolic data")
        return _np.delete(arr, idx, axis=axis)

    def expand_dims(self, x, axis):
        if _has_sym(x): raise Unsupported("np.expand_dims on symbolic data")
        return _np.expand_dims(x, axis)

    def real(self, x):
        if type(x).__name__ == "FilteredMap":
            from .voxels import FilteredMap
            return FilteredMap(x.source, x.gains, real=True)
        if _has_sym(x):
            return x
        return _np.real(x)

    def amin(self, x, **k):
        if _has_sym(x):
            a = obj(x).ravel()
            r = a[0]
            for v in a[1:]:
                r = sym.smin(r, v)
            return r
        return _np.amin(x, **k)
    def amax(self, x, **k):
        if type(x).__name__ == "PVals":
            return x.max()
        if _has_sym(x):
            a = obj(x).ravel()
            r = a[0]
            for v in a[1:]:
                r = sym.smax(r, v)
            return r
        return _np.amax(x, **k)
    min = amin
    max = amax
    def all(self, x, axis=None, **k):
        if isinstance(x, RowArr) and axis == 1:
            return GVec(SB(z3.And(*[sym.to_bool(v) for v in x.vals])), x.space, x.present)
        if _has_sym(x): raise Unsupported("np.all has no symbolic model")
        return _np.all(x, axis=axis, **k) if axis is not None else _np.all(x, **k)

    def any(self, x, axis=None, **k):
        if isinstance(x, RowArr) and axis == 1:
            return GVec(SB(z3.Or(*[sym.to_bool(v) for v in x.vals])), x.space, x.present)
        if axis is not None:
            k["axis"] = axis
        if x is None: return False
        if _has_sym(x): raise Unsupported("np.any on symbolic data")
        return _np.any(x, **k)

    def clip(self, x, lo, hi):
        def one(v):
            r = v
            if lo is not None: r = sym.smax(r, lo)
            if hi is not None: r = sym.smin(r, hi)
            return r
        return _elementwise(one, lambda v: _np.clip(v, lo, hi))(x)
    def minimum(self, a, b):
        return self._binary_elem(a, b, sym.smin, _np.minimum)
    def maximum(self, a, b):
        return self._binary_elem(a, b, sym.smax, _np.maximum)
    def _binary_elem(self, a, b, fs, fn):
        if type(a).__name__ == "VArr" or type(b).__name__ == "VArr":
            g, o = (a, b) if type(a).__name__ == "VArr" else (b, a)
            return g._bin(o, lambda x, y: fs(x, y))
        if isinstance(a, (SV,)) or isinstance(b, SV):
            if not _has_sym([x for x in (a, b) if not isinstance(x, SV)]):
                if not isinstance(a, _np.ndarray) and not isinstance(b, _np.ndarray):
                    return fs(a, b)
        if _has_sym(a) or _has_sym(b):
            if isinstance(a, (RowArr, GVec)) or isinstance(b, (RowArr, GVec)):
                g = a if isinstance(a, (RowArr, GVec)) else b
                return g._bin(b if g is a else a, (lambda x, y: fs(x, y)))
            aa, ba = _np.broadcast_arrays(obj(a), obj(b))
            out = _np.empty(aa.shape, dtype=object).view(OA)
            for i in _np.ndindex(aa.shape):
                out[i] = fs(aa[i], ba[i])
            return out
        return fn(a, b)
    def sum(self, x, axis=None, **k):
        if hasattr(x, "__sym_count__"):
            return x.__sym_count__()
        if isinstance(x, RowArr):
            if axis == 1:
                r = x.vals[0]
                for v in x.vals[1:]: r = r + v
                return GVec(r, x.space, x.present)
            raise Unsupported("sum over rows of a per-row array")
        if isinstance(x, GVec):
            raise Unsupported("sum over rows")
        if _has_sym(x):
            a = obj(x)
            r = _np.ndarray.sum(a, axis=axis)
            return r.view(OA) if isinstance(r, _np.ndarray) else r
        return _np.sum(x, axis=axis, **k)
    def dot(self, a, b):
        if _has_sym(a) or _has_sym(b):
            r = _np.dot(obj(a), obj(b))
            return r.view(OA) if isinstance(r, _np.ndarray) else r
        return _np.dot(a, b)
    def cross(self, a, b, **k):
        if _has_sym(a) or _has_sym(b):
            a, b = obj(a), obj(b)
            if a.shape == (3,) and b.shape == (3,):
                return obj([a[1] * b[2] - a[2] * b[1], a[2] * b[0] - a[0] * b[2], a[0] * b[1] - a[1] * b[0]])
            raise Unsupported("cross of non-3-vectors")
        return _np.cross(a, b, **k)
    def einsum(self, spec, *ops):
        if _has_sym(ops):
            if spec.replace(" ", "") == "ij,ij->i" and not any(isinstance(o, _Generic) for o in ops):
                a, b = obj(ops[0]), obj(ops[1])
                return obj([sum((a[i, j] * b[i, j] for j in range(a.shape[1])), 0) for i in range(a.shape[0])])
            raise Unsupported(f"einsum {spec} on symbolic data")
        return _np.einsum(spec, *ops)
    def isscalar(self, x):
        return isinstance(x, (SV, SB)) or _np.isscalar(x)
    def isnan(self, x):
        if _has_sym(x): raise Unsupported("np.isnan on symbolic data")
        return _np.isnan(x)
    def vstack(self, xs):
        xs = list(xs)
        if any(isinstance(x, _Generic) for x in xs): raise Unsupported("vstack of generic arrays")
        return _np.vstack([obj(x) if _has_sym(x) else x for x in xs])
    def hstack(self, xs):
        xs = list(xs)
        if xs and all(isinstance(x, RowArr) for x in xs):
            # (N,k1), (N,k2), ... side by side: the generic row's values concatenated
            from .frames import _same_space
            for x in xs[1:]:
                _same_space(xs[0].space, x.space, "hstack of per-row arrays")
            return RowArr([v for x in xs for v in x.vals], xs[0].space, xs[0].present)
        if any(isinstance(x, _Generic) for x in xs): raise Unsupported("hstack of generic arrays")
        return _np.hstack([obj(x) if _has_sym(x) else x for x in xs])
    def concatenate(self, xs, axis=0):
        xs = list(xs)
        if any(isinstance(x, _Generic) for x in xs): raise Unsupported("concatenate of generic arrays")
        return _np.concatenate([obj(x) if _has_sym(x) else x for x in xs], axis=axis)
    def stack(self, xs, axis=0):
        xs = list(xs)
        if any(isinstance(x, _Generic) for x in xs): raise Unsupported("stack of generic arrays")
        return _np.stack([obj(x) if _has_sym(x) else x for x in xs], axis=axis)
    def column_stack(self, xs):
        xs = list(xs)
        if all(isinstance(x, GVec) for x in xs):
            return RowArr([x.val for x in xs], xs[0].space, xs[0].present)
        if any(isinstance(x, _Generic) for x in xs): raise Unsupported("column_stack of mixed generic arrays")
        return _np.column_stack([obj(x) if _has_sym(x) else x for x in xs])
    def unique(self, x, **k):
        if isinstance(x, GVec):
            return x.unique()
        if isinstance(x, RowArr) and x.k == 1:
            return GVec(x.vals[0], x.space, x.present).unique()
        if _has_sym(x): raise Unsupported("np.unique on symbolic data")
        return _np.unique(x, **k)
    def isin(self, a, b, **k):
        if _has_sym(a) or _has_sym(b): raise Unsupported("np.isin on symbolic data")
        return _np.isin(a, b, **k)
    def allclose(self, *a, **k):
        if _has_sym(a): raise Unsupported("np.allclose on symbolic data")
        return _np.allclose(*a, **k)
    def isclose(self, a, b, rtol=1e-05, atol=1e-08, equal_nan=False, **k):
        if _has_sym((a, b)) or isinstance(a, (GVec, RowArr)) or isinstance(b, (GVec, RowArr)):
            # numpy's definition over the reals: |a - b| <= atol + rtol * |b| (the tolerances identified with their doubles)
            from fractions import Fraction
            if k or _has_sym((rtol, atol)):
                raise Unsupported("np.isclose form")
            if isinstance(a, GFrame) or isinstance(b, GFrame):
                raise Unsupported("np.isclose on tables")
            if getattr(a, "kind", None) == "series":
                a = a.to_numpy()
            if getattr(b, "kind", None) == "series":
                b = b.to_numpy()
            return abs(a - b) <= abs(b) * Fraction(rtol) + Fraction(atol)
        return _np.isclose(a, b, rtol=rtol, atol=atol, equal_nan=equal_nan, **k)

    class _Linalg:
        def norm(self, x, ord=None, axis=None, keepdims=False):
            if isinstance(x, RowArr):
                if axis == 1:
                    s = None
                    for v in x.vals:
                        s = v * v if s is None else s + v * v
                    r = GVec(theory.sqrt(s), x.space, x.present)
                    return r.reshape(-1, 1) if keepdims else r
                if axis is None:
                    return FrobeniusNorm(x)
                raise Unsupported("norm over rows")
            if _has_sym(x):
                a = obj(x)
                if axis is None:
                    s = 0
                    for i in _np.ndindex(a.shape):
                        s = s + a[i] * a[i]
                    return theory.sqrt(s) if isinstance(s, SV) else _np.sqrt(s)
                if a.ndim == 2 and axis == 1:
                    out = _np.empty(a.shape[0], dtype=object).view(OA)
                    for i in range(a.shape[0]):
                        s = 0
                        for j in range(a.shape[1]): s = s + a[i, j] * a[i, j]
                        out[i] = theory.sqrt(s) if isinstance(s, SV) else _np.sqrt(s)
                    return out.reshape(-1, 1) if keepdims else out
                if a.ndim == 2 and axis == 0:
                    out = _np.empty(a.shape[1], dtype=object).view(OA)
                    for j in range(a.shape[1]):
                        s = 0
                        for i in range(a.shape[0]): s = s + a[i, j] * a[i, j]
                        out[j] = theory.sqrt(s) if isinstance(s, SV) else _np.sqrt(s)
                    return out
                raise Unsupported("norm axis")
            return _np.linalg.norm(x, ord=ord, axis=axis, keepdims=keepdims)
        def inv(self, m):
            if _has_sym(m):
                a = obj(m)
                # inverse of a pure translation matrix [[I, t], [0, 1]] is [[I, -t], [0, 1]]
                if a.ndim == 2 and a.shape[0] == a.shape[1]:
                    d = a.shape[0] - 1
                    lin_ok = all((not isinstance(a[i, j], (SV, SB))) and a[i, j] == (1 if i == j else 0) for i in range(d + 1) for j in range(d))
                    last_ok = (not isinstance(a[d, d], (SV, SB))) and a[d, d] == 1
                    if lin_ok and last_ok:
                        out = a.copy().view(OA)
                        for i in range(d):
                            out[i, d] = -a[i, d]
                        return out
                raise Unsupported("linalg.inv of a symbolic matrix that is not a pure translation")
            return _np.linalg.inv(m)
        def det(self, m):
            if _has_sym(m): raise Unsupported("linalg.det symbolic")
            return _np.linalg.det(m)
    linalg = _Linalg()
    fft = __import__("vfw.models.voxels", fromlist=["FFT"]).FFT

    class _Random:
        def __getattr__(self, k):
            return getattr(_np.random, k)
        def rand(self, *shape):
            """np.random.rand: arbitrary values in [0,1) -- modelled as unconstrained symbolic numbers in that range"""
            from .frames import space_for_count
            cx = ctx()
            if len(shape) == 1 and isinstance(shape[0], SV):
                v = cx.fresh("rand")
                cx.assume(z3.And(v >= 0, v < 1))
                return GVec(SV(v), space_for_count(shape[0]))
            out = _np.empty(tuple(int(s) for s in shape), dtype=object).view(OA)
            for i in _np.ndindex(out.shape):
                v = cx.fresh("rand")
                cx.assume(z3.And(v >= 0, v < 1))
                out[i] = SV(v)
            return out
    random = _Random()


class FrobeniusNorm(_Generic):
    """np.linalg.norm(A) of an (N,k) per-row array with no axis: sqrt(sum over ALL rows).  It is a single number
    for the whole table; dividing rows by it normalises rows only if N == 1.  Kept symbolic: G >= 0,
    G^2 = S where S >= |row_r|^2 for the generic row r, with equality iff N == 1 (assumed numpy contract)."""
    def __init__(self, arr):
        cx = ctx()
        self.arr = arr
        g = cx.fresh("frob")
        s = None
        for v in arr.vals:
            s = v * v if s is None else s + v * v
        n = to_z3(arr.space.n)
        other = cx.fresh("frob_rest")
        cx.axiom("Frobenius norm of an (N,k) array: G>=0, G^2 = |row_r|^2 + (sum over the other N-1 rows), the rest is >=0 and is 0 when N=1",
                 z3.And(g >= 0, g * g == sym.real(to_z3(s)) + other, other >= 0, z3.Implies(n == 1, other == 0)))
        self.g = SV(g)
        self.rest = SV(other)
    def __scalar__(self):
        return self.g
    def __rtruediv__(self, o):
        return o / self.g
    def __gt__(self, o): return self.g > o
    def __lt__(self, o): return self.g < o
    def __eq__(self, o): return self.g == o
    def __ne__(self, o): return self.g != o
