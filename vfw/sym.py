"""Symbolic values, path contexts and path exploration for the pyvc verification-condition generator.

Everything symbolic is a z3 term wrapped in SV (numbers) or SB (booleans).  Python control flow on a
symbolic boolean goes through SB.__bool__, which asks the current path context for a decision; the explorer
re-executes the function under contract once per feasible decision sequence (depth-first), so the *real*
AST is interpreted once per path and no state has to be copied.

Encoding assumptions (repeated in every evidence file):
  * Python int = mathematical integer (z3 Int); float / numpy.float64 = real number (z3 Real, no rounding,
    no NaN/inf unless a model says otherwise);
  * `//`, `%`, round (banker's), int() (truncation), ceil/floor follow Python semantics exactly;
  * sqrt / trigonometric / exp / pow are uninterpreted and characterised only by the axiom instances that
    are recorded in PathCtx.axioms (printed in evidence as trusted_base).
"""
import itertools
import os
import z3
from fractions import Fraction


class Unsupported(Exception):
    """construct or call outside the interpreted subset -> function out of reach (undecided, never a violation)"""


class ModelRaise(Exception):
    """the code under contract raises (a `raise` statement, or a library model that raises)"""

    def __init__(self, exc_type, msg="", lineno=None):
        super().__init__(f"{exc_type}: {msg}")
        self.exc_type = exc_type
        self.msg = msg
        self.lineno = lineno


class PathInfeasible(Exception):
    pass


class _Counter:
    def __init__(self):
        self.n = 0

    def __next__(self):
        self.n += 1
        return self.n - 1


class PathCtx:
    """state of one execution path"""

    def __init__(self, decisions, hyps=(), fuel=400):
        self.decisions = list(decisions)  # list of [value, has_alternative]
        self.pos = 0
        self.pc = []  # list of (z3 Bool, lineno)
        self.hyps = list(hyps)  # requires + axiom instances
        self.axioms = []  # (name, z3 Bool) instances added by theory functions
        self.counter = _Counter()
        self.obligations = []  # in-path obligations (safe / pre@callsite / index-space): (name, goal, meta)
        self.sites = {}  # named add-sites for generic-iteration loops
        self.dropped = []  # (lineno, text) of statements/calls dropped by the interpreter
        self.fuel = fuel
        self.lineno = None
        self._solver = None
        self.trace = []
        self.notes = []

    # -- naming
    def fresh(self, prefix, sort="Real"):
        n = f"{prefix}!{next(self.counter)}"
        return {"Real": z3.Real, "Int": z3.Int, "Bool": z3.Bool}[sort](n)

    # -- hypotheses
    def assume(self, f, name=None):
        if isinstance(f, SB):
            f = f.t
        self.hyps.append(f)
        if name is not None:
            self.axioms.append((name, f))
        self._solver = None

    def axiom(self, name, f):
        self.assume(f, name)

    def facts(self):
        return list(self.hyps) + [e[0] for e in self.pc]

    # -- feasibility
    def feasible(self, cond):
        if self._solver is None:
            self._solver = z3.Solver()
            self._solver.set("timeout", 400)
            for h in self.hyps:
                self._solver.add(h)
            for c in [e[0] for e in self.pc]:
                self._solver.add(c)
        self._solver.push()
        self._solver.add(cond)
        r = self._solver.check()
        self._solver.pop()
        return r != z3.unsat  # unknown counts as feasible (sound: only adds paths)

    def decide(self, cond):
        cond = z3.simplify(cond)
        if z3.is_true(cond):
            return True
        if z3.is_false(cond):
            return False
        if self.pos < len(self.decisions):
            v = self.decisions[self.pos][0]
        else:
            can_t = self.feasible(cond)
            can_f = self.feasible(z3.Not(cond))
            if can_t and can_f:
                v = True
                self.decisions.append([True, True])
            elif can_t:
                v = True
                self.decisions.append([True, False])
            elif can_f:
                v = False
                self.decisions.append([False, False])
            else:
                raise PathInfeasible()
        self.pos += 1
        c = cond if v else z3.Not(cond)
        self.pc.append((c, self.lineno))
        if self._solver is not None:
            self._solver.add(c)
        return v

    def oblige(self, name, goal, **meta):
        """an obligation that must hold at this program point (hyps and pc so far => goal)"""
        if isinstance(goal, SB):
            goal = goal.t
        elif isinstance(goal, bool):
            goal = z3.BoolVal(goal)
        meta.setdefault("lineno", self.lineno)
        self.obligations.append((name, self.facts(), goal, meta))


CUR = [None]


def ctx():
    c = CUR[0]
    if c is None:
        raise RuntimeError("no active path context")
    return c


def explore(run_once, hyps_builder=None, max_paths=512):
    """run `run_once(ctx)` for every feasible path.  Returns list of (ctx, outcome) where outcome is
    ('return', value) | ('raise', ModelRaise) | ('unsupported', Unsupported)."""
    results = []
    decisions = []
    while True:
        c = PathCtx(decisions)
        CUR[0] = c
        try:
            try:
                v = run_once(c)
                out = ("return", v)
            except ModelRaise as e:
                out = ("raise", e)
            except PathInfeasible:
                out = None
            except Unsupported as e:
                if os.environ.get("VFW_TRACE"):
                    import traceback
                    traceback.print_exc()
                    print("  at source line", c.lineno)
                out = ("unsupported", e)
        finally:
            CUR[0] = None
        if out is not None:
            results.append((c, out))
        # next path: flip the last decision that still has an alternative
        d = c.decisions[: c.pos] if out is not None and out[0] != "unsupported" else c.decisions
        d = [list(x) for x in c.decisions]
        while d and not d[-1][1]:
            d.pop()
        if not d:
            break
        d[-1] = [not d[-1][0], False]
        decisions = d
        if len(results) >= max_paths:
            raise Unsupported(f"more than {max_paths} paths")
    return results


# ---------------------------------------------------------------------------------------------------------
# numbers


def _is_int_sort(t):
    return t.sort().kind() == z3.Z3_INT_SORT


def to_z3(x):
    """python number / SV / SB -> z3 arithmetic term"""
    if isinstance(x, SV):
        return x.t
    if z3.is_expr(x) and not z3.is_bool(x):
        return x
    if isinstance(x, SB):
        return z3.If(x.t, z3.IntVal(1), z3.IntVal(0))
    if isinstance(x, bool):
        return z3.IntVal(1 if x else 0)
    if isinstance(x, int):
        return z3.IntVal(x)
    if isinstance(x, float):
        if x != x or x in (float("inf"), float("-inf")):
            raise Unsupported("non-finite float constant")
        return z3.RealVal(Fraction(x))
    if isinstance(x, Fraction):
        return z3.RealVal(x)
    try:
        import numpy as np

        if isinstance(x, np.integer):
            return z3.IntVal(int(x))
        if isinstance(x, np.floating):
            return z3.RealVal(Fraction(float(x)))
        if isinstance(x, np.bool_):
            return z3.IntVal(1 if x else 0)
    except ImportError:
        pass
    raise Unsupported(f"cannot make a number of {type(x).__name__}")


def real(t):
    return z3.ToReal(t) if _is_int_sort(t) else t


def _coerce(a, b):
    ta, tb = to_z3(a), to_z3(b)
    if _is_int_sort(ta) and _is_int_sort(tb):
        return ta, tb, True
    return real(ta), real(tb), False


def is_num(x):
    if isinstance(x, (SV, SB, int, float, Fraction)):
        return True
    try:
        import numpy as np

        return isinstance(x, (np.integer, np.floating, np.bool_))
    except ImportError:
        return False


def zfloor(t):
    """floor as an Int term"""
    if _is_int_sort(t):
        return t
    return z3.ToInt(t)


def zceil(t):
    if _is_int_sort(t):
        return t
    return -z3.ToInt(-t)


class SV:
    """symbolic number.  .isint says whether Python would see an int (True) or a float (False)."""

    __slots__ = ("t", "ang")
    __array_ufunc__ = None  # numpy defers: ndarray <op> SV -> SV.__r<op>__ -> broadcast by hand below
    __hash__ = None

    def __init__(self, t, ang=None):
        self.t = t
        self.ang = ang  # optional angle bookkeeping (see theory.py)

    @property
    def isint(self):
        return _is_int_sort(self.t)

    def __repr__(self):
        return f"SV({z3.simplify(self.t)})"

    # arithmetic
    def _bin(self, o, f, swap=False):
        if not is_num(o):
            return _arr_bin(self, o, f, swap)
        a, b, _ = _coerce(o, self) if swap else _coerce(self, o)
        return SV(f(a, b))

    def __add__(self, o):
        r = self._bin(o, lambda a, b: a + b)
        return _ang_add(self, o, r, 1)

    def __radd__(self, o):
        r = self._bin(o, lambda a, b: a + b, True)
        return _ang_add(self, o, r, 1)

    def __sub__(self, o):
        r = self._bin(o, lambda a, b: a - b)
        return _ang_add(self, o, r, -1)

    def __rsub__(self, o):
        r = self._bin(o, lambda a, b: a - b, True)
        return _ang_add(o, self, r, -1)

    def __mul__(self, o):
        r = self._bin(o, lambda a, b: a * b)
        return _ang_mul(self, o, r)

    def __rmul__(self, o):
        r = self._bin(o, lambda a, b: a * b, True)
        return _ang_mul(self, o, r)

    def __truediv__(self, o):
        if not is_num(o):
            return _arr_bin(self, o, lambda a, b: real(a) / real(b), False)
        a, b = real(to_z3(self)), real(to_z3(o))
        _div_guard(b)
        r = SV(a / b)
        if isinstance(o, (int, float)) and o != 0:
            return _ang_mul(self, Fraction(1) / Fraction(o), r)
        return r

    def __rtruediv__(self, o):
        if not is_num(o):
            _div_guard(real(self.t))
            return _arr_bin(self, o, lambda a, b: real(a) / real(b), True)
        a, b = real(to_z3(o)), real(to_z3(self))
        _div_guard(b)
        return SV(a / b)

    def __floordiv__(self, o):
        if not is_num(o):
            return NotImplemented
        return floordiv(self, o)

    def __rfloordiv__(self, o):
        if not is_num(o):
            return NotImplemented
        return floordiv(o, self)

    def __mod__(self, o):
        if not is_num(o):
            return NotImplemented
        return pymod(self, o)

    def __rmod__(self, o):
        if not is_num(o):
            return NotImplemented
        return pymod(o, self)

    def __pow__(self, o):
        if isinstance(o, int) and 0 <= o <= 8:
            r = SV(z3.IntVal(1) if self.isint else z3.RealVal(1))
            for _ in range(o):
                r = r * self
            return r
        if isinstance(o, float) and o == 0.5:
            from . import theory

            return theory.sqrt(self)
        from . import theory

        return theory.power(self, o)

    def __rpow__(self, o):
        from . import theory

        return theory.power(o, self)

    def __neg__(self):
        r = SV(-self.t)
        if self.ang is not None:
            r.ang = self.ang.scale(-1)
        return r

    def __pos__(self):
        return self

    def __abs__(self):
        c = CUR[0]
        if c is None or self.isint:
            return SV(z3.If(self.t >= 0, self.t, -self.t))
        # |x| as a fresh non-negative number a with a^2 = x^2 (gives the polynomial back ends a square rule)
        memo = c.__dict__.setdefault("_abs", {})
        t = z3.simplify(self.t)
        k = t.sexpr()
        if k not in memo:
            a = c.fresh("abs")
            c.axiom("abs(x)=a: a>=0, a*a=x*x, a=x or a=-x", z3.And(a >= 0, a * a == t * t, z3.Or(a == t, a == -t), a == z3.If(t >= 0, t, -t)))
            memo[k] = a
        return SV(memo[k])

    # comparisons
    def _cmp(self, o, f):
        if not is_num(o):
            return NotImplemented
        a, b, _ = _coerce(self, o)
        return SB(f(a, b))

    def __lt__(self, o):
        return self._cmp(o, lambda a, b: a < b)

    def __le__(self, o):
        return self._cmp(o, lambda a, b: a <= b)

    def __gt__(self, o):
        return self._cmp(o, lambda a, b: a > b)

    def __ge__(self, o):
        return self._cmp(o, lambda a, b: a >= b)

    def __eq__(self, o):
        if o is None or isinstance(o, str):
            return False
        return self._cmp(o, lambda a, b: a == b)

    def __ne__(self, o):
        if o is None or isinstance(o, str):
            return True
        return self._cmp(o, lambda a, b: a != b)

    def __bool__(self):
        return bool(self != 0)

    # conversions
    def __float__(self):
        raise Unsupported("float() of a symbolic number outside the interpreter")

    def __index__(self):
        raise Unsupported("symbolic number used as a concrete index / size")

    def __int__(self):
        raise Unsupported("int() of a symbolic number outside the interpreter")

    def __round__(self, nd=None):
        return pyround(self, nd)

    def __floor__(self):
        return SV(zfloor(self.t))

    def __ceil__(self):
        return SV(zceil(self.t))

    def __trunc__(self):
        return pyint(self)

    # numpy object-array ufunc hooks (np.sqrt(obj_array) calls elem.sqrt())
    def sqrt(self):
        from . import theory

        return theory.sqrt(self)

    def cos(self):
        from . import theory

        return theory.cos(self)

    def sin(self):
        from . import theory

        return theory.sin(self)

    def arccos(self):
        from . import theory

        return theory.arccos(self)

    def exp(self):
        from . import theory

        return theory.exp(self)

    def deg2rad(self):
        from . import theory

        return theory.deg2rad(self)

    def radians(self):
        return self.deg2rad()

    def rad2deg(self):
        from . import theory

        return theory.rad2deg(self)

    def degrees(self):
        return self.rad2deg()

    def floor(self):
        return SV(z3.ToReal(zfloor(self.t)))

    def ceil(self):
        return SV(z3.ToReal(zceil(self.t)))

    def conjugate(self):
        return self

    def astype(self, t, *a, **k):
        nm = getattr(t, "__name__", str(t))
        if nm in ("int", "_b_int", "int64", "int32", "int_"):
            return pyint(self)
        return pyfloat(self)

    def item(self):
        return self


def _arr_bin(s, o, f, swap):
    """SV <op> numpy array: element-wise"""
    try:
        import numpy as np
    except ImportError:
        return NotImplemented
    if not isinstance(o, np.ndarray):
        return NotImplemented
    out = np.empty(o.shape, dtype=object)
    for i in np.ndindex(o.shape):
        a, b, _ = _coerce(o[i], s) if swap else _coerce(s, o[i])
        out[i] = SV(f(a, b))
    from .models.npm import OA
    return out.view(OA)


def _ang_add(a, b, r, sign):
    if r is NotImplemented:
        return r
    aa = getattr(a, "ang", None)
    bb = getattr(b, "ang", None)
    if aa is None and bb is None:
        return r
    from . import theory

    r.ang = theory.ang_add(a, b, sign)
    return r


def _ang_mul(a, k, r):
    if r is NotImplemented:
        return r
    if getattr(a, "ang", None) is None:
        return r
    if isinstance(k, (int, float, Fraction)) and not isinstance(k, bool):
        r.ang = a.ang.scale(Fraction(k))
    return r


def _div_guard(b):
    """division: the divisor must be provably non-zero at this point (safe obligation)"""
    c = CUR[0]
    if c is None:
        return
    sb = z3.simplify(b != 0)
    if z3.is_true(sb):
        return
    c.oblige("safe.div-nonzero", b != 0, kind="safe")


def floordiv(a, b):
    ta, tb, ints = _coerce(a, b)
    _div_guard(tb)
    if ints:
        # z3 int div rounds so that the remainder is non-negative; Python floors
        return SV(z3.If(tb > 0, ta / tb, (-ta) / (-tb)))
    return SV(z3.ToReal(z3.ToInt(ta / tb)))


def pymod(a, b):
    ta, tb, ints = _coerce(a, b)
    q = floordiv(a, b).t
    if ints:
        return SV(ta - tb * q)
    return SV(ta - tb * q)


def pyint(x):
    """int(x): truncation toward zero"""
    if isinstance(x, (int, float)):
        return int(x)
    t = to_z3(x)
    if _is_int_sort(t):
        return SV(t)
    return SV(z3.If(t >= 0, z3.ToInt(t), -z3.ToInt(-t)))


def pyfloat(x):
    if isinstance(x, (int, float)):
        return float(x)
    return SV(real(to_z3(x)), getattr(x, "ang", None))


def pyround(x, nd=None):
    """round(): banker's rounding to an int (nd None) -- Python 3 semantics"""
    if nd is not None:
        raise Unsupported("round(x, ndigits) on a symbolic number")
    t = real(to_z3(x))
    f = z3.ToInt(t + z3.RealVal("1/2"))
    tie = z3.ToReal(f) == t + z3.RealVal("1/2")
    odd = f % 2 != 0
    return SV(z3.If(z3.And(tie, odd), f - 1, f))


def round_half_away(x):
    """decimal ROUND_HALF_UP == numpy-unlike 'half away from zero'; result as a Real-valued integer"""
    t = real(to_z3(x))
    h = z3.RealVal("1/2")
    return SV(z3.ToReal(z3.If(t >= 0, z3.ToInt(t + h), -z3.ToInt(-t + h))))


def ite(c, a, b):
    """symbolic if-then-else on numbers without forking"""
    if isinstance(c, bool):
        return a if c else b
    if isinstance(c, SB):
        c = c.t
    if isinstance(a, (SB, bool)) and isinstance(b, (SB, bool)):
        return SB(z3.If(c, to_bool(a), to_bool(b)))
    ta, tb, _ = _coerce(a, b)
    r = SV(z3.If(c, ta, tb))
    if (isinstance(a, SV) and a.ang is not None) or (isinstance(b, SV) and b.ang is not None):
        # a choice between angle-valued numbers: remembered so that cos/sin distribute over the choice (theory.cs_any)
        ITE_PARTS[r.t.get_id()] = (c, a, b, r.t)
    return r


ITE_PARTS = {}


def _entailed(cond):
    """True when the current path's facts entail cond (cheap check; False also when undecided)"""
    c = CUR[0]
    if c is None:
        return False
    try:
        return not c.feasible(z3.Not(cond.t if isinstance(cond, SB) else cond))
    except Exception:
        return False


def smin(a, b):
    if not (isinstance(a, SV) or isinstance(b, SV)):
        return min(a, b)
    le = a <= b
    if _entailed(le):
        return a if isinstance(a, SV) else SV(real(to_z3(a)))
    if _entailed(b <= a):
        return b if isinstance(b, SV) else SV(real(to_z3(b)))
    return ite(le, a, b)


def smax(a, b):
    if not (isinstance(a, SV) or isinstance(b, SV)):
        return max(a, b)
    ge = a >= b
    if _entailed(ge):
        return a if isinstance(a, SV) else SV(real(to_z3(a)))
    if _entailed(b >= a):
        return b if isinstance(b, SV) else SV(real(to_z3(b)))
    return ite(ge, a, b)


# ---------------------------------------------------------------------------------------------------------
# booleans


def to_bool(x):
    """truthiness as a z3 Bool"""
    if isinstance(x, SB):
        return x.t
    if isinstance(x, bool):
        return z3.BoolVal(x)
    if isinstance(x, SV):
        return x.t != 0
    if z3.is_expr(x) and z3.is_bool(x):
        return x
    try:
        import numpy as np

        if isinstance(x, np.bool_):
            return z3.BoolVal(bool(x))
    except ImportError:
        pass
    if isinstance(x, (int, float)):
        return z3.BoolVal(bool(x))
    if x is None:
        return z3.BoolVal(False)
    if isinstance(x, (list, tuple, dict, str, set)):
        return z3.BoolVal(bool(x))
    raise Unsupported(f"truthiness of {type(x).__name__}")


class SB:
    __slots__ = ("t",)
    __array_priority__ = 1000
    __hash__ = None

    def __init__(self, t):
        self.t = t

    def __repr__(self):
        return f"SB({z3.simplify(self.t)})"

    def __bool__(self):
        return ctx().decide(self.t)

    def __and__(self, o):
        return SB(z3.And(self.t, to_bool(o)))

    __rand__ = __and__

    def __or__(self, o):
        return SB(z3.Or(self.t, to_bool(o)))

    __ror__ = __or__

    def __xor__(self, o):
        return SB(z3.Xor(self.t, to_bool(o)))

    __rxor__ = __xor__

    def __invert__(self):
        return SB(z3.Not(self.t))

    def logical_not(self):
        return SB(z3.Not(self.t))

    def _num(self):
        return SV(z3.If(self.t, z3.IntVal(1), z3.IntVal(0)))

    def __eq__(self, o):
        if isinstance(o, (SB, bool)):
            return SB(self.t == to_bool(o))
        return self._num() == o

    def __ne__(self, o):
        if isinstance(o, (SB, bool)):
            return SB(self.t != to_bool(o))
        return self._num() != o

    def __lt__(self, o):
        return self._num() < o

    def __le__(self, o):
        return self._num() <= o

    def __gt__(self, o):
        return self._num() > o

    def __ge__(self, o):
        return self._num() >= o

    def __add__(self, o):
        return self._num() + o

    __radd__ = __add__

    def __mul__(self, o):
        return self._num() * o

    __rmul__ = __mul__

    def __sub__(self, o):
        return self._num() - o

    def __rsub__(self, o):
        return o - self._num()

    def __neg__(self):
        return -self._num()


def s_all(xs):
    """Python all(): truthiness of every element, no forking"""
    xs = list(xs)
    if all(not isinstance(x, (SV, SB)) for x in xs):
        return all(xs)
    return SB(z3.And(*[to_bool(x) for x in xs]))


def s_any(xs):
    xs = list(xs)
    if all(not isinstance(x, (SV, SB)) for x in xs):
        return any(xs)
    return SB(z3.Or(*[to_bool(x) for x in xs]))


def s_not(x):
    if isinstance(x, (SB, SV)):
        return SB(z3.Not(to_bool(x)))
    return not x


def sym_real(name):
    return SV(z3.Real(name))


def sym_int(name):
    return SV(z3.Int(name))


def sym_bool(name):
    return SB(z3.Bool(name))
