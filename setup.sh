#!/bin/bash
# Offline overlay venv: python 3.12 (same interpreter as /venv) + solver/contract wheels from the
# local wheelhouse, with /venv's site-packages appended so that `import cryocat` is /repo/cryocat.
set -e
cd "$(dirname "$0")"
V=.venv
if [ -x "$V/bin/python" ] && "$V/bin/python" -c "import z3, sympy, jsonschema, cryocat, pandas" 2>/dev/null; then
  echo "venv ok"; exit 0
fi
rm -rf "$V"
/venv/bin/python -m venv "$V"
PIP_NO_INDEX=1 "$V/bin/pip" install -q --no-index --find-links /opt/veriftools/wheels z3-solver sympy jsonschema crosshair-tool deal icontract cvc5 >/dev/null
SP=$("$V/bin/python" -c "import site; print(site.getsitepackages()[0])")
echo "import site; site.addsitedir('/venv/lib/python3.12/site-packages')" > "$SP/_repo_overlay.pth"
"$V/bin/python" -c "import z3, sympy, jsonschema, cryocat, pandas; print('venv built', z3.get_version_string(), pandas.__version__, cryocat.__file__)"
