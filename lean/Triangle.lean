/-
C06, triangle inequality of the angular distance between orientations (lemma [L], no code involved).

Orientations are unit quaternions q ∈ S³ ⊂ ℝ⁴ up to sign.  The contract of geom.angular_distance proves (trace form)
    cos θ(A,B) = (tr(R_Aᵀ R_B) − 1)/2 = 2⟨q_A,q_B⟩² − 1 = cos(2α),    α = ∠(q_A,q_B)
(the middle equality is the polynomial lemma `trace_is_quaternion_inner_product` discharged by the SMT back end), with θ ∈ [0,π], hence
    θ(A,B) = 2·min(α, π − α).
The statement below is the triangle inequality of  pdist a b = min(∠(a,b), π − ∠(a,b))  in any real inner product space; the
factor 2 is common to both sides.
-/
import Mathlib.Geometry.Euclidean.Angle.Unoriented.TriangleInequality

open InnerProductGeometry Real

variable {V : Type*} [NormedAddCommGroup V] [InnerProductSpace ℝ V]

/-- distance between the lines spanned by `a` and `b` -/
noncomputable def pdist (a b : V) : ℝ := min (angle a b) (π - angle a b)

theorem pdist_triangle (x y z : V) : pdist x z ≤ pdist x y + pdist y z := by
  unfold pdist
  have h1 := angle_le_angle_add_angle x y z
  have h2 := angle_le_angle_add_angle x (-y) z
  have h3 := angle_le_angle_add_angle x y (-z)
  have h4 := angle_le_angle_add_angle x (-y) (-z)
  rw [angle_neg_right, angle_neg_left] at h2
  rw [angle_neg_right, angle_neg_right] at h3
  rw [angle_neg_right, angle_neg_right, angle_neg_neg] at h4
  rcases le_total (angle x z) (π - angle x z) with hxz | hxz <;>
  rcases le_total (angle x y) (π - angle x y) with hxy | hxy <;>
  rcases le_total (angle y z) (π - angle y z) with hyz | hyz <;>
  simp only [min_eq_left, min_eq_right, hxz, hxy, hyz] <;> linarith

theorem pdist_comm (x y : V) : pdist x y = pdist y x := by
  unfold pdist; rw [angle_comm]

theorem pdist_nonneg (x y : V) : 0 ≤ pdist x y := by
  unfold pdist
  exact le_min (angle_nonneg x y) (sub_nonneg.mpr (angle_le_pi x y))

theorem pdist_le_half_pi (x y : V) : pdist x y ≤ π / 2 := by
  unfold pdist
  rcases le_total (angle x y) (π / 2) with h | h
  · exact (min_le_left _ _).trans h
  · exact (min_le_right _ _).trans (by linarith)
