/-
C19, counting lemma used by the contract of ribana.add_chain_prefix (lemma [L], no code involved).

The chain invariant of the traced table says: the order numbers of the members of one chain are distinct, >= 1, and every member with
order > 1 has a predecessor with order - 1.  As a set S of naturals: downward closed towards 1.  Then the number of members with an order
below t (t an order of the chain) is t - 1 -- this is what `cut_off_size = rows(order < order_id).shape[0]` relies on.
-/
import Mathlib.Order.Interval.Finset.Nat
import Mathlib.Tactic

open Finset

theorem chain_mem_of_le (S : Finset ℕ) (h2 : ∀ x ∈ S, 1 < x → x - 1 ∈ S) (t : ℕ) (ht : t ∈ S) :
    ∀ d y : ℕ, y + d = t → 1 ≤ y → y ∈ S := by
  intro d
  induction d with
  | zero => intro y hy _; simpa [← hy] using ht
  | succ n ih =>
    intro y hy h1y
    have h : (y + 1) ∈ S := ih (y + 1) (by omega) (by omega)
    have := h2 (y + 1) h (by omega)
    simpa using this

theorem count_below (S : Finset ℕ) (h1 : ∀ x ∈ S, 1 ≤ x) (h2 : ∀ x ∈ S, 1 < x → x - 1 ∈ S) (t : ℕ) (ht : t ∈ S) :
    (S.filter (fun x => x < t)).card = t - 1 := by
  have hfil : S.filter (fun x => x < t) = Finset.Icc 1 (t - 1) := by
    ext y
    simp only [mem_filter, mem_Icc]
    constructor
    · rintro ⟨hy, hlt⟩
      exact ⟨h1 y hy, by omega⟩
    · rintro ⟨h1y, hle⟩
      have hyt : y ≤ t := by omega
      refine ⟨chain_mem_of_le S h2 t ht (t - y) y (by omega) h1y, ?_⟩
      have := h1 t ht
      omega
  rw [hfil, Nat.card_Icc]
  omega
