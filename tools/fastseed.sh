#!/bin/bash
# detection pass on a patched snapshot: prints per seed the deductive clauses and bounded runs that fail
sid=$1; prop=${sid%%-*}
d=/tmp/fs_$sid; rm -rf $d; mkdir -p $d; git -C /repo archive HEAD | tar -x -C $d
(cd $d && git init -q . 2>/dev/null && git apply /verif/seeded/$sid/patch.diff) || { echo "$sid APPLY-FAILED"; rm -rf $d; exit; }
cd /verif; out=$(VERIF_OUT=$d/_out VERIF_REPO=$d PYTHONPATH=$d VERIF_SEED=1 ./check $prop --tier quick 2>&1); rc=$?
nd=$(echo "$out" | grep -c "VIOLATION.*replays/$prop-$prop\.")
nb=$(echo "$out" | grep "VIOLATION" | grep -vc "replays/$prop-$prop\.")
echo "$sid rc=$rc D=$nd B=$nb $(echo "$out" | grep -E '^\[C' | head -1 | sed 's/.*undecided/undecided/')"
echo "$out" | grep "VIOLATION.*replays/$prop-$prop\." | sed 's/.*replays\///; s/-[0-9a-f]*\.json.*//' | head -6 | sed 's/^/     D /'
echo "$out" | grep -E "UNDECIDED|CHECKER-FAULT" | head -3 | cut -c1-200 | sed 's/^/     /'
rm -rf $d
