#!/usr/bin/env python3
"""print source of functions without docstrings: src.py module qualname [qualname...]"""
import ast, sys
mod = sys.argv[1]
path = f"/repo/cryocat/{mod}.py"
src = open(path).read(); tree = ast.parse(src); lines = src.splitlines()
def find(body, parts):
    for n in body:
        if isinstance(n, (ast.FunctionDef, ast.ClassDef)) and n.name == parts[0]:
            return n if len(parts) == 1 else find(n.body, parts[1:])
for q in sys.argv[2:]:
    n = find(tree.body, q.split("."))
    if n is None: print("NOT FOUND", q); continue
    skip = set()
    for sub in ast.walk(n):
        if isinstance(sub, (ast.FunctionDef, ast.ClassDef)) and sub.body and isinstance(sub.body[0], ast.Expr) and isinstance(sub.body[0].value, ast.Constant) and isinstance(sub.body[0].value.value, str):
            d = sub.body[0]; skip.update(range(d.lineno, d.end_lineno + 1))
    print(f"### {mod}.{q}  [{n.lineno}-{n.end_lineno}]")
    for i in range(n.lineno, n.end_lineno + 1):
        if i in skip or not lines[i-1].strip(): continue
        print(f"{i:5d} {lines[i-1]}")
