#!/bin/bash
# $1 = property, $2 = file (relative), $3 = sed expression (harmless edit)
prop=$1; file=$2; expr=$3
d=/tmp/harm_$$; rm -rf $d; mkdir $d; git -C /repo archive HEAD | tar -x -C $d
sed -i "$expr" $d/$file
if diff -q <(git -C /repo show HEAD:$file) $d/$file >/dev/null; then echo "$prop [$expr] NO-CHANGE"; rm -rf $d; exit; fi
/venv/bin/python -m py_compile $d/$file || { echo "$prop [$expr] DOES-NOT-COMPILE"; rm -rf $d; exit; }
out=$(cd /verif && VERIF_OUT=$d/_out VERIF_REPO=$d PYTHONPATH=$d ./check $prop --tier quick 2>&1); rc=$?
echo "$prop [$expr] rc=$rc $(echo "$out" | grep -E '^\[C' | sed 's/.*undecided/undecided/')"
echo "$out" | grep -E "VIOLATION|UNDECIDED|FAULT" | head -3 | cut -c1-220
rm -rf $d
