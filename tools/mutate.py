#!/usr/bin/env python3
"""systematic first-order mutation probe of the anchored code (development aid, not a registered check):
   tools/mutate.py Cxx [n_mutants] [seed]
For the functions named in the property's anchors (line ranges of properties.jsonl, shifted to the current function boundaries) generate
AST-level mutants (comparison / arithmetic operator flips, small-constant changes, axis/field-name swaps, dropped unary minus, and<->or),
write each into a scratch copy of the tree under /tmp, run `./check Cxx --tier quick` against it (VERIF_REPO / PYTHONPATH / VERIF_OUT) and
report the exit code and whether a deductive obligation (D) or a bounded run (B) caught it.  Survivors (exit 0) are listed with their diff
for manual triage: equivalent mutant, outside the property, or a weakness of the check."""
import ast, copy, json, os, random, re, shutil, subprocess, sys, difflib
V = os.path.dirname(os.path.dirname(os.path.abspath(__file__)))
REPO = "/repo"
prop = sys.argv[1]
nmax = int(sys.argv[2]) if len(sys.argv) > 2 else 12
rng = random.Random(int(sys.argv[3]) if len(sys.argv) > 3 else 7)
P = [json.loads(l) for l in open(f"{V}/properties.jsonl")]
pr = next(p for p in P if p["id"] == prop)
ranges = {}
for m in pr["anchors"]["mechanism"]:
    w = m["where"]
    mm = re.match(r"(\S+?):(\d+)-(\d+)", w)
    if mm:
        ranges.setdefault(mm.group(1), []).append((int(mm.group(2)), int(mm.group(3))))
# add the functions under contract from the evidence (current line numbers)
try:
    ev = json.load(open(f"{V}/evidence/{prop}.json"))
    for f in ev["coverage"]["functions_under_contract"]:
        ranges.setdefault(f["file"], []).append(tuple(f["lines"]))
except Exception:
    pass
SWAPS = [("x", "y"), ("y", "z"), ("phi", "psi"), ("theta", "psi"), ("shift_x", "shift_y"), ("shift_y", "shift_z"), ("width", "height"), ("tomo_id", "object_id"), ("geom2", "geom5")]
CMP = {ast.Lt: ast.LtE, ast.LtE: ast.Lt, ast.Gt: ast.GtE, ast.GtE: ast.Gt, ast.Eq: ast.NotEq, ast.NotEq: ast.Eq}
BIN = {ast.Add: ast.Sub, ast.Sub: ast.Add, ast.Mult: ast.Div, ast.FloorDiv: ast.Div, ast.Div: ast.FloorDiv}


def sites(fn):
    out = []
    skip = set()
    for n in ast.walk(fn):
        if isinstance(n, (ast.Raise, ast.Assert)) or (isinstance(n, ast.Expr) and isinstance(n.value, ast.Call) and getattr(n.value.func, "id", getattr(n.value.func, "attr", "")) in ("print", "warn")):
            for s in ast.walk(n):
                skip.add(id(s))
        if isinstance(n, ast.Expr) and isinstance(n.value, ast.Constant):
            skip.add(id(n.value))
    for n in ast.walk(fn):
        if id(n) in skip:
            continue
        if isinstance(n, ast.Compare):
            for i, op in enumerate(n.ops):
                if type(op) in CMP:
                    out.append(("cmp", n, i))
        elif isinstance(n, ast.BinOp) and type(n.op) in BIN:
            out.append(("bin", n, None))
        elif isinstance(n, ast.Constant) and isinstance(n.value, int) and not isinstance(n.value, bool) and -3 <= n.value <= 20:
            out.append(("const", n, +1)); out.append(("const", n, -1))
        elif isinstance(n, ast.Constant) and isinstance(n.value, str) and any(n.value in s for s in SWAPS):
            out.append(("str", n, None))
        elif isinstance(n, ast.UnaryOp) and isinstance(n.op, ast.USub) and not isinstance(n.operand, ast.Constant):
            out.append(("neg", n, None))
        elif isinstance(n, ast.BoolOp):
            out.append(("bool", n, None))
    return out


def apply(kind, n, arg):
    if kind == "cmp":
        n.ops[arg] = CMP[type(n.ops[arg])]()
    elif kind == "bin":
        n.op = BIN[type(n.op)]()
    elif kind == "const":
        n.value = n.value + arg
    elif kind == "str":
        for a, b in SWAPS:
            if n.value == a:
                n.value = b; break
            if n.value == b:
                n.value = a; break
    elif kind == "neg":
        n.op = ast.UAdd()
    elif kind == "bool":
        n.op = ast.Or() if isinstance(n.op, ast.And) else ast.And()


cands = []
for file, rs in ranges.items():
    src = open(f"{REPO}/{file}").read()
    tree = ast.parse(src)
    fns = [n for n in ast.walk(tree) if isinstance(n, (ast.FunctionDef,))]
    for fn in fns:
        if any(not (fn.end_lineno < a - 40 or fn.lineno > b + 40) and (fn.lineno <= b and fn.end_lineno >= a) for a, b in rs):
            # innermost functions only once: skip a function that contains another selected function entirely? keep both; duplicates harmless
            for k, (kind, n, arg) in enumerate(sites(fn)):
                cands.append((file, fn.name, fn.lineno, k))
rng.shuffle(cands)
seen, picked = set(), []
for c in cands:
    if len(picked) >= nmax:
        break
    picked.append(c)
results = []
for mi, (file, fname, flineno, k) in enumerate(picked):
    src = open(f"{REPO}/{file}").read()
    tree = ast.parse(src)
    fn = next(n for n in ast.walk(tree) if isinstance(n, ast.FunctionDef) and n.name == fname and n.lineno == flineno)
    kind, node, arg = sites(fn)[k]
    before = ast.unparse(node) if not isinstance(node, ast.Constant) else repr(node.value)
    line = getattr(node, "lineno", fn.lineno)
    apply(kind, node, arg)
    after = ast.unparse(node) if not isinstance(node, ast.Constant) else repr(node.value)
    lines = src.split("\n")
    ind = re.match(r"\s*", lines[fn.lineno - 1]).group(0)
    start = (fn.decorator_list[0].lineno if fn.decorator_list else fn.lineno) - 1
    new_fn = "\n".join(ind + l if l else l for l in ast.unparse(fn).split("\n"))
    new_src = "\n".join(lines[:start] + [new_fn] + lines[fn.end_lineno:])
    try:
        compile(new_src, file, "exec")
    except SyntaxError:
        continue
    d = f"/tmp/mut_{prop}_{mi}"
    shutil.rmtree(d, ignore_errors=True)
    os.makedirs(d)
    subprocess.run(f"git -C {REPO} archive HEAD | tar -x -C {d}", shell=True, check=True)
    open(f"{d}/{file}", "w").write(new_src)
    env = dict(os.environ, VERIF_OUT=f"{d}/_out", VERIF_REPO=d, PYTHONPATH=d, VERIF_SEED="1")
    r = subprocess.run(f"./check {prop} --tier quick", shell=True, cwd=V, env=env, capture_output=True, text=True)
    out = r.stdout + r.stderr
    nd = len(re.findall(rf"VIOLATION.*replays/{prop}-{prop}\.", out))
    nb = len(re.findall(r"VIOLATION", out)) - nd
    und = "UNDECIDED" in out
    fault = "CHECKER-FAULT" in out
    results.append({"file": file, "function": fname, "line": line, "kind": kind, "before": before, "after": after, "rc": r.returncode, "D": nd, "B": nb, "undecided": und, "fault": fault})
    print(f"{prop} {fname}:{line} {kind}: {before[:60]!r} -> {after[:60]!r}  rc={r.returncode} D={nd} B={nb}{' UNDECIDED' if und else ''}{' FAULT' if fault else ''}", flush=True)
    shutil.rmtree(d, ignore_errors=True)
json.dump(results, open(f"/tmp/mutres_{prop}.json", "w"), indent=1)
surv = [r for r in results if r["rc"] == 0]
print(f"{prop}: {len(results)} mutants, {len(results) - len(surv)} detected, {len(surv)} survived")
