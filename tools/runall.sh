#!/bin/bash
# run every registered quick check sequentially; print one line per property
cd /verif
for p in $(python3 -c "import json; print(' '.join(c['property_id'] for c in json.load(open('MANIFEST.json'))['checks']))"); do
  s=$(date +%s); out=$(VERIF_SEED=${VERIF_SEED:-1} ./check $p --tier ${1:-quick} 2>&1); rc=$?; e=$(( $(date +%s) - s ))
  echo "$p rc=$rc ${e}s $(echo "$out" | grep -E '^\[C' | head -1)"
  echo "$out" | grep -E 'VIOLATION|CHECKER-FAULT|KNOWN-FINDING|undecided:|out-of-reach' | cut -c1-220
done
