#!/usr/bin/env python3
"""copy seeded changes from scratch worktrees into /verif/seeded/<id>/ and record the evaluation: tools/keepseeds.py C01 C03 ..."""
import json, os, shutil, subprocess, sys
TESTS = {"C01": "tests/test_cryomotl.py", "C03": "tests/test_cryomotl.py,tests/test_starfileio.py", "C05": "tests/test_cryomotl.py", "C06": "tests/test_geom.py,tests/test_cryomotl.py", "C08": "tests/test_cryomotl.py",
         "C09": "tests/test_cryomotl.py", "C11": "tests/test_cryomap.py", "C13": "tests/test_cryomask.py,tests/test_cryomap.py", "C15": "tests/test_tiltstack.py,tests/test_ioutils.py", "C20": "tests/test_cryomap.py,tests/test_geom.py",
         "C02": "tests/test_starfileio.py,tests/test_cryomotl.py,tests/test_wedgeutils.py,tests/test_ioutils.py", "C04": "tests/test_cryomotl.py,tests/test_wedgeutils.py,tests/test_starfileio.py", "C07": "tests/test_cryomotl.py,tests/test_pana.py,tests/test_geom.py", "C10": "tests/test_cryomotl.py", "C12": "tests/test_cryomap.py,tests/test_cryomask.py,tests/test_pana.py",
         "C14": "tests/test_cryomap.py,tests/test_cryomask.py,tests/test_geom.py,tests/test_wedgeutils.py,tests/test_pana.py", "C16": "tests/test_tiltstack.py,tests/test_ioutils.py", "C17": "tests/test_ioutils.py,tests/test_wedgeutils.py,tests/test_tiltstack.py,tests/test_starfileio.py", "C18": "tests/test_geom.py,tests/test_cryomotl.py,tests/test_pana.py", "C19": "tests/test_geom.py,tests/test_cryomotl.py,tests/test_mathutils.py"}
OFFSET = int(os.environ.get("SEED_OFFSET", "0"))  # later rounds: m1/m2 of the round are stored as m(1+OFFSET)/m(2+OFFSET)
for prop in [a for a in sys.argv[1:] if not a.startswith("-")]:
    for m in ("m1", "m2"):
        src = f"/tmp/wt_{prop}/_seed/{m}"
        if not os.path.exists(src + "/patch.diff"):
            continue
        sid = f"{prop}-m{int(m[1:]) + OFFSET}"
        dst = f"/verif/seeded/{sid}"
        os.makedirs(dst, exist_ok=True)
        for f in ("patch.diff", "demo.py", "notes.md"):
            if os.path.exists(f"{src}/{f}"):
                shutil.copy(f"{src}/{f}", f"{dst}/{f}")
        r = subprocess.run(f"python3 /verif/tools/seedtest.py {prop} {dst} --tests {TESTS[prop]}", shell=True, capture_output=True, text=True)
        try:
            res = json.loads(r.stdout.strip().splitlines()[-1])
        except Exception:
            res = {"error": (r.stdout + r.stderr)[-500:]}
        notes = open(f"{dst}/notes.md").read() if os.path.exists(f"{dst}/notes.md") else ""
        meta = {"id": sid, "breaks_property": prop, "source": "independent sub-agent given only the property text and a scratch worktree",
                "needs_to_manifest": notes[:1500],
                "what_was_run": [f"demo.py on the clean tree (exit {res.get('demo_clean_rc')}) and with the patch applied in /repo (exit {res.get('demo_patched_rc')})",
                                 f"pytest {TESTS[prop]} before/after: pass set lost={res.get('tests_lost')} gained={res.get('tests_gained')}",
                                 f"./check {prop} --tier quick with the patch applied: exit {res.get('check_rc')}"],
                "confirmed": bool(res.get("demo_clean_rc") == 0 and res.get("demo_patched_rc") not in (0, None) and not res.get("tests_lost")),
                "detected_by_check": res.get("check_rc") == 1, "check_output": res.get("check_lines")}
        json.dump(meta, open(f"{dst}/meta.json", "w"), indent=1)
        print(sid, "confirmed" if meta["confirmed"] else "NOT-CONFIRMED", "detected" if meta["detected_by_check"] else "MISSED", res.get("tests_lost"))
