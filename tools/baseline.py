#!/usr/bin/env python3
"""run the pinned baseline (guard off) and compare with /root/.vp/BASELINE.json stable_pass. exit 0 iff all stable tests pass"""
import json, subprocess, sys, tempfile, os, xml.etree.ElementTree as ET
b = json.load(open("/root/.vp/BASELINE.json"))
out = tempfile.mktemp(suffix=".xml")
env = dict(os.environ); env.pop("TURONOVA_CRYOCAT_VERIF", None)
subprocess.run(b["cmd"].replace("<file>", out), shell=True, env=env, stdout=subprocess.DEVNULL, stderr=subprocess.DEVNULL)
passed = set()
for tc in ET.parse(out).getroot().iter("testcase"):
    if not any(ch.tag in ("failure", "error", "skipped") for ch in tc):
        passed.add(f"{tc.get('classname')}::{tc.get('name')}")
os.unlink(out)
missing = [t for t in b["stable_pass"] if t not in passed]
print(f"passed={len(passed)} stable={len(b['stable_pass'])} missing={len(missing)}")
for m in missing: print("  MISSING", m)
subprocess.run("cd /repo && git clean -fdq && git status --short | head", shell=True)
sys.exit(1 if missing else 0)
