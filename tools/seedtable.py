#!/usr/bin/env python3
"""render the table of seeded changes for DESIGN.md from /verif/seeded/*/meta.json"""
import glob, json, os, re
V = os.path.dirname(os.path.dirname(os.path.abspath(__file__)))
rows = []
DET = json.load(open(f"{V}/seeded/detection.json")) if os.path.exists(f"{V}/seeded/detection.json") else {}
for d in sorted(glob.glob(f"{V}/seeded/*/")):
    if not os.path.exists(d + "meta.json"):
        continue
    m = json.load(open(d + "meta.json"))
    notes = [l.strip("-# ").strip() for l in m.get("needs_to_manifest", "").splitlines() if l.strip()]
    what = next((l for l in notes if l.lower().startswith(("change", "what"))), notes[1] if len(notes) > 1 else (notes[0] if notes else ""))
    what = re.sub(r"^(change|what)[^:]*:\s*", "", what, flags=re.I)
    what = re.sub(r"\s+", " ", what).replace("|", "/")[:230]
    D, B = set(), set()
    for l in m.get("check_output") or []:
        mm = re.search(r"replay=\S*/(C\d\d)-(.+?)-[0-9a-f]{10}\.json", l)
        if not mm:
            continue
        tag = mm.group(2)
        if tag.startswith(mm.group(1) + "."):
            t = re.sub(r"^C\d\d\.", "", tag)
            fn = t.split("_", 1)[0] if "." not in t else ".".join(t.split(".")[:2])
            D.add(re.sub(r"\.(post|safe|inv|model|pre|raises).*", "", t)[:60].rstrip("_"))
        else:
            B.add(tag)
    dd = DET.get(m["id"])
    if dd:  # latest classification run (all violations, not only the first lines kept in meta.json)
        D = set(re.sub(r"_+$", "", re.sub(r"\.(post|safe|inv|model|pre|raises|cross).*", "", c))[:60] for c in dd["deductive_clauses"])
        if dd["deductive_violations"] and not D:
            D = {"(deductive)"}
        if not dd["bounded_violations"]:
            B = set()
        elif not B:
            B = {"bounded run"}
    by = []
    if D:
        by.append("D: " + ", ".join(sorted(D))[:150])
    if B:
        by.append("B: " + ", ".join(sorted(B)))
    rows.append(f"| {m['id']} | {what} | {'; '.join(by) or '?'} | {'yes' if m.get('confirmed') else 'NO'} / {'yes' if m.get('detected_by_check') else 'NO'} |")
print("| id | change (from the seeder's notes) | caught by | confirmed / detected |")
print("|----|----------------------------------|-----------|----------------------|")
print("\n".join(rows))
