"""bounded dev: python tools/bdev.py c03 [n]"""
import sys, json, collections
sys.path.insert(0, "/verif")
import importlib, warnings; warnings.filterwarnings("ignore")
r = importlib.import_module("rtc." + sys.argv[1]); n = int(sys.argv[2]) if len(sys.argv) > 2 else 60
gen = getattr(r, sys.argv[3]) if len(sys.argv) > 3 else r.gen_cases
run = getattr(r, sys.argv[4]) if len(sys.argv) > 4 else r.run_case
cnt = collections.Counter()
for key, case in gen(0, n):
    try: res = run(case)
    except Exception as e:
        import traceback; res = {"crash": traceback.format_exc()[-800:]}
    if res is not None:
        k = json.dumps({a: b for a, b in res.items() if a in ("what", "raised", "crash", "via_file", "class")}, default=str)[:300]
        cnt[k] += 1
        if cnt[k] == 1: print(key, json.dumps(res, default=str)[:700])
print(cnt.most_common())
