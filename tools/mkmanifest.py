#!/usr/bin/env python3
"""regenerate MANIFEST.json from contracts/*.py metadata"""
import json, os, sys, importlib
sys.path.insert(0, "/verif")
props = [json.loads(l) for l in open("/verif/properties.jsonl")]
checks, na = [], []
META = json.load(open("/verif/tools/manifest_meta.json"))
for p in props:
    pid = p["id"]
    m = META.get(pid)
    if not m or m.get("not_applicable"):
        na.append({"property_id": pid, "reason": (m or {}).get("not_applicable", "check not built yet in this session (work in progress; see DESIGN.md section 6 for the plan)")})
        continue
    checks.append({
        "property_id": pid,
        "quick_cmd": f"./check {pid} --tier quick",
        "thorough_cmd": f"./check {pid} --tier thorough",
        "evidence_file": f"/verif/evidence/{pid}.json",
        "replay_cmd_template": f"./check {pid} --replay {{path}}",
        "engine": "pyvc",
        "level_claimed": {"category": m["level"], "text": m["text"], "design_ref": f"DESIGN.md section 12 (as built) and section 6 (plan), {pid}"},
        "level_note": m["note"],
        "technique": m["technique"],
    })
man = {
    "version": 1,
    "setup_cmd": "./setup.sh",
    "hooks": {"guard": "TURONOVA_CRYOCAT_VERIF", "enable": "no hooks: contracts are sidecar files under /verif/contracts, /repo is never annotated; the guard name is reserved and unused",
              "baseline_off_cmd": "cd /repo && /venv/bin/python -m pytest -ra -q -p no:cacheprovider --timeout=900 --continue-on-collection-errors", "source_commits": [], "add_only": True},
    "engines": [{"name": "pyvc", "path": "/verif/vfw", "serves_properties": [c["property_id"] for c in checks],
                 "kind_free_text": "verification-condition generator: symbolic execution of the real Python AST (re-read from /repo on every run) over generic-row/voxel models and sidecar contracts; obligations discharged by polynomial normal form, linearised LRA, z3 5.1 and cvc5 (two lemmas by Lean 4 / Mathlib); quantified inductive invariants with ghost state for loops; mechanically extracted statement blocks for long functions; counter-models replayed on the real code; a committed ledger of the obligations discharged on the accepted tree; bounded run-time contracts as labelled stand-ins"}],
    "checks": checks,
    "not_applicable": na,
    "notes": "exit 0 held / 1 violation (VIOLATION line; ends with no-failing-input-found when no input replays) / 2 undecided (UNDECIDED line: a function left the verifier's subset, or an obligation was neither discharged nor refuted; never on the accepted tree) / 3 checker fault (CHECKER-FAULT line, never a verdict). Known findings: /verif/known_findings.json. Obligations of the accepted tree: /verif/ledger.json. Seeded changes: /verif/seeded.",
}
json.dump(man, open("/verif/MANIFEST.json", "w"), indent=1)
import jsonschema
jsonschema.validate(man, json.load(open("/root/.vp/MANIFEST.schema.json")))
print("manifest ok:", len(checks), "checks,", len(na), "not_applicable")
