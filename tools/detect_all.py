#!/usr/bin/env python3
"""classification run over every kept seeded change: each patch is applied to a scratch snapshot of /repo's HEAD under /tmp (never to /repo),
the property's quick check is run against the snapshot (VERIF_REPO / VERIF_OUT), and the violations are classified as deductive (a named
obligation of a contract) or bounded (a bounded run).  Writes seeded/detection.json.   tools/detect_all.py [-j N] [sid ...]"""
import concurrent.futures as cf, glob, json, os, re, shutil, subprocess, sys
V = os.path.dirname(os.path.dirname(os.path.abspath(__file__)))


def one(sid):
    prop = sid.split("-")[0]
    d = f"/tmp/det_{sid}"
    shutil.rmtree(d, ignore_errors=True)
    os.makedirs(d)
    try:
        subprocess.run(f"git -C /repo archive HEAD | tar -x -C {d}", shell=True, check=True)
        r = subprocess.run(f"cd {d} && git init -q . && git apply {V}/seeded/{sid}/patch.diff", shell=True, capture_output=True, text=True)
        if r.returncode != 0:
            return sid, {"error": "patch does not apply: " + r.stderr[-200:]}
        env = dict(os.environ, VERIF_OUT=f"{d}/_out", VERIF_REPO=d, PYTHONPATH=d, VERIF_SEED="1")
        r = subprocess.run(["./check", prop, "--tier", "quick"], cwd=V, env=env, capture_output=True, text=True)
        out = r.stdout + r.stderr
        dl, bl = [], 0
        for l in out.splitlines():
            m = re.search(r"VIOLATION property=\S+ replay=\S*/replays/(C\d\d)-(.+?)-[0-9a-f]{10}\.json", l)
            if not m:
                continue
            if m.group(2).startswith(m.group(1) + "."):
                dl.append(re.sub(r"^C\d\d\.", "", m.group(2)))
            else:
                bl += 1
        s = re.search(r"out_of_reach=(\d+)", out)
        return sid, {"exit": r.returncode, "deductive_violations": len(dl), "bounded_violations": bl, "functions_out_of_reach": int(s.group(1)) if s else None,
                     "deductive_clauses": sorted(set(dl))}
    finally:
        shutil.rmtree(d, ignore_errors=True)


if __name__ == "__main__":
    args = sys.argv[1:]
    j = 4
    if "-j" in args:
        i = args.index("-j"); j = int(args[i + 1]); del args[i:i + 2]
    sids = args or sorted(os.path.basename(p.rstrip("/")) for p in glob.glob(f"{V}/seeded/C*-m*/") if os.path.exists(p + "patch.diff"))
    path = f"{V}/seeded/detection.json"
    det = json.load(open(path)) if os.path.exists(path) and args else {}
    with cf.ThreadPoolExecutor(j) as ex:
        for sid, res in ex.map(one, sids):
            det[sid] = res
            print(sid, res.get("exit"), "D=%s B=%s oor=%s" % (res.get("deductive_violations"), res.get("bounded_violations"), res.get("functions_out_of_reach")), flush=True)
    json.dump(det, open(path, "w"), indent=1, sort_keys=True)
