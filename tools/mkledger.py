#!/usr/bin/env python3
"""regenerate /verif/ledger.json (obligations discharged on the accepted tree) -- run only when a `fix:` commit or a contract change is
accepted:  tools/mkledger.py [quick|thorough ...]   (runs every check with VERIF_WRITE_LEDGER=1 and merges the parts)
           tools/mkledger.py --rebuild               (no runs: ledger.json rebuilt from ledger_parts/ only, dropping names that no part contains any more)"""
import glob, json, os, subprocess, sys
V = os.path.dirname(os.path.dirname(os.path.abspath(__file__)))
tiers = [a for a in sys.argv[1:] if not a.startswith("--")] or ["quick"]
if "--rebuild" in sys.argv:
    tiers = []
props = [c["property_id"] for c in json.load(open(f"{V}/MANIFEST.json"))["checks"]]
for a in sys.argv[1:]:
    if a.startswith("--only="):
        props = a.split("=", 1)[1].split(",")
for t in tiers:
    for p in props:
        r = subprocess.run(f"VERIF_WRITE_LEDGER=1 VERIF_SEED=1 ./check {p} --tier {t}", shell=True, cwd=V, capture_output=True, text=True)
        print(p, t, "rc", r.returncode)
        if r.returncode != 0:
            print(r.stdout[-800:])
            sys.exit(1)
led = json.load(open(f"{V}/ledger.json")) if os.path.exists(f"{V}/ledger.json") and "--merge" in sys.argv else {}
per_tier = {}
for part in sorted(glob.glob(f"{V}/ledger_parts/*.json")):
    prop, tier = os.path.basename(part)[:-5].split("-")
    d = json.load(open(part))
    cur = led.setdefault(prop, {})
    fns = sorted(set(cur.get("__functions__", [])) | set(d.pop("__functions__", [])))
    per_tier.setdefault(prop, {})[tier] = set(d)
    cur.update(d)
    cur["__functions__"] = fns
for prop, t in per_tier.items():
    if "quick" in t and "thorough" in t:
        led[prop]["__thorough_only__"] = sorted(t["thorough"] - t["quick"])
json.dump(led, open(f"{V}/ledger.json", "w"), indent=0, sort_keys=True)
print("ledger:", {k: len(v) - 1 for k, v in led.items()})
