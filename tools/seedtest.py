#!/usr/bin/env python3
"""evaluate one seeded change: tools/seedtest.py <prop> <dir with patch.diff, demo.py> [--tests file1,file2]
 1. clean tree: demo must pass; 2. apply to /repo; demo must fail; 3. run ./check <prop> (quick); 4. optionally run the given test files and compare
 pass sets with the clean tree; 5. undo (git checkout -- .).  Prints a JSON line."""
import json, os, subprocess, sys, tempfile, xml.etree.ElementTree as ET
prop, d = sys.argv[1], os.path.abspath(sys.argv[2])
tests = sys.argv[sys.argv.index("--tests") + 1].split(",") if "--tests" in sys.argv else []
def sh(cmd, **k):
    return subprocess.run(cmd, shell=True, capture_output=True, text=True, **k)
def demo():
    with tempfile.TemporaryDirectory() as t:
        r = sh(f"cd {t} && PYTHONPATH=/repo /venv/bin/python {d}/demo.py", timeout=900)
        return r.returncode, (r.stdout + r.stderr)[-400:]
def passset():
    if not tests: return None
    out = tempfile.mktemp(suffix=".xml")
    sh(f"cd /repo && /venv/bin/python -m pytest -q -p no:cacheprovider --timeout=900 --continue-on-collection-errors --junitxml={out} " + " ".join(tests), timeout=1800)
    ps = set()
    for tc in ET.parse(out).getroot().iter("testcase"):
        if not any(ch.tag in ("failure", "error", "skipped") for ch in tc): ps.add(f"{tc.get('classname')}::{tc.get('name')}")
    os.unlink(out); sh("cd /repo && git clean -fdq")
    return ps
assert sh("git -C /repo status --porcelain").stdout.strip() == "", "repo not clean"
res = {"prop": prop, "dir": d}
res["demo_clean_rc"], _ = demo()
base = passset()
a = sh(f"git -C /repo apply {d}/patch.diff")
res["applies"] = a.returncode == 0
try:
    if res["applies"]:
        res["demo_patched_rc"], res["demo_msg"] = demo()
        c = sh(f"cd /verif && VERIF_SEED=1 ./check {prop} --tier quick", timeout=3600)
        res["check_rc"] = c.returncode
        res["check_lines"] = [l[:300] for l in c.stdout.splitlines() if l.startswith(("VIOLATION", "CHECKER-FAULT", "KNOWN", "[C", "  out-of-reach", "  undecided"))][:12]
        if base is not None:
            after = passset()
            res["tests_lost"] = sorted(base - after)[:10]; res["tests_gained"] = sorted(after - base)[:10]
finally:
    sh("git -C /repo checkout -- . && git -C /repo clean -fdq")
print(json.dumps(res))
