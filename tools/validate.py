#!/usr/bin/env python3
import json, sys, glob, jsonschema
sch = json.load(open("/root/.vp/EVIDENCE.schema.json"))
for f in sorted(glob.glob("/verif/evidence/*.json")):
    try:
        e = json.load(open(f)); jsonschema.validate(e, sch)
        c = e["coverage"]; print("ok ", f.split("/")[-1], e["level"], c.get("obligations"), c.get("discharged"), "undec", c.get("undecided_count"), "oor", len(c.get("out_of_reach", [])), "viol", e.get("violations"), f'{e["wall_s"]}s')
    except Exception as ex:
        print("BAD", f, str(ex)[:300])
jsonschema.validate(json.load(open("/verif/MANIFEST.json")), json.load(open("/root/.vp/MANIFEST.schema.json"))); print("manifest ok")
