"""dev driver: python tools/dev.py c05 [ContractName]"""
import sys, time
sys.path.insert(0, "/verif")
import importlib
from vfw.engine import Check
m = importlib.import_module("contracts." + sys.argv[1])
ck = Check(sys.argv[1].upper())
for C in m.CONTRACTS:
    if len(sys.argv) > 2 and C.__name__ not in sys.argv[2:]: continue
    t=time.time(); ck.run_contract(C()); print(C.__name__, "paths/obls so far", len(ck.obls), f"{time.time()-t:.2f}s")
for u in ck.unsupported: print("UNSUPPORTED", u)
ck.solve()
for o in ck.obls:
    r=o.result
    ok = (r["verdict"]=="unsat") if o.expect=="unsat" else (r["verdict"]=="sat")
    if not ok or "-v" in sys.argv: print(("ok  " if ok else "FAIL"), o.name, r["verdict"], r["backend"], f'{r["time"]:.3f}', r["reason"][:100], (r["model"] if r["verdict"]=="sat" and o.expect=="unsat" else ""))
print("total", len(ck.obls), "ok", sum(1 for o in ck.obls if ((o.result["verdict"]=="unsat") if o.expect=="unsat" else (o.result["verdict"]=="sat"))))
from vfw import solve; solve.shutdown()
