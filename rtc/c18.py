"""C18 bounded stand-in: nearest-neighbour statistics of the real code vs brute force; invariance under rigid motion"""
import numpy as np
import pandas as pd
from scipy.spatial.transform import Rotation as SR
from .util import *
from .c06 import rel_angle


def gen_cases(seed, n_cases):
    rng = np.random.default_rng(seed + 1818)
    for ci in range(n_cases):
        na = 200 if ci % 17 == 16 else int(rng.integers(1, 40))
        nb = int(rng.integers(1, 40))
        nt = int(rng.integers(1, 5))
        mode = ["plain", "disjoint", "partly", "coincident"][ci % 4]
        yield (ci, mode, na, nb), {"na": na, "nb": nb, "nt": nt, "k": int(rng.integers(1, 6)), "pixel": float(rng.choice([1.0, 2.5, rng.uniform(0.5, 8)])), "mode": mode, "seed": int(rng.integers(1 << 30))}


def _lists(c):
    rng = np.random.default_rng(c["seed"])
    a = random_motl_rows(rng, c["na"], n_tomos=c["nt"], half_ties=False)
    b = random_motl_rows(rng, c["nb"], n_tomos=c["nt"], half_ties=False)
    for r in a + b:
        for ax in "xyz":
            r[ax] = float(rng.uniform(0, 60)); r["shift_" + ax] = float(rng.uniform(-2, 2))
    for i, r in enumerate(b):
        r["subtomo_id"] = float(1000 + i)
    if c["mode"] == "disjoint":
        for r in b:
            r["tomo_id"] += 10
    elif c["mode"] == "partly":
        for r in b[::2]:
            r["tomo_id"] += 10
    elif c["mode"] == "coincident":
        b = [dict(r) for r in a]
    return a, b


def _brute(a, b, k, p):
    """expected rows keyed by (subtomo a, rank): neighbour id, distance, offset, particle-frame offset, angle, relative rotation"""
    out = {}
    A, B = pd.DataFrame(a), pd.DataFrame(b)
    pa = A[["x", "y", "z"]].values + A[["shift_x", "shift_y", "shift_z"]].values
    pb = B[["x", "y", "z"]].values + B[["shift_x", "shift_y", "shift_z"]].values
    tie = False
    for i in range(len(A)):
        same = np.where(B["tomo_id"].values == A["tomo_id"].values[i])[0]
        if len(same) == 0:
            continue
        d = np.linalg.norm(pb[same] - pa[i], axis=1)
        order = np.argsort(d, kind="stable")
        ds = d[order]
        if np.any(np.diff(ds) < 1e-9):
            tie = True
        Ra = R_zxz(A.phi[i], A.theta[i], A.psi[i])
        for rank in range(min(k, len(same))):
            j = same[order[rank]]
            off = (pb[j] - pa[i]) * p
            Rb = R_zxz(B.phi[j], B.theta[j], B.psi[j])
            out[(A.subtomo_id[i], rank)] = {"nn": B.subtomo_id[j], "dist": ds[rank] * p, "off": off, "roff": Ra.T @ off, "ang": rel_angle(Ra, Rb), "rel": Ra.T @ Rb}
    return out, tie


def _check(stats, exp, k):
    if len(stats) != len(exp):
        return {"what": "number of reported neighbour rows", "got": len(stats), "expected": len(exp)}
    seen = {}
    for row in stats.itertuples():
        sid = row.subtomo_idx
        # ranks are reported rank-major per feature: identify the rank by matching the neighbour id
        cands = [r for (s, r), v in exp.items() if s == sid and v["nn"] == row.subtomo_nn_idx and (s, r) not in seen]
        if not cands:
            return {"what": "reported neighbour is not among the k closest of the same tomogram", "query": sid, "neighbour": row.subtomo_nn_idx}
        r = min(cands); seen[(sid, r)] = True
        e = exp[(sid, r)]
        if abs(row.distance - e["dist"]) > 1e-6 * max(1, e["dist"]):
            return {"what": "distance != Euclidean distance of complete positions x pixel size", "got": row.distance, "expected": e["dist"]}
        if not np.allclose([row.coord_x, row.coord_y, row.coord_z], e["off"], atol=1e-6):
            return {"what": "offset != (neighbour - query) x pixel size"}
        if not np.allclose([row.coord_rx, row.coord_ry, row.coord_rz], e["roff"], atol=1e-6):
            return {"what": "particle-frame offset != inverse orientation applied to the offset", "got": [row.coord_rx, row.coord_ry, row.coord_rz], "expected": e["roff"].tolist()}
        if abs(np.cos(np.radians(row.angular_distance)) - np.cos(np.radians(e["ang"]))) > 1e-7:
            return {"what": "angular distance", "got": row.angular_distance, "expected": e["ang"]}
        if not np.allclose(R_zxz(row.phi, row.theta, row.psi), e["rel"], atol=1e-6):
            return {"what": "relative orientation != R_a^-1 R_b"}
        if not np.allclose([row.rot_x, row.rot_y, row.rot_z], e["rel"][:, 2], atol=1e-6):
            return {"what": "rot_x/y/z is not the z-axis of the relative orientation"}
    return None


def run_case(c):
    from cryocat import nnana
    a, b = _lists(c)
    k, p = c["k"], c["pixel"]
    exp, tie = _brute(a, b, k, p)
    if tie:
        return None
    ma, mb = motl_from_rows(a), motl_from_rows(b)
    st, e = call(nnana.get_nn_stats, ma, mb, pixel_size=p, nn_number=k)
    if e is not None:
        return {"raised": f"{type(e).__name__}: {e}", "mode": c["mode"]}
    r = _check(st, exp, k)
    if r:
        r["mode"] = c["mode"]
        return r
    # ascending order of the neighbours of each query
    for sid, g in st.groupby("subtomo_idx"):
        if np.any(np.diff(g["distance"].values) < -1e-9):
            return {"what": "neighbours of a particle not reported in ascending order"}
    # rigid motion of every tomogram: rotate positions and orientations by Q, translate
    rng = np.random.default_rng(c["seed"] + 1)
    Q = SR.random(random_state=int(rng.integers(1 << 30))).as_matrix(); t = rng.uniform(-30, 30, 3)
    def move(rows):
        out = []
        for r in rows:
            r2 = dict(r)
            pos = Q @ np.array([r["x"] + r["shift_x"], r["y"] + r["shift_y"], r["z"] + r["shift_z"]]) + t
            r2["x"], r2["y"], r2["z"] = [float(v) for v in pos]; r2["shift_x"] = r2["shift_y"] = r2["shift_z"] = 0.0
            ang = SR.from_matrix(Q @ R_zxz(r["phi"], r["theta"], r["psi"])).as_euler("zxz", degrees=True)
            r2["phi"], r2["theta"], r2["psi"] = [float(v) for v in ang]
            out.append(r2)
        return out
    st2, e = call(nnana.get_nn_stats, motl_from_rows(move(a)), motl_from_rows(move(b)), pixel_size=p, nn_number=k)
    if e is not None:
        return {"raised": f"after rigid motion: {type(e).__name__}: {e}"}
    if len(st2) != len(st):
        return {"what": "rigid motion changed the number of neighbour rows"}
    key = ["subtomo_idx", "subtomo_nn_idx"]
    s1 = st.sort_values(key).reset_index(drop=True); s2 = st2.sort_values(key).reset_index(drop=True)
    if not np.array_equal(s1[key].values, s2[key].values):
        return {"what": "rigid motion changed the neighbour assignment"}
    for col, tol in (("distance", 1e-5), ("coord_rx", 1e-4), ("coord_ry", 1e-4), ("coord_rz", 1e-4)):
        if not np.allclose(s1[col].values, s2[col].values, atol=tol * max(1.0, np.abs(s1[col].values).max() if len(s1) else 1.0)):
            return {"what": f"rigid motion changed {col}"}
    if len(s1) and not np.allclose(np.cos(np.radians(s1["angular_distance"].values)), np.cos(np.radians(s2["angular_distance"].values)), atol=1e-6):
        return {"what": "rigid motion changed the angular distance"}
    for i in range(len(s1)):
        if not np.allclose(R_zxz(s1.phi[i], s1.theta[i], s1.psi[i]), R_zxz(s2.phi[i], s2.theta[i], s2.psi[i]), atol=1e-5):
            return {"what": "rigid motion changed the relative orientation"}
    return None


def replay_small():
    c = {"na": 6, "nb": 7, "nt": 2, "k": 2, "pixel": 2.0, "mode": "plain", "seed": 11}
    r = run_case(c)
    return {"reproduced": r is not None, "input": c, "observed": r}
