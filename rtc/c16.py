"""C16 bounded stand-in: dose filtering of the real code vs the Grant-Grigorieff formula at the DFT level"""
import numpy as np
from .util import *


def gain_formula(h, w, pixel, dose):
    fy = np.fft.fftfreq(h, d=pixel)[:, None]  # cycles per Angstrom: k / (H * pixel)
    fx = np.fft.fftfreq(w, d=pixel)[None, :]
    f = np.sqrt(fx ** 2 + fy ** 2)
    with np.errstate(divide="ignore"):
        q = np.exp(-dose / (2 * (0.245 * f ** (-1.665) + 2.81)))
    q[0, 0] = 1.0
    return q


def replay_formula():
    r = run_case({"n": 2, "h": 7, "w": 10, "pixel": 2.3, "doses": [5.0, 40.0], "in": "zyx", "out": "zyx", "seed": 3, "wave": False})
    return {"reproduced": r is not None, "observed": r}


def gen_cases(seed, n_cases, maxn=24):
    rng = np.random.default_rng(seed + 1616)
    for ci in range(n_cases):
        n = int(rng.integers(1, 11))
        h, w = int(rng.integers(4, maxn + 1)), int(rng.integers(4, maxn + 1))
        doses = [float(v) for v in rng.uniform(0, 300, n)]
        if ci % 4 == 0:
            doses[0] = 0.0
        yield (ci, (n, h, w), ci % 4), {"n": n, "h": h, "w": w, "pixel": float(rng.uniform(0.5, 10)), "doses": doses, "in": ["xyz", "zyx"][ci % 2], "out": ["xyz", "zyx"][(ci // 2) % 2],
                                        "seed": int(rng.integers(1 << 30)), "wave": bool(ci % 5 == 0)}


def run_case(c):
    from cryocat import tiltstack
    rng = np.random.default_rng(c["seed"])
    n, h, w, p = c["n"], c["h"], c["w"], c["pixel"]
    base = rng.normal(10, 3, (n, h, w)).astype(np.float32)
    if c["wave"]:
        ky, kx = int(rng.integers(0, h // 2 + 1)), int(rng.integers(0, w // 2 + 1))
        yy, xx = np.mgrid[0:h, 0:w]
        base[0] = (np.cos(2 * np.pi * (ky * yy / h + kx * xx / w)) + 2).astype(np.float32)
    inp = base.transpose(2, 1, 0).copy() if c["in"] == "xyz" else base.copy()
    keep = inp.copy()
    doses = np.array(c["doses"])
    r, e = call(tiltstack.dose_filter, inp, p, doses, input_order=c["in"], output_order=c["out"])
    if e is not None:
        return {"raised": f"{type(e).__name__}: {e}"}
    if not np.array_equal(inp, keep):
        return {"what": "dose_filter modified its input"}
    out = np.asarray(r); out = out.transpose(2, 1, 0) if c["out"] == "xyz" else out
    if out.shape != base.shape or np.iscomplexobj(out):
        return {"what": "output shape / realness", "shape": list(out.shape)}
    for z in range(n):
        X = np.fft.fft2(base[z].astype(np.float64)); Y = np.fft.fft2(out[z].astype(np.float64))
        q = gain_formula(h, w, p, doses[z])
        tol = 2e-4 * np.abs(X).max()
        if np.abs(Y - X * q).max() > tol:
            iy, ix = np.unravel_index(np.argmax(np.abs(Y - X * q)), Y.shape)
            return {"what": "Fourier component not multiplied by exp(-dose/(2(0.245 f^-1.665 + 2.81)))", "image": z, "dose": float(doses[z]), "at_index": [int(iy), int(ix)],
                    "measured_gain": float(np.abs(Y[iy, ix]) / max(np.abs(X[iy, ix]), 1e-30)), "formula_gain": float(q[iy, ix]), "shape": [h, w], "pixel": p}
        if abs(out[z].mean() - base[z].mean()) > 1e-3 * max(1.0, abs(base[z].mean())):
            return {"what": "image mean (zero frequency) changed", "image": z}
        if doses[z] == 0 and not np.allclose(out[z], base[z], atol=1e-3):
            return {"what": "zero dose is not the identity"}
        if np.any(np.abs(Y) > np.abs(X) * (1 + 1e-5) + tol):
            return {"what": "power increased at some frequency"}
    # linear; additive in dose; monotone
    other = rng.normal(0, 1, base.shape).astype(np.float32)
    f = lambda a, d: np.asarray(tiltstack.dose_filter(a.copy(), p, d, input_order="zyx", output_order="zyx"), dtype=np.float64)
    res, e = call(lambda: (f(base, doses), f(other, doses), f((2 * base - 3 * other).astype(np.float32), doses), f(f(base, doses).astype(np.float32), doses * 0.5), f(base, doses * 1.5)))
    if e is not None:
        return {"raised": f"{e}"}
    a, b, lin, twice, once = res
    scale = np.abs(base).max()
    if not np.allclose(lin, 2 * a - 3 * b, atol=2e-4 * scale * 5):
        return {"what": "dose filter is not linear"}
    if not np.allclose(twice, once, atol=5e-4 * scale):
        return {"what": "filtering with d1 and then d2 differs from filtering once with d1+d2"}
    pa = np.abs(np.fft.fft2(a, axes=(1, 2))); po = np.abs(np.fft.fft2(once, axes=(1, 2)))
    if np.any(po > pa * (1 + 1e-6) + 1e-3 * scale):
        return {"what": "more dose does not attenuate more"}
    return None
