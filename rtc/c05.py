"""C05 replay builders and bounded numeric stand-in (runs the real cryomotl code)"""
import numpy as np
import pandas as pd
from scipy.spatial.transform import Rotation as SR
from .util import *

TOL = 1e-6


def _pos(df):
    return df[["x", "y", "z"]].values + df[["shift_x", "shift_y", "shift_z"]].values


def replay_update(model):
    row = row_from_model(model)
    m = motl_from_rows([row]); p0 = _pos(m.df)
    _, e = call(m.update_coordinates)
    if e is not None:
        return {"reproduced": True, "input": row, "observed": f"raised {type(e).__name__}: {e}"}
    bad = (not np.allclose(_pos(m.df), p0, atol=TOL)) or np.any(m.df[["x", "y", "z"]].values % 1 != 0) or np.any(np.abs(m.df[["shift_x", "shift_y", "shift_z"]].values) > 0.5 + TOL)
    return {"reproduced": bool(bad), "input": row, "observed": m.df.iloc[0].to_dict()}


def replay_scale(model):
    row = row_from_model(model); f = fval(model.get("factor"), 2.0)
    m = motl_from_rows([row]); p0 = _pos(m.df)
    _, e = call(m.scale_coordinates, f)
    if e is not None:
        return {"reproduced": True, "input": row, "observed": f"raised {type(e).__name__}: {e}"}
    return {"reproduced": bool(not np.allclose(_pos(m.df), f * p0, atol=TOL)), "input": {"row": row, "factor": f}, "observed": m.df.iloc[0].to_dict()}


def replay_shift(model, inplace):
    row = row_from_model(model); s = [fval(model.get(f"s{i}"), 1.0) for i in range(3)]
    m = motl_from_rows([row]); p0 = _pos(m.df); R = rows_R(m.df)
    r, e = call(m.shift_positions, s, inplace=inplace)
    if e is not None:
        return {"reproduced": True, "input": row, "observed": f"raised {type(e).__name__}: {e}"}
    out = m.df if inplace else r.df
    exp = p0 + np.einsum("nij,j->ni", R, np.array(s))
    return {"reproduced": bool(not np.allclose(_pos(out), exp, atol=TOL)), "input": {"row": row, "shift": s}, "observed": out.iloc[0].to_dict(), "expected_pos": exp.tolist()}


def replay_apply_rotation(model):
    row = row_from_model(model)
    Q = np.array([[fval(model.get(f"Q{i}{j}"), 1.0 if i == j else 0.0) for j in range(3)] for i in range(3)])
    # the model's Q need not be orthogonal (the clause holds for any matrix); project to the nearest rotation
    u, _, vt = np.linalg.svd(Q); Qr = u @ vt
    if np.linalg.det(Qr) < 0: Qr = -Qr
    m = motl_from_rows([row]); R = rows_R(m.df)
    _, e = call(m.apply_rotation, SR.from_matrix(Qr))
    if e is not None:
        return {"reproduced": True, "input": row, "observed": f"raised {type(e).__name__}: {e}"}
    return {"reproduced": bool(not np.allclose(rows_R(m.df), R @ Qr, atol=1e-6)), "input": {"row": row, "Q": Qr.tolist()}, "observed": m.df.iloc[0].to_dict()}


def replay_flip(model, dims_kind, clause):
    row = row_from_model(model)
    m = motl_from_rows([row]); p0 = _pos(m.df); R = rows_R(m.df)
    if dims_kind == "none":
        d = None
    elif dims_kind == "single":
        dz = fval(model.get("dim_z"), 100.0)
        d = [fval(model.get("dim_x"), 100.0), fval(model.get("dim_y"), 100.0), dz]
    else:
        dz = 77.0
        d = pd.DataFrame({"tomo_id": [row["tomo_id"], row["tomo_id"] + 1], "x": [100.0, 90.0], "y": [100.0, 90.0], "z": [dz, 55.0]})
    _, e = call(m.flip_handedness, d)
    if e is not None:
        return {"reproduced": True, "input": {"row": row, "dims": str(d)}, "observed": f"raised {type(e).__name__}: {e}"}
    M = np.diag([1, 1, -1.0])
    bad = not np.allclose(rows_R(m.df), M @ R @ M, atol=1e-6)
    p1 = _pos(m.df)
    bad = bad or not np.allclose(p1[:, :2], p0[:, :2], atol=TOL)
    if d is not None:
        bad = bad or not np.allclose(p1[:, 2], dz + 1 - p0[:, 2], atol=TOL)
    return {"reproduced": bool(bad), "input": {"row": row, "dims": str(d)}, "observed": m.df.iloc[0].to_dict(), "expected_pos_z": (None if d is None else float(dz + 1 - p0[0, 2]))}


# ---- bounded stand-in: histories of up to 6 operations, every clause checked numerically after each step

def gen_cases(seed, n_cases):
    rng = np.random.default_rng(seed)
    for ci in range(n_cases):
        n = int(rng.choice([1, 2, 5, 17, 60, 300])) if ci % 7 == 0 else int(rng.integers(1, 30))
        rows = random_motl_rows(rng, n)
        for r in rows:
            if rng.random() < 0.25:
                # fresh picks after a rescaling: no shift at all, but a fractional stored position
                for a in "xyz":
                    r["shift_" + a] = 0.0
                    r[a] = r[a] + float(rng.choice([0.5, 0.25, -0.37, 0.0, 0.75]))
        ops = []
        for _ in range(int(rng.integers(1, 7))):
            k = rng.choice(["update", "scale", "shift", "rotate", "flip1", "flipN", "flip0"])
            if k == "scale": ops.append(("scale", float(rng.choice([0.5, 2.0, 4.0, rng.uniform(0.1, 8)]))))
            elif k == "shift": ops.append(("shift", [float(x) for x in rng.uniform(-20, 20, 3)]))
            elif k == "rotate": ops.append(("rotate", SR.random(random_state=int(rng.integers(1 << 30))).as_matrix().tolist()))
            elif k == "flip1": ops.append(("flip1", [float(x) for x in rng.integers(50, 500, 3)]))
            elif k == "flipN": ops.append(("flipN", {str(t): [float(x) for x in rng.integers(50, 500, 3)] for t in (1, 2, 3)}))
            else: ops.append((str(k), None))
        # row labels: lists that went through a selection / sort / trimming keep their old labels (no reset) -- gapped or permuted
        labels = None
        if ci % 3 == 1:
            labels = [int(x) for x in np.cumsum(rng.integers(1, 4, n))]
        elif ci % 3 == 2:
            labels = [int(x) for x in rng.permutation(n)]
        yield (ci, len(rows), tuple(o[0] for o in ops)), {"rows": rows, "ops": ops, "labels": labels}


def run_case(case):
    m = motl_from_rows(case["rows"])
    if case.get("labels") is not None:
        m.df.index = pd.Index(case["labels"])
    for step, (op, arg) in enumerate(case["ops"]):
        before = m.df.copy(); p0 = _pos(before); R0 = rows_R(before)
        if op == "update":
            _, e = call(m.update_coordinates); exp_p, exp_R = p0, R0
        elif op == "scale":
            _, e = call(m.scale_coordinates, arg); exp_p, exp_R = arg * p0, R0
        elif op == "shift":
            _, e = call(m.shift_positions, arg); exp_p, exp_R = p0 + np.einsum("nij,j->ni", R0, np.array(arg)), R0
        elif op == "rotate":
            Q = np.array(arg); _, e = call(m.apply_rotation, SR.from_matrix(Q)); exp_p, exp_R = p0, R0 @ Q
        else:
            M = np.diag([1, 1, -1.0]); exp_R = M @ R0 @ M; exp_p = p0.copy()
            if op == "flip0":
                _, e = call(m.flip_handedness)
            elif op == "flip1":
                _, e = call(m.flip_handedness, arg); exp_p[:, 2] = arg[2] + 1 - p0[:, 2]
            else:
                d = pd.DataFrame([[float(t)] + v for t, v in arg.items()], columns=["tomo_id", "x", "y", "z"])
                _, e = call(m.flip_handedness, d)
                dz = before["tomo_id"].map({float(t): v[2] for t, v in arg.items()}).values
                exp_p[:, 2] = dz + 1 - p0[:, 2]
        if e is not None:
            return {"step": step, "op": op, "raised": f"{type(e).__name__}: {e}"}
        if list(m.df.columns) != MOTL_COLS or len(m.df) != len(before):
            return {"step": step, "op": op, "what": "table shape/columns changed"}
        p1 = _pos(m.df)
        if not np.allclose(p1, exp_p, atol=1e-5, rtol=1e-9):
            i = int(np.argmax(np.abs(p1 - exp_p).max(axis=1)))
            return {"step": step, "op": op, "what": "complete position", "row": i, "got": p1[i].tolist(), "expected": exp_p[i].tolist(), "input_row": before.iloc[i].to_dict()}
        if not np.allclose(rows_R(m.df), exp_R, atol=1e-6):
            return {"step": step, "op": op, "what": "orientation"}
        if op == "update":
            if np.any(m.df[["x", "y", "z"]].values % 1 != 0) or np.any(np.abs(m.df[["shift_x", "shift_y", "shift_z"]].values) > 0.5 + 1e-9):
                return {"step": step, "op": op, "what": "x,y,z integer and |shift|<=0.5"}
        other = [c for c in MOTL_COLS if c not in ("x", "y", "z", "shift_x", "shift_y", "shift_z", "phi", "theta", "psi")]
        if not np.array_equal(m.df[other].values, before[other].values):
            return {"step": step, "op": op, "what": "unrelated fields changed"}
    return None
