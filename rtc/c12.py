"""C12 bounded stand-in and replay: DFT-level behaviour of lowpass / highpass / bandpass on the real code"""
import numpy as np
from .util import *


def _kr(shape):
    ks = np.meshgrid(*[np.fft.fftfreq(n, 1.0 / n) for n in shape], indexing="ij")
    return np.sqrt(sum(k ** 2 for k in ks))


def _gain(fn, x, **kw):
    """measured gain array: DFT(out)/DFT(in) on a field with no vanishing Fourier component"""
    with scratch():
        out, e = call(fn, x.copy(), **kw)
    if e is not None:
        return None, e
    X = np.fft.fftn(x); Y = np.fft.fftn(np.asarray(out, float))
    return Y / X, None


def replay_gain(name, model):
    from cryocat import cryomap
    shape = tuple(max(2, min(12, int(fval(model.get(n), 8)))) for n in "XYZ")
    cut = max(0, int(fval(model.get("cut0"), 2)))
    rng = np.random.default_rng(3); x = rng.normal(size=shape) + 5.0
    kw = {"lowpass": {"fourier_pixels": cut, "gaussian": 0}, "highpass": {"fourier_pixels": cut, "gaussian": 0}, "bandpass": {"lp_fourier_pixels": cut + 2, "hp_fourier_pixels": cut, "lp_gaussian": 0, "hp_gaussian": 0}}[name]
    g, e = _gain(getattr(cryomap, name), x, **kw)
    if e is not None:
        return {"reproduced": True, "observed": f"raised {e}"}
    kr = _kr(shape)
    exp = {"lowpass": (kr <= cut), "highpass": ~(kr <= cut), "bandpass": (kr <= cut + 2) & ~(kr <= cut)}[name].astype(float)
    return {"reproduced": bool(not np.allclose(g, exp, atol=1e-8)), "input": {"shape": shape, "cut": cut}, "observed": f"max gain error {float(np.abs(g - exp).max()):.3g}"}


def gen_cases(seed, n_cases, maxbox=20):
    rng = np.random.default_rng(seed + 1212)
    for ci in range(n_cases):
        cubic = ci % 3 == 0
        n0 = int(rng.integers(8, maxbox + 1))
        shape = (n0, n0, n0) if cubic else tuple(int(v) for v in rng.integers(8, maxbox + 1, 3))
        yield (ci, shape, ci % 4), {"shape": shape, "cut": int(rng.integers(1, min(shape) // 2 + 1)), "cut2": int(rng.integers(0, 4)), "sigma": float([0, 0, 1, 2, 3, 4, 0.5][ci % 7]),
                                    "form": ["pixels", "resolution"][ci % 2], "pixel": float(rng.choice([1.0, 1.35, 2.7])), "seed": int(rng.integers(1 << 30)), "wave": bool(ci % 5 == 0)}


def run_case(c):
    from cryocat import cryomap
    rng = np.random.default_rng(c["seed"])
    shape, cut, sg = c["shape"], c["cut"], c["sigma"]
    x = rng.normal(size=shape) + 3.0
    kr = _kr(shape)
    if c["form"] == "pixels":
        lp = {"fourier_pixels": cut}; hp = {"fourier_pixels": cut}; r = cut
    else:
        res = shape[0] * c["pixel"] / (cut + float(rng.choice([0.0, 0.2, -0.3])))
        lp = {"target_resolution": res, "pixel_size": c["pixel"]}; hp = dict(lp)
        r = round(shape[0] * c["pixel"] / res)
    gl, e = _gain(cryomap.lowpass, x, gaussian=sg, **lp)
    if e is not None:
        return {"raised": f"lowpass {type(e).__name__}: {e}"}
    gh, e = _gain(cryomap.highpass, x, gaussian=sg, **hp)
    if e is not None:
        return {"raised": f"highpass {type(e).__name__}: {e}"}
    for nm, g in (("lowpass", gl), ("highpass", gh)):
        if np.abs(g.imag).max() > 1e-8:
            return {"what": f"{nm}: gain is not real / depends on more than the frequency"}
    gl, gh = gl.real, gh.real
    if gl.min() < -1e-8 or gl.max() > 1 + 1e-8:
        return {"what": "low-pass gain outside [0,1]", "min": float(gl.min()), "max": float(gl.max())}
    if not np.allclose(gl + gh, 1.0, atol=1e-7):
        return {"what": "high-pass is not the complement of the low-pass", "err": float(np.abs(gl + gh - 1).max())}
    if sg == 0:
        if not np.allclose(gl, (kr <= r).astype(float), atol=1e-8):
            bad = np.argwhere(np.abs(gl - (kr <= r)) > 1e-8)[0]
            return {"what": "hard-edged low-pass gain is not 1 up to the cutoff radius and 0 beyond", "radius": r, "at_frequency_radius": float(kr[tuple(bad)]), "gain": float(gl[tuple(bad)])}
    else:
        if np.any(np.abs(gl[kr < r - 4 * sg - 1] - 1) > 1e-3) or np.any(np.abs(gl[kr > r + 4 * sg + 1]) > 1e-3):
            return {"what": "soft low-pass: not 1 inside cutoff-4sigma-1 / 0 outside cutoff+4sigma+1", "sigma": sg, "radius": r}
        # radially non-increasing (compare shell means, small tolerance for the voxel grid)
        order = np.argsort(kr.ravel()); prof = gl.ravel()[order]; rad = kr.ravel()[order]
        shells = [prof[(rad >= a) & (rad < a + 1)].mean() for a in range(int(rad.max())) if np.any((rad >= a) & (rad < a + 1))]
        if np.any(np.diff(shells) > 1e-6):
            return {"what": "soft low-pass gain increases with the frequency radius"}
    # band-pass = difference of its two low-passes
    r_hp = max(0, cut - c["cut2"] - 1)
    gb, e = _gain(cryomap.bandpass, x, lp_fourier_pixels=cut, hp_fourier_pixels=r_hp, lp_gaussian=sg, hp_gaussian=sg)
    if e is not None:
        return {"raised": f"bandpass {type(e).__name__}: {e}"}
    g1, _ = _gain(cryomap.lowpass, x, fourier_pixels=cut, gaussian=sg); g2, _ = _gain(cryomap.lowpass, x, fourier_pixels=r_hp, gaussian=sg)
    if not np.allclose(gb, g1 - g2, atol=1e-7):
        return {"what": "band-pass != difference of its two low-passes"}
    # linear, real-valued, commutes with circular shifts; plane waves
    y = rng.normal(size=shape)
    with scratch():
        f = lambda a: np.asarray(cryomap.lowpass(a.copy(), gaussian=sg, **lp), float)
        o, e = call(lambda: (f(x), f(y), f(2.5 * x - 1.5 * y), f(np.roll(x, (2, -1, 3), axis=(0, 1, 2)))))
    if e is not None:
        return {"raised": f"{e}"}
    fx, fy, fl, fs = o
    if np.iscomplexobj(fx) or not np.allclose(fl, 2.5 * fx - 1.5 * fy, atol=1e-8):
        return {"what": "low-pass is not linear / real"}
    if not np.allclose(fs, np.roll(fx, (2, -1, 3), axis=(0, 1, 2)), atol=1e-8):
        return {"what": "low-pass does not commute with circular shifts"}
    if c["wave"] and sg == 0:
        kv = [int(rng.integers(0, n // 2)) for n in shape]
        g = np.meshgrid(*[np.arange(n) for n in shape], indexing="ij")
        w = np.cos(2 * np.pi * sum(kv[a] * g[a] / shape[a] for a in range(3)))
        with scratch():
            ow, e = call(cryomap.lowpass, w.copy(), gaussian=0, **lp)
        keep = np.sqrt(sum(k * k for k in kv)) <= r
        if e is not None or not np.allclose(np.asarray(ow), w if keep else 0 * w, atol=1e-8):
            return {"what": "plane wave not passed/blocked according to its frequency radius", "k": kv, "radius": r}
    # resolution mapping
    px, e = call(cryomap.resolution2pixels, 17.3, shape[0], c["pixel"], False)
    if e is not None or px != round(shape[0] * c["pixel"] / 17.3):
        return {"what": "resolution2pixels != round(box*pixel/resolution)"}
    return None
