"""C20 bounded stand-in and replay: thickness pairing of the real code (CPU path and numba kernel) vs a brute-force greedy matcher"""
import numpy as np
from scipy.spatial.transform import Rotation as SR
from .util import *


def replay_cone(which):
    """the canonical witness of the cone obligation: a target 31 degrees off the normal with max_angle = 5 degrees must not be paired"""
    from cryocat import memthick
    pts = np.array([[0.0, 0.0, 0.0], [0.6, 0.0, 1.0]])
    nrm = np.array([[0.0, 0.0, 1.0], [0.0, 0.0, -1.0]])
    s1 = np.array([True, False]); s2 = np.array([False, True])
    if which == "cpu" or which == "cuda-text":
        r, e = call(memthick.measure_thickness_cpu, pts, nrm, s1, s2, 1.0, 8.0, 5.0, "1to2")
        if e is not None:
            return {"reproduced": True, "observed": f"raised {e}"}
        return {"reproduced": bool(r[1][0]), "input": {"points": pts.tolist(), "normals": nrm.tolist(), "max_angle": 5.0}, "observed": {"valid": r[1].tolist(), "thickness": r[0].tolist()},
                "note": ("the CUDA kernel cannot run here; its cone test is the same source text as the CPU path" if which == "cuda-text" else "")}
    md = np.zeros((2, 5)); mi = np.zeros((2, 5), dtype=np.int64); mc = np.zeros(2, dtype=np.int64)
    _, e = call(memthick.find_matches_parallel, pts, nrm, s1, s2, np.array([1]), 8.0, np.cos(np.radians(5.0)), md, mi, mc)
    if e is not None:
        return {"reproduced": True, "observed": f"raised {e}"}
    return {"reproduced": bool(mc[0] > 0), "observed": {"match_counts": mc.tolist()}}


def _sheets(rng, n, kind, gap):
    m = n // 2
    xy = rng.uniform(0, np.sqrt(m) * 3.0, (m, 2))
    def z(x, y):
        if kind == "flat": return 0 * x
        if kind == "tilted": return 0.3 * x + 0.1 * y
        return 2.0 * np.sin(x / 6.0) + 1.5 * np.cos(y / 5.0)
    def nrm(x, y):
        e = 1e-4
        gx = (z(x + e, y) - z(x - e, y)) / (2 * e); gy = (z(x, y + e) - z(x, y - e)) / (2 * e)
        v = np.stack([-gx, -gy, np.ones_like(x)], 1)
        return v / np.linalg.norm(v, axis=1)[:, None]
    a = np.column_stack([xy, z(xy[:, 0], xy[:, 1])]) + rng.normal(0, 0.15, (m, 3))
    xy2 = rng.uniform(0, np.sqrt(m) * 3.0, (n - m, 2))
    nb = nrm(xy2[:, 0], xy2[:, 1])
    b = np.column_stack([xy2, z(xy2[:, 0], xy2[:, 1])]) + gap * nb + rng.normal(0, 0.15, (n - m, 3))
    na = nrm(xy[:, 0], xy[:, 1])
    noise = lambda v: (lambda w: w / np.linalg.norm(w, axis=1)[:, None])(v + rng.normal(0, 0.08, v.shape))
    pts = np.vstack([a, b]); nr = np.vstack([noise(na), noise(-nb)])
    lab = np.concatenate([np.zeros(m, bool), np.ones(n - m, bool)])
    flip = rng.random(n) < 0.05  # arbitrary labelling of a few points
    lab = lab ^ flip
    perm = rng.permutation(n)
    return pts[perm], nr[perm], ~lab[perm], lab[perm]


def oracle(pts, nrm, smask, tmask, rmax, angle_deg, strict_dist=False):
    """brute force: admissible candidate pairs (dist, src, tgt) and the set of boundary-ambiguous ones"""
    cand, ambiguous = [], False
    ca = np.cos(np.radians(angle_deg))
    for s in np.where(smask)[0]:
        for t in np.where(tmask)[0]:
            d = pts[t] - pts[s]; dist = float(np.linalg.norm(d)); proj = float(d @ nrm[s])
            if dist == 0: continue
            cosang = proj / dist
            if abs(dist - rmax) < 1e-9 or abs(proj) < 1e-12 or abs(cosang - ca) < 1e-9:
                ambiguous = True
            if (dist < rmax if strict_dist else dist <= rmax) and proj > 0 and cosang > ca:
                cand.append((dist, int(s), int(t)))
    return cand, ambiguous


def greedy(cand, n):
    thick = np.zeros(n); valid = np.zeros(n, bool); pair = np.zeros(n, int)
    sa, ta = set(), set()
    for dist, s, t in sorted(cand):
        if s not in sa and t not in ta:
            thick[s], valid[s], pair[s] = dist, True, t; sa.add(s); ta.add(t)
    return thick, valid, pair


def gen_cases(seed, n_cases):
    rng = np.random.default_rng(seed + 2020)
    for ci in range(n_cases):
        n = int(rng.choice([20, 40, 80, 150, 300, 600])) if ci % 4 == 0 else int(rng.integers(20, 120))
        kind = ["flat", "tilted", "curved"][ci % 3]
        yield (ci, kind, n), {"n": n, "kind": kind, "gap": float(rng.uniform(2.0, 5.0)), "voxel": float(rng.choice([1.0, 0.5, 1.34, 2.0])),
                              "max_nm": float(rng.uniform(4.0, 9.0)), "angle": float(rng.choice([1, 3, 5, 10, 20, 30, rng.uniform(1, 30)])),
                              "direction": ["1to2", "2to1"][ci % 2], "seed": int(rng.integers(1 << 30))}


def run_case(case):
    from cryocat import memthick
    rng = np.random.default_rng(case["seed"])
    pts, nrm, s1, s2 = _sheets(rng, case["n"], case["kind"], case["gap"])
    n = len(pts)
    voxel, max_nm, ang, direction = case["voxel"], case["max_nm"], case["angle"], case["direction"]
    smask, tmask = (s1, s2) if direction == "1to2" else (s2, s1)
    rmax = max_nm / voxel
    cand, amb = oracle(pts, nrm, smask, tmask, rmax, ang)
    per_src = {}
    for _, s, _t in cand:
        per_src[s] = per_src.get(s, 0) + 1
    if amb or (per_src and max(per_src.values()) >= 25):
        return None  # outside the property's quantifier (boundary cases / candidate cap)
    r, e = call(memthick.measure_thickness_cpu, pts, nrm, s1, s2, voxel, max_nm, ang, direction)
    if e is not None:
        return {"raised": f"{type(e).__name__}: {e}"}
    thick, valid, pair = (np.asarray(x) for x in r)
    et, ev, ep = greedy(cand, n)
    if not np.array_equal(valid, ev):
        i = int(np.where(valid != ev)[0][0])
        return {"what": "set of paired source points differs from greedy matching over admissible pairs", "source": i, "got_valid": bool(valid[i]), "expected": bool(ev[i]),
                "n_candidates": len(cand), "angle": ang}
    if not np.array_equal(pair[valid], ep[ev]):
        return {"what": "paired target differs from greedy matching"}
    if not np.allclose(thick[valid], et[ev] * voxel, rtol=1e-5, atol=1e-5):
        return {"what": "thickness != distance * voxel size"}
    # direct clauses
    tg = pair[valid]
    if len(set(tg.tolist())) != len(tg):
        return {"what": "a target is used twice"}
    for s in np.where(valid)[0]:
        t = pair[s]; d = pts[t] - pts[s]
        if not smask[s] or not tmask[t]:
            return {"what": "pair does not connect source surface to target surface", "direction": direction}
        cosang = (d @ nrm[s]) / np.linalg.norm(d)
        if thick[s] > max_nm * (1 + 1e-6) or cosang <= 0 or np.degrees(np.arccos(min(1.0, cosang))) > ang + 1e-6:
            return {"what": "accepted pair violates range / forward / cone", "angle_of_pair": float(np.degrees(np.arccos(min(1.0, cosang)))), "max_angle": ang}
    if np.any(thick[~valid] != 0):
        return {"what": "unpaired points carry a thickness"}
    # rigid motion and voxel scaling
    Q = SR.random(random_state=case["seed"] % 100000).as_matrix(); tvec = rng.uniform(-50, 50, 3)
    r2, e = call(memthick.measure_thickness_cpu, pts @ Q.T + tvec, nrm @ Q.T, s1, s2, voxel, max_nm, ang, direction)
    if e is not None:
        return {"raised": f"rigid motion: {e}"}
    if not np.array_equal(np.asarray(r2[1]), valid) or not np.array_equal(np.asarray(r2[2])[valid], pair[valid]) or not np.allclose(np.asarray(r2[0]), thick, rtol=1e-4, atol=1e-4):
        return {"what": "pairing/thickness changed under rigid motion"}
    k = 1.7
    r3, e = call(memthick.measure_thickness_cpu, pts, nrm, s1, s2, voxel * k, max_nm * k, ang, direction)
    if e is not None:
        return {"raised": f"voxel scaling: {e}"}
    if not np.array_equal(np.asarray(r3[1]), valid) or not np.allclose(np.asarray(r3[0]), thick * k, rtol=1e-4, atol=1e-4):
        return {"what": "thickness does not scale with the voxel size"}
    # numba candidate kernel
    tidx = np.where(tmask)[0]
    md = np.zeros((n, 30), dtype=np.float64); mi = np.zeros((n, 30), dtype=np.int64); mc = np.zeros(n, dtype=np.int64)
    _, e = call(memthick.find_matches_parallel, pts, nrm, smask, tmask, tidx, rmax, np.cos(np.radians(ang)), md, mi, mc)
    if e is not None:
        return {"raised": f"find_matches_parallel: {type(e).__name__}: {e}"}
    got = set()
    for s in range(n):
        for j in range(int(mc[s])):
            got.add((s, int(mi[s, j])))
            if abs(md[s, j] - np.linalg.norm(pts[int(mi[s, j])] - pts[s])) > 1e-9:
                return {"what": "numba kernel: stored distance is not the Euclidean distance"}
    exp = set((s, t) for _, s, t in oracle(pts, nrm, smask, tmask, rmax, ang, strict_dist=True)[0])
    if got != exp:
        return {"what": "numba kernel: candidate set differs from the admissible pairs", "extra": len(got - exp), "missing": len(exp - got)}
    return None


def replay_greedy():
    """small instance for the assignment loop: three sources competing for two targets"""
    from cryocat import memthick
    fm = [(2.0, 0, 5), (1.0, 1, 5), (1.5, 0, 6), (3.0, 2, 6), (0.5, 2, 5)]
    th, va, pp = memthick.process_matches_cpu2cpu(list(fm), 8, 2.0)
    exp_t, exp_v, exp_p = greedy(fm, 8)
    bad = not (np.array_equal(va, exp_v) and np.array_equal(pp[va], exp_p[exp_v]) and np.allclose(th, exp_t * 2.0))
    return {"reproduced": bool(bad), "input": fm, "observed": {"valid": va.tolist(), "pairs": pp.tolist(), "thickness": th.tolist()}}


def gen_assign_cases(seed, n_cases):
    rng = np.random.default_rng(seed + 2021)
    for ci in range(n_cases):
        n = int(rng.integers(2, 14))
        m = int(rng.integers(1, 40))
        fm = []
        for _ in range(m):
            s, t_ = int(rng.integers(0, n)), int(rng.integers(0, n))
            fm.append((float(np.round(rng.uniform(0.5, 9.0), 3)), s, t_))
        yield (ci, n, m), {"n": n, "matches": fm, "voxel": float(rng.choice([1.0, 0.5, 2.0]))}


def run_assign_case(c):
    """process_matches_cpu2cpu on random candidate lists (heavy contention, index 0 included) vs the brute-force greedy matcher"""
    from cryocat import memthick
    fm = [tuple(x) for x in c["matches"]]
    if len(set(d for d, _, _ in fm)) != len(fm):
        return None  # distance ties are outside the quantifier
    r, e = call(memthick.process_matches_cpu2cpu, list(fm), c["n"], c["voxel"])
    if e is not None:
        return {"raised": f"{type(e).__name__}: {e}"}
    th, va, pp = (np.asarray(x) for x in r)
    et, ev, ep = greedy(fm, c["n"])
    if not np.array_equal(va, ev) or not np.array_equal(pp[va], ep[ev]) or not np.allclose(th, et * c["voxel"], rtol=1e-5, atol=1e-6):
        tg = pp[va].tolist()
        return {"what": "assignment differs from greedy one-to-one matching by increasing distance", "target_used_twice": len(set(tg)) != len(tg), "got_pairs": [(int(s), int(pp[s])) for s in np.where(va)[0]],
                "expected_pairs": [(int(s), int(ep[s])) for s in np.where(ev)[0]]}
    return None
