"""C06 replay builders and bounded stand-in: geom primitives vs SO(3) ground truth computed independently"""
import itertools
import numpy as np
import pandas as pd
from scipy.spatial.transform import Rotation as SR
from .util import *


def rel_angle(R1, R2):
    """rotation angle (deg) of R1^T R2 from the trace"""
    t = (np.trace(R1.T @ R2) - 1) / 2
    return float(np.degrees(np.arccos(np.clip(t, -1, 1))))


def _mat_from_model(model, p):
    M = np.array([[fval(model.get(f"{p}{i}{j}"), 1.0 if i == j else 0.0) for j in range(3)] for i in range(3)])
    u, _, vt = np.linalg.svd(M); R = u @ vt
    return R if np.linalg.det(R) > 0 else -R


def replay_angular(model, clause, cfg):
    from cryocat import geom
    A, B = _mat_from_model(model, "A"), _mat_from_model(model, "B")
    if cfg["mode"] == "float-robust":
        # the float-robust obligation: d(r, r) must be a number for every rotation (no NaN from acos(1+eps))
        rng = np.random.default_rng(0)
        rs = SR.random(2000, random_state=1)
        ang, e = call(lambda: geom.angular_distance(rs, rs)[0])
        if e is not None:
            return {"reproduced": True, "observed": f"raised {e}"}
        bad = int(np.sum(~np.isfinite(ang)))
        return {"reproduced": bad > 0, "observed": f"{bad} of 2000 random rotations give NaN for d(r, r)", "input": "2000 random rotations, seed 1"}
    r1, r2 = SR.from_matrix(A), SR.from_matrix(B)
    ang, e = call(lambda: geom.angular_distance(r1, r2)[0])
    if e is not None:
        return {"reproduced": True, "observed": f"raised {e}"}
    return {"reproduced": bool(abs(float(ang[0]) - rel_angle(A, B)) > 1e-5), "input": {"A": A.tolist(), "B": B.tolist()}, "observed": float(ang[0]), "expected": rel_angle(A, B)}


def replay_cone(model):
    from cryocat import geom
    A, B = _mat_from_model(model, "A"), _mat_from_model(model, "B")
    c, e = call(geom.cone_distance, SR.from_matrix(A), SR.from_matrix(B))
    if e is not None:
        return {"reproduced": True, "observed": f"raised {e}"}
    exp = float(np.degrees(np.arccos(np.clip(A[:, 2] @ B[:, 2], -1, 1))))
    return {"reproduced": bool(abs(float(c[0]) - exp) > 1e-5), "observed": float(c[0]), "expected": exp}


def replay_normals(model, n):
    from cryocat import geom
    k = 2 if n == "generic" else n
    ang = np.array([[fval(model.get(f"{a}{r}" if n != "generic" else a), 30.0 * (r + 1) + 7 * j) for j, a in enumerate(("phi", "theta", "psi"))] for r in range(k)])
    if n == "generic":
        ang[1] = [10.0, 50.0, 80.0]
    v, e = call(geom.euler_angles_to_normals, ang)
    if e is not None:
        return {"reproduced": True, "observed": f"raised {e}"}
    exp = np.stack([R_zxz(*a)[:, 2] for a in ang])
    return {"reproduced": bool(not np.allclose(v, exp, atol=1e-7)), "input": ang.tolist(), "observed": np.asarray(v).tolist(), "expected": exp.tolist()}


def replay_normals_to_euler(model, order):
    from cryocat import geom
    n = np.array([[fval(model.get("n" + a), 1.0 if a == "x" else 0.0) for a in "xyz"]])
    if np.linalg.norm(n) == 0:
        n = np.array([[1.0, 0.0, 0.0]])
    a, e = call(geom.normals_to_euler_angles, n, order)
    if e is not None:
        return {"reproduced": True, "observed": f"raised {e}"}
    phi, the, psi = (a[0, 0], a[0, 1], a[0, 2]) if order == "zxz" else (a[0, 0], a[0, 2], a[0, 1])
    z = R_zxz(phi, the, psi)[:, 2]
    return {"reproduced": bool(not np.allclose(z, n[0] / np.linalg.norm(n[0]), atol=1e-7)), "input": n.tolist(), "observed": z.tolist(), "expected": (n[0] / np.linalg.norm(n[0])).tolist()}


def cube_rotations():
    out = []
    for p in itertools.permutations(range(3)):
        for s in itertools.product([1, -1], repeat=3):
            M = np.zeros((3, 3))
            for i in range(3):
                M[i, p[i]] = s[i]
            if np.linalg.det(M) > 0:
                out.append(M)
    return out


def gen_cases(seed, n_cases):
    rng = np.random.default_rng(seed + 606)
    cubes = cube_rotations()
    lattice = [np.array(a, dtype=float) for a in itertools.product(range(0, 360, 45), range(0, 181, 45), range(0, 360, 45))]
    for ci in range(n_cases):
        kind = ["random", "near", "antipodal", "gimbal", "cube", "lattice", "normals", "batch"][ci % 8]
        n = int(rng.choice([1, 2, 3, 17, 500])) if kind == "batch" else int(rng.integers(1, 8))
        def rnd(k):
            return SR.random(k, random_state=int(rng.integers(1 << 30))).as_matrix()
        if kind in ("random", "batch"):
            A, B, C = rnd(n), rnd(n), rnd(n)
        elif kind == "near":
            A = rnd(n); sc = 10.0 ** rng.uniform(-8, -2, (n, 1)); d = SR.from_rotvec(rng.normal(0, 1, (n, 3)) * sc).as_matrix(); B = A @ d; C = A.copy()
        elif kind == "antipodal":
            A = rnd(n); ax = rng.normal(size=(n, 3)); ax /= np.linalg.norm(ax, axis=1)[:, None]
            B = A @ SR.from_rotvec(ax * np.pi).as_matrix(); C = rnd(n)
        elif kind == "gimbal":
            e = np.column_stack([rng.uniform(-180, 180, n), rng.choice([0.0, 180.0], n), rng.uniform(-180, 180, n)])
            A = np.stack([R_zxz(*x) for x in e]); B = rnd(n); C = A.copy()
        elif kind == "cube":
            idx = rng.integers(0, 24, (3, n)); A, B, C = (np.stack([cubes[i] for i in idx[k]]) for k in range(3))
        elif kind == "lattice":
            idx = rng.integers(0, len(lattice), (3, n)); A, B, C = (np.stack([R_zxz(*lattice[i]) for i in idx[k]]) for k in range(3))
        else:
            A = B = C = rnd(n)
        normals = rng.normal(size=(n, 3)) * rng.choice([1e-3, 1.0, 50.0])
        if kind == "normals":
            special = np.array([[1, 0, 0], [0, 1, 0], [0, 0, 1], [0, 0, -1], [-1, 0, 0], [0, -2, 0], [3, 0, 4.0]])
            normals = special[rng.integers(0, len(special), n)] * rng.choice([1.0, 0.5, 7.0])
        P = rnd(1)[0]
        yield (ci, kind, n), {"A": A.tolist(), "B": B.tolist(), "C": C.tolist(), "P": P.tolist(), "normals": normals.tolist(), "kind": kind}


def run_case(case):
    from cryocat import geom
    A, B, C, P = (np.array(case[k]) for k in ("A", "B", "C", "P"))
    n = len(A)
    rA, rB, rC = SR.from_matrix(A), SR.from_matrix(B), SR.from_matrix(C)
    tol = 2e-5
    def ad(x, y):
        return np.asarray(geom.angular_distance(x, y)[0], dtype=float)
    r, e = call(lambda: (ad(rA, rB), ad(rB, rA), ad(rA, rA), ad(rA, rC), ad(rB, rC)))
    if e is not None:
        return {"raised": f"angular_distance {type(e).__name__}: {e}"}
    dAB, dBA, dAA, dAC, dBC = r
    exp = np.array([rel_angle(A[i], B[i]) for i in range(n)])
    if dAB.shape != (n,):
        return {"what": "angular_distance result shape", "got": list(dAB.shape)}
    if not np.all(np.isfinite(dAB)) or not np.all(np.isfinite(dAA)):
        return {"what": "angular_distance returned NaN", "kind": case["kind"]}
    # small angles: 2*acos|q1.q2| resolves angles down to ~1e-6 degrees in double precision; compare with the angle from the
    # chord |R1 - R2|_F = 2*sqrt(2)*sin(angle/2) (well conditioned near 0); near 180 degrees compare through the cosine
    chord = np.degrees(2 * np.arcsin(np.clip(np.linalg.norm((A - B).reshape(n, 9), axis=1) / (2 * np.sqrt(2)), 0, 1)))
    small = chord < 1.0
    if np.any(np.abs(dAB[small] - chord[small]) > 2e-5 + 1e-6 * chord[small]):
        i = int(np.argmax(np.where(small, np.abs(dAB - chord), 0)))
        return {"what": "angular distance of two nearly identical (but different) rotations is wrong", "got": float(dAB[i]), "expected": float(chord[i])}
    if not np.allclose(dAB, exp, atol=2e-3) or not np.allclose(np.cos(np.radians(dAB)), np.cos(np.radians(exp)), atol=1e-7):
        i = int(np.argmax(np.abs(dAB - exp)))
        return {"what": "angular distance != rotation angle of the relative rotation", "got": float(dAB[i]), "expected": float(exp[i])}
    if np.any(dAB < 0) or np.any(dAB > 180 + 1e-9):
        return {"what": "angular distance outside [0,180]"}
    if not np.allclose(dAB, dBA, atol=1e-9):
        return {"what": "angular distance not symmetric"}
    if np.any(np.abs(dAA) > 1e-4):
        return {"what": "d(r,r) != 0", "got": float(np.max(np.abs(dAA)))}
    rP = SR.from_matrix(P)
    r2, e = call(lambda: (ad(rP * rA, rP * rB), ad(rA * rP, rB * rP)))
    if e is not None:
        return {"raised": f"{type(e).__name__}: {e}"}
    # invariance, compared through the cosine (well conditioned everywhere)
    for nm, v in zip(("left", "right"), r2):
        if not np.allclose(np.cos(np.radians(v)), np.cos(np.radians(dAB)), atol=1e-7) or not np.allclose(v, dAB, atol=5e-3):
            return {"what": f"angular distance changes under a common {nm} rotation"}
    if np.any(dAC > dAB + dBC + 1e-3):
        return {"what": "triangle inequality violated", "d": [float(dAC.max()), float(dAB.max()), float(dBC.max())]}
    c, e = call(geom.cone_distance, rA, rB)
    if e is not None:
        return {"raised": f"cone_distance {e}"}
    expc = np.degrees(np.arccos(np.clip(np.einsum("ni,ni->n", A[:, :, 2], B[:, :, 2]), -1, 1)))
    if not np.allclose(np.cos(np.radians(c)), np.cos(np.radians(expc)), atol=1e-7):
        return {"what": "cone distance != angle between z-axes"}
    ip, e = call(lambda: (geom.inplane_distance(rA, rB), geom.inplane_distance(rA, rA)))
    if e is not None:
        return {"raised": f"inplane_distance {e}"}
    if np.any(ip[0] < 0) or np.any(ip[0] > 180 + 1e-9) or np.any(np.abs(ip[1]) > 1e-9):
        return {"what": "in-plane distance range / zero for equal orientations"}
    eul = SR.from_matrix(A).as_euler("zxz", degrees=True).reshape(n, 3)
    v, e = call(geom.euler_angles_to_normals, eul)
    if e is not None:
        return {"raised": f"euler_angles_to_normals {e}"}
    v = np.asarray(v)
    if v.shape != (n, 3) or not np.allclose(v, A[:, :, 2], atol=1e-7):
        return {"what": "euler_angles_to_normals: not one unit z-axis image per orientation", "n": n, "lengths": np.linalg.norm(v, axis=1)[:3].tolist()}
    nrm = np.array(case["normals"])
    nrm = nrm[np.linalg.norm(nrm, axis=1) > 0]
    if len(nrm):
        for order in ("zxz", "zzx"):
            a, e = call(geom.normals_to_euler_angles, nrm, order)
            if e is not None:
                return {"raised": f"normals_to_euler_angles {e}"}
            for i in range(len(nrm)):
                phi, the, psi = (a[i, 0], a[i, 1], a[i, 2]) if order == "zxz" else (a[i, 0], a[i, 2], a[i, 1])
                if not np.allclose(R_zxz(phi, the, psi)[:, 2], nrm[i] / np.linalg.norm(nrm[i]), atol=1e-6):
                    return {"what": "normals_to_euler_angles: z-axis of the result is not the normalised normal", "normal": nrm[i].tolist(), "order": order}
        # table input: columns x, y, z picked by name, whatever their position and whatever else the table holds
        df = pd.DataFrame({"score": np.arange(len(nrm), dtype=float), "z": nrm[:, 2], "x": nrm[:, 0], "tomo_id": 1.0, "y": nrm[:, 1]})
        a2, e = call(geom.normals_to_euler_angles, df)
        if e is not None:
            return {"raised": f"normals_to_euler_angles(DataFrame) {e}"}
        for i in range(len(nrm)):
            if not np.allclose(R_zxz(a2[i, 0], a2[i, 1], a2[i, 2])[:, 2], nrm[i] / np.linalg.norm(nrm[i]), atol=1e-6):
                return {"what": "normals_to_euler_angles(DataFrame): z-axis of the result is not the normalised normal", "normal": nrm[i].tolist()}
    return None
