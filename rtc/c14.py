"""C14 bounded stand-in: map rotation convention, windows, placement, symmetrisation on the real code"""
import itertools
import numpy as np
import pandas as pd
from scipy.spatial.transform import Rotation as SR
from .util import *
from .c06 import cube_rotations


def _blob(shape, rng, k=3):
    g = np.meshgrid(*[np.arange(s) for s in shape], indexing="ij")
    v = np.zeros(shape)
    c0 = [s // 2 for s in shape]
    for _ in range(k):
        c = [c0[a] + rng.uniform(-shape[a] / 8, shape[a] / 8) for a in range(3)]
        sg = rng.uniform(1.5, 2.2)
        v += rng.uniform(0.5, 1) * np.exp(-sum((g[a] - c[a]) ** 2 for a in range(3)) / (2 * sg * sg))
    return v


def replay_rotate():
    r = run_case({"kind": "cube", "n": 7, "seed": 1, "rot": 5})
    return {"reproduced": r is not None, "observed": r}


def replay_window(model, vtype=None):
    for vt in ([vtype] if vtype is not None else [0, 1, 2]):
        r = run_case({"kind": "window", "n": 8, "seed": 2, "vtype": vt})
        if r is not None:
            return {"reproduced": True, "input": {"kind": "window", "seed": 2, "vtype": vt}, "observed": r}
    return {"reproduced": False, "observed": None}


def replay_symmetrize(n):
    r = run_case({"kind": "symm", "n": 12, "seed": 3, "fold": n})
    return {"reproduced": r is not None, "observed": r}


def replay_place():
    for s in range(12):
        r = run_case({"kind": "place", "n": 6 + s % 4, "seed": 100 + s, "rot": s, "fold": 2})
        if r is not None:
            return {"reproduced": True, "input": {"kind": "place", "seed": 100 + s}, "observed": r}
    return {"reproduced": False, "input": "12 placement cases", "observed": None}


def gen_cases(seed, n_cases, maxbox=9):
    rng = np.random.default_rng(seed + 1414)
    kinds = ["cube", "inverse", "window", "place", "symm", "pad_crop", "angles_vs_rotation"]
    for ci in range(n_cases):
        kind = kinds[ci % len(kinds)]
        n = int(rng.integers(5, maxbox + 1))
        yield (ci, kind, n), {"kind": kind, "n": n, "seed": int(rng.integers(1 << 30)), "rot": int(rng.integers(0, 24)), "fold": int(rng.integers(2, 13))}


def run_case(c):
    from cryocat import cryomap, cryomotl
    rng = np.random.default_rng(c["seed"])
    kind, n = c["kind"], c["n"]
    if kind == "cube":
        # right-angle rotations permute interior voxels exactly: out[cen + R v] = in[cen + v]
        R = cube_rotations()[c["rot"]]
        x = rng.normal(size=(n, n, n))
        out, e = call(cryomap.rotate, x, rotation=SR.from_matrix(R), transpose_rotation=True)
        if e is not None:
            return {"raised": f"rotate {type(e).__name__}: {e}"}
        cen = n // 2
        for v in itertools.product(range(-cen + 1, n - cen - 1), repeat=3):
            w = R @ np.array(v)
            src = tuple(cen + np.array(v)); dst = tuple((cen + np.rint(w)).astype(int))
            if all(1 <= d < n - 1 for d in dst) and all(1 <= s < n - 1 for s in src):
                if abs(out[dst] - x[src]) > 1e-6:
                    return {"what": "right-angle rotation does not move the voxel at offset v to offset R v", "v": list(v), "R": R.tolist(), "box": n}
        ang = SR.from_matrix(R).as_euler("zxz", degrees=True)
        out2, e = call(cryomap.rotate, x, rotation_angles=ang)
        if e is not None or not np.allclose(out2[2:-2, 2:-2, 2:-2], out[2:-2, 2:-2, 2:-2], atol=1e-5):
            return {"what": "rotation_angles (zxz) and rotation=..., transpose_rotation=True disagree"}
        return None
    if kind == "inverse":
        shape = (2 * n + 10, 2 * n + 10, 2 * n + 10)
        x = _blob(shape, rng)
        r = SR.random(random_state=c["seed"] % 100000)
        y, e = call(cryomap.rotate, x, rotation=r, transpose_rotation=True)
        if e is None:
            z, e = call(cryomap.rotate, y, rotation=r.inv(), transpose_rotation=True)
        if e is not None:
            return {"raised": f"{e}"}
        if np.abs(z - x).max() > 0.05 * x.max():
            return {"what": "rotating by the inverse does not restore a smooth map", "err": float(np.abs(z - x).max() / x.max())}
        # the blob's centre of mass moves by R (active convention, same as particle orientations)
        g = np.meshgrid(*[np.arange(s) for s in shape], indexing="ij")
        cen = np.array(shape) // 2
        com = lambda a: np.array([(g[k] * a).sum() / a.sum() for k in range(3)]) - cen
        if np.linalg.norm(com(y) - r.as_matrix() @ com(x)) > 0.15:
            return {"what": "density at offset v does not move to offset R v", "com_in": com(x).tolist(), "com_out": com(y).tolist(), "expected": (r.as_matrix() @ com(x)).tolist()}
        return None
    if kind == "angles_vs_rotation":
        shape = (2 * n + 10, 2 * n + 10, 2 * n + 10)
        x = _blob(shape, rng)
        ang = rng.uniform(-180, 180, 3); ang[1] = abs(ang[1])
        y, e = call(cryomap.rotate, x, rotation_angles=ang)
        if e is not None:
            return {"raised": f"{e}"}
        g = np.meshgrid(*[np.arange(s) for s in shape], indexing="ij"); cen = np.array(shape) // 2
        com = lambda a: np.array([(g[k] * a).sum() / a.sum() for k in range(3)]) - cen
        if np.linalg.norm(com(y) - R_zxz(*ang) @ com(x)) > 0.15:
            return {"what": "rotate(rotation_angles) does not apply R = Rz(psi)Rx(theta)Rz(phi) actively", "angles": ang.tolist()}
        return None
    if kind == "window":
        vs_ = tuple(int(v) for v in rng.integers(6, 14, 3)); ss_ = tuple(int(2 * v) for v in rng.integers(1, 5, 3))
        vol = rng.normal(size=vs_)
        # tomograms and masks are often integer-typed (int16 / uint8 / int8 MRC modes): the fill value is the (non-integer) mean all the same
        if c.get("vtype", c["seed"] % 3) == 1:
            vol = rng.integers(-300, 900, size=vs_).astype(np.int16)
        elif c.get("vtype", c["seed"] % 3) == 2:
            vol = (rng.random(size=vs_) < 0.4).astype(np.uint8)
        for _ in range(12):
            coord = np.array([rng.integers(-6, vs_[a] + 6) for a in range(3)], dtype=float)
            if rng.random() < 0.3:
                coord += 0.5
            sub, e = call(cryomap.extract_subvolume, vol, coord, ss_)
            if e is not None:
                return {"raised": f"extract_subvolume {type(e).__name__}: {e}", "coord": coord.tolist()}
            exp = np.full(ss_, vol.mean())
            st = np.floor(coord - np.array(ss_) / 2).astype(int)
            for s in itertools.product(*[range(k) for k in ss_]):
                p = st + np.array(s)
                if np.all(p >= 0) and np.all(p < vs_):
                    exp[s] = vol[tuple(p)]
            if sub.shape != ss_ or not np.allclose(sub, exp):
                return {"what": "extract_subvolume: window / volume-mean fill", "coord": coord.tolist(), "volume": vs_, "window": ss_, "volume_dtype": str(vol.dtype)}
        return None
    if kind == "pad_crop":
        shp = tuple(int(v) for v in rng.integers(4, 10, 3)); vol = rng.normal(size=shp)
        new = tuple(int(s + rng.integers(0, 6)) for s in shp)
        p, e = call(cryomap.pad, vol, new, 7.5)
        if e is not None:
            return {"raised": f"pad {e}"}
        st = [int(np.ceil((new[a] - shp[a]) / 2)) for a in range(3)]
        exp = np.full(new, 7.5); exp[st[0]:st[0] + shp[0], st[1]:st[1] + shp[1], st[2]:st[2] + shp[2]] = vol
        if not np.array_equal(p, exp):
            return {"what": "pad does not centre the volume"}
        small = tuple(int(2 * max(1, s // 4)) for s in shp)
        cr, e = call(cryomap.crop, vol, list(small))
        if e is not None:
            return {"raised": f"crop {e}"}
        st = [shp[a] // 2 - small[a] // 2 for a in range(3)]
        if not np.array_equal(cr, vol[st[0]:st[0] + small[0], st[1]:st[1] + small[1], st[2]:st[2] + small[2]]):
            return {"what": "crop is not the central window"}
        return None
    if kind == "place":
        box = 2 * (n // 2) + 6
        tpl = np.zeros((box, box, box)); tpl[box // 2, box // 2, box // 2:box // 2 + 3] = 1.0; tpl[box // 2, box // 2 + 1, box // 2] = 1.0  # an asymmetric marker
        npart = int(rng.integers(1, 6))
        rows = random_motl_rows(rng, npart, n_tomos=1, big_angles=False)
        cubes = cube_rotations()
        used = []
        for i, r in enumerate(rows):
            R = cubes[int(rng.integers(0, 24))]
            a = SR.from_matrix(R).as_euler("zxz", degrees=True)
            r["phi"], r["theta"], r["psi"] = [float(v) for v in a]
            pos = np.array([12 + 14 * i, 15, 16], dtype=float)
            r["x"], r["y"], r["z"] = [float(v) for v in pos]; r["shift_x"] = r["shift_y"] = r["shift_z"] = 0.0
            r["object_id"] = float(i + 2)
            used.append((R, pos))
        m = motl_from_rows(rows)
        # both documented call forms: one template for all particles / a list with one template per particle (here: the marker and its mirror image)
        as_list = bool(c["seed"] % 2)
        tpls = [tpl if i % 2 == 0 else tpl[:, ::-1, :].copy() for i in range(npart)] if as_list else [tpl] * npart
        out, e = call(cryomap.place_object, (tpls if as_list else tpl), m, volume_shape=(14 * npart + 20, 32, 32))
        if e is not None:
            return {"raised": f"place_object {type(e).__name__}: {e}"}
        exp = np.zeros_like(out)
        cen = box // 2
        for i, (R, pos) in enumerate(used):
            for v in np.argwhere(tpls[i] > 0.1) - cen:
                tgt = (pos - 1 + R @ v).astype(int)  # 1-based particle position -> 0-based voxel
                exp[tuple(tgt)] = rows[i]["object_id"]
        if not np.array_equal(out, exp):
            return {"what": "place_object: stamped voxels differ from rotated template at (position - 1) with the colouring value", "n_out": int((out > 0).sum()), "n_expected": int((exp > 0).sum()), "template_list": as_list}
        return None
    # symmetrisation
    fold = c["fold"]
    shape = (2 * n + 11,) * 3
    x = _blob(shape, rng, k=2)
    s, e = call(cryomap.symmetrize_volume, x, fold)
    if e is not None:
        return {"raised": f"symmetrize_volume {type(e).__name__}: {e}"}
    if not np.all(np.isfinite(s)):
        return {"what": "symmetrised map contains NaN/inf (uninitialised accumulator)", "n": fold}
    copies = [cryomap.rotate(x, rotation_angles=[0, 0, 360.0 * k / fold]) for k in range(fold)]
    # (a rotation by exactly 360 degrees differs from the identity by the spline prefilter's edge effect: tolerance 1 % of the maximum)
    if np.abs(s - np.mean(copies, axis=0)).max() > 0.01 * np.abs(x).max():
        return {"what": "result is not the mean of the n copies rotated by multiples of 360/n", "n": fold}
    r1 = cryomap.rotate(s, rotation_angles=[0, 0, 360.0 / fold])
    if np.abs(r1 - s).max() > 0.03 * s.max():
        return {"what": "symmetrised map is not invariant under rotation by 360/n", "n": fold, "err": float(np.abs(r1 - s).max() / s.max())}
    if abs(s.sum() - x.sum()) > 0.02 * x.sum():
        return {"what": "total density changed", "n": fold}
    return None
