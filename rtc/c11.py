"""C11 bounded stand-in: map files written by the real code, parsed by independent MRC / EM readers"""
import os, struct
import numpy as np
from .util import *
from .c01 import parse_em


def parse_mrc(path):
    b = open(path, "rb").read()
    nx, ny, nz, mode = struct.unpack("<4i", b[:16])
    mapc, mapr, maps = struct.unpack("<3i", b[64:76])
    nsymbt = struct.unpack("<i", b[92:96])[0]
    dt = {0: "<i1", 1: "<i2", 2: "<f4", 6: "<u2", 12: "<f2"}.get(mode)
    if dt is None:
        return {"error": f"mode {mode}"}
    data = np.frombuffer(b[1024 + nsymbt:], dtype=dt)
    if data.size != nx * ny * nz:
        return {"error": f"payload {data.size} != {nx}*{ny}*{nz}"}
    return {"dims": (nx, ny, nz), "mode": mode, "axes": (mapc, mapr, maps), "data": data.reshape(nz, ny, nx)}


def replay_roundtrip(cfg):
    c = {"shape": (3, 4, 5), "dtype": cfg.get("dtype", "float32"), "ext": cfg.get("ext", ".mrc"), "transpose": cfg.get("transpose", True), "data_type": cfg.get("data_type"), "seed": 1, "kind": "roundtrip"}
    r = run_case(c)
    return {"reproduced": r is not None, "input": c, "observed": r}


def gen_cases(seed, n_cases, maxn=12):
    rng = np.random.default_rng(seed + 1111)
    for ci in range(n_cases):
        shape = tuple(int(v) for v in rng.integers(1, maxn + 1, 3))
        if ci % 7 == 0:
            shape = (int(rng.integers(1, maxn + 1)), 1, int(rng.integers(2, maxn + 1)))
        yield (ci, [".mrc", ".rec", ".em"][ci % 3], shape, ["float32", "float64", "int16", "int8"][ci % 4]), {
            "shape": shape, "dtype": ["float32", "float64", "int16", "int8"][ci % 4], "ext": [".mrc", ".rec", ".em"][ci % 3], "transpose": bool(ci % 5 != 0),
            "data_type": [None, None, "float32", None][ci % 4] if ci % 11 else "int16", "seed": int(rng.integers(1 << 30)), "kind": ["roundtrip", "roundtrip", "convert"][ci % 3]}


def run_case(c):
    from cryocat import cryomap
    rng = np.random.default_rng(c["seed"])
    shape, dtype, ext = tuple(c["shape"]), c["dtype"], c["ext"]
    d = (rng.normal(0, 50, shape)).astype(dtype) if dtype.startswith("float") else rng.integers(-100, 100, shape).astype(dtype)
    keep = d.copy()
    with scratch() as tmp:
        if c["kind"] == "roundtrip":
            p = os.path.join(tmp, "vol" + ext)
            dt = None if c["data_type"] is None else getattr(np, c["data_type"])
            _, e = call(cryomap.write, d, p, transpose=c["transpose"], data_type=dt)
            if e is not None:
                return {"raised": f"write {type(e).__name__}: {e}"}
            if not np.array_equal(d, keep):
                return {"what": "write modified its input"}
            exp = keep.astype(dt) if dt is not None else keep
            if exp.dtype == np.float64:
                exp = exp.astype(np.float32)
            f = parse_em(p) if ext == ".em" else parse_mrc(p)
            if "error" in f:
                return {"what": "written file not parseable", "detail": f["error"]}
            onfile = exp.transpose(2, 1, 0) if c["transpose"] else exp
            want_dims = (onfile.shape[2], onfile.shape[1], onfile.shape[0])
            if tuple(f["dims"]) != want_dims:
                return {"what": "header nx,ny,nz do not match the array shape (x fastest)", "header": list(f["dims"]), "expected": list(want_dims)}
            if ext != ".em" and f["axes"] != (1, 2, 3):
                return {"what": "MRC axis order mapc/mapr/maps", "got": f["axes"]}
            if f["data"].dtype.itemsize != onfile.dtype.itemsize or not np.array_equal(f["data"].astype(np.float64), onfile.astype(np.float64)):
                return {"what": "voxels on disk differ (x index must vary fastest)", "dtype_on_disk": str(f["data"].dtype), "expected": str(onfile.dtype)}
            back, e = call(cryomap.read, p, transpose=c["transpose"])
            if e is not None:
                return {"raised": f"read {type(e).__name__}: {e}"}
            if back.shape != exp.shape or not np.array_equal(back.astype(np.float64), exp.astype(np.float64)):
                return {"what": "read(write(d)) != d (narrowed)", "shape": list(back.shape), "expected": list(exp.shape)}
            # writers refuse to overwrite when told not to
            _, e = call(cryomap.write, d, p, transpose=c["transpose"], overwrite=False)
            if e is None:
                return {"what": "existing file overwritten although overwrite=False"}
            return None
        # conversions
        src_ext, dst_ext, fn = (".em", ".mrc", cryomap.em2mrc) if c["seed"] % 2 else (".mrc", ".em", cryomap.mrc2em)
        d = d.astype(np.float32) if d.dtype == np.float64 else d
        src = os.path.join(tmp, "in.v2" + src_ext)
        cryomap.write(d, src)
        for invert in (False, True):
            for explicit in (False, True):
                out = os.path.join(tmp, f"o{int(invert)}{dst_ext}") if explicit else None
                exp_path = out or os.path.join(tmp, "in.v2" + dst_ext)
                if os.path.exists(exp_path):
                    os.remove(exp_path)
                _, e = call(fn, src, invert=invert, output_name=out)
                if e is not None:
                    return {"raised": f"{fn.__name__} {type(e).__name__}: {e}"}
                if not os.path.exists(exp_path):
                    return {"what": "default output name does not replace exactly the extension", "expected": exp_path, "dir": os.listdir(tmp)}
                f = parse_mrc(exp_path) if dst_ext == ".mrc" else parse_em(exp_path)
                if "error" in f or tuple(f["dims"]) != shape:
                    return {"what": "converted file header", "got": f.get("dims")}
                want = (-d if invert else d).transpose(2, 1, 0)
                if not np.array_equal(f["data"].astype(np.float64), want.astype(np.float64)):
                    return {"what": "conversion changed voxels", "invert": invert}
                _, e = call(fn, src, invert=invert, output_name=out, overwrite=False)
                if e is None:
                    return {"what": "conversion overwrote an existing file although overwrite=False"}
        for bad_in, bad_out in ((os.path.join(tmp, "x.txt"), None), (src, os.path.join(tmp, "y.abc"))):
            _, e = call(fn, bad_in, output_name=bad_out)
            if not isinstance(e, ValueError):
                return {"what": "wrong extension not rejected with ValueError", "got": repr(e)}
        return None
