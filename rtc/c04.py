"""C04 replay builders and bounded stand-in (real code; written STAR parsed by an independent reader)"""
import os
import numpy as np
import pandas as pd
from .util import *

DOC_PAIRS = {"subtomo_id": "subtomo_num", "tomo_id": "tomo_num", "object_id": "object", "x": "orig_x", "y": "orig_y", "z": "orig_z",
             "score": "score", "shift_x": "x_shift", "shift_y": "y_shift", "shift_z": "z_shift", "phi": "phi", "psi": "psi", "theta": "the", "class": "class"}
DOC_COLUMNS = ["motl_idx", "tomo_num", "object", "subtomo_num", "halfset", "orig_x", "orig_y", "orig_z", "score", "x_shift", "y_shift", "z_shift", "phi", "psi", "the", "class"]


def independent_star_read(path):
    """blocks of a STAR file: split lines on '#', tokens on whitespace"""
    blocks, cur = [], None
    for raw in open(path).read().split("\n"):
        line = raw.split("#", 1)[0].strip()
        if not line:
            continue
        tok = line.split()
        if tok[0].startswith("data_"):
            cur = {"name": tok[0], "cols": [], "rows": []}
            blocks.append(cur)
        elif tok[0] == "loop_":
            continue
        elif tok[0].startswith("_"):
            cur["cols"].append(tok[0][1:])
        else:
            cur["rows"].append(tok)
    return blocks


def _check_export(df_in, sg, reset):
    if list(sg.columns) != DOC_COLUMNS:
        return {"what": "stopgap columns/order", "got": list(sg.columns)}
    if len(sg) != len(df_in):
        return {"what": "row count"}
    for em, star in DOC_PAIRS.items():
        if not np.array_equal(sg[star].values.astype(float), df_in[em].values.astype(float)):
            return {"what": f"field {em} -> {star} not copied unchanged"}
    exp_h = np.where(df_in["subtomo_id"].values % 2 == 0, "A", "B")
    if list(sg["halfset"].values) != list(exp_h):
        return {"what": "halfset parity", "got": list(sg["halfset"].values)[:5], "expected": list(exp_h)[:5]}
    exp_idx = np.arange(1, len(df_in) + 1) if reset else df_in["subtomo_id"].values
    if not np.array_equal(sg["motl_idx"].values.astype(float), exp_idx.astype(float)):
        return {"what": "motl_idx"}
    return None


def replay_export(model, reset):
    from cryocat import cryomotl
    row = row_from_model(model); row["subtomo_id"] = float(int(fval(model.get("subtomo_id"), 3)))
    df = pd.DataFrame([row], columns=MOTL_COLS).astype(float)
    sg, e = call(cryomotl.StopgapMotl.convert_to_sg_motl, df.copy(), reset)
    if e is not None:
        return {"reproduced": True, "input": row, "observed": f"raised {type(e).__name__}: {e}"}
    r = _check_export(df, sg, reset)
    return {"reproduced": r is not None, "input": row, "observed": r}


def replay_import(model):
    from cryocat import cryomotl
    d = {c: [fval(model.get("sg_" + c), 1.0)] for c in DOC_COLUMNS if c != "halfset"}
    d["halfset"] = ["A"]
    sg = pd.DataFrame(d)[DOC_COLUMNS]
    m, e = call(cryomotl.StopgapMotl, sg)
    if e is not None:
        return {"reproduced": True, "input": d, "observed": f"raised {type(e).__name__}: {e}"}
    bad = any(float(m.df[em].iloc[0]) != d[star][0] for em, star in DOC_PAIRS.items())
    return {"reproduced": bool(bad), "input": d, "observed": m.df.iloc[0].to_dict()}


def _recentre(exp):
    exp = exp.copy()
    pos = exp[["x", "y", "z"]].values + exp[["shift_x", "shift_y", "shift_z"]].values
    xr = np.where(pos >= 0, np.floor(pos + 0.5), -np.floor(-pos + 0.5))
    exp[["x", "y", "z"]] = xr
    exp[["shift_x", "shift_y", "shift_z"]] = pos - xr
    return exp


def _check_file(path, exp, reset, tag="file"):
    bl = independent_star_read(path)
    if len(bl) != 1 or bl[0]["name"] != "data_stopgap_motivelist" or bl[0]["cols"] != DOC_COLUMNS:
        return {"what": f"{tag}: written file layout", "got": [(b["name"], b["cols"]) for b in bl]}
    sg = pd.DataFrame(bl[0]["rows"], columns=DOC_COLUMNS)
    hs = sg["halfset"].copy()
    sg = sg.drop(columns=["halfset"]).astype(float); sg["halfset"] = hs
    for em, star in DOC_PAIRS.items():
        if not np.allclose(sg[star].values, exp[em].values, atol=1e-6, rtol=0):
            return {"what": f"{tag}: field {em} -> {star}", "got": sg[star].values[:3].tolist(), "expected": exp[em].values[:3].tolist()}
    if list(sg["halfset"]) != list(np.where(exp["subtomo_id"].values % 2 == 0, "A", "B")):
        return {"what": f"{tag}: halfset"}
    if not np.array_equal(sg["motl_idx"].values, (np.arange(1, len(exp) + 1) if reset else exp["subtomo_id"].values).astype(float)):
        return {"what": f"{tag}: motl_idx"}
    return None


def gen_cases(seed, n_cases):
    rng = np.random.default_rng(seed + 404)
    for ci in range(n_cases):
        n = 300 if ci % 19 == 18 else int(rng.integers(1, 30))
        rows = random_motl_rows(rng, n, n_tomos=4)
        ids = rng.permutation(np.arange(1, 4 * n + 1))[:n]
        for r, i in zip(rows, ids):
            r["subtomo_id"] = float(i)
            r["score"] = float(rng.uniform(-1, 1))
            if rng.random() < 0.15:
                # magnitudes that a writer prints in exponent notation (5e-05, 1.25e+16): still numbers when read back
                r[str(rng.choice(["score", "shift_x", "shift_z"]))] = float(rng.choice([5e-05, -3.2e-06, 7.5e-07, 2.5e-05]))
        kind = ["memory", "file", "convert_fn", "import_independent"][ci % 4]
        yield (ci, kind, n), {"rows": rows, "kind": kind, "reset": bool(rng.random() < 0.5), "update": bool(rng.random() < 0.5)}


def run_case(case):
    from cryocat import cryomotl
    df = pd.DataFrame(case["rows"], columns=MOTL_COLS).astype(float)
    kind, reset, upd = case["kind"], case["reset"], case["update"]
    with scratch() as tmp:
        if kind == "memory":
            sg, e = call(cryomotl.StopgapMotl.convert_to_sg_motl, df.copy(), reset)
            if e is not None:
                return {"raised": f"{type(e).__name__}: {e}"}
            r = _check_export(df, sg, reset)
            if r:
                return r
            m, e = call(cryomotl.StopgapMotl, sg)
            if e is not None:
                return {"raised": f"import {type(e).__name__}: {e}"}
            for em in DOC_PAIRS:
                if not np.array_equal(m.df[em].values.astype(float), df[em].values):
                    return {"what": f"export;import changed {em}"}
            return None
        if kind in ("file", "convert_fn"):
            path = os.path.join(tmp, "m.star")
            if kind == "file":
                m = cryomotl.StopgapMotl(df.copy())
                _, e = call(m.write_out, path, update_coord=upd, reset_index=reset)
            else:
                _, e = call(cryomotl.emmotl2stopgap, df.copy(), path, update_coordinates=upd, reset_index=reset)
            if e is not None:
                return {"raised": f"write {type(e).__name__}: {e}"}
            exp = _recentre(df) if upd else df.copy()
            r = _check_file(path, exp, reset)
            if r:
                return r
            m2, e = call(cryomotl.StopgapMotl, path)
            if e is not None:
                return {"raised": f"read {type(e).__name__}: {e}"}
            for em in DOC_PAIRS:
                if not np.allclose(m2.df[em].values.astype(float), exp[em].values, atol=1e-6, rtol=0):
                    return {"what": f"write;load changed {em}"}
            # a list loaded from STOPGAP form is exported from its CURRENT particle table: write it again with recentring, other reset choice
            path2 = os.path.join(tmp, "m2.star")
            reset2 = not reset if case.get("flip_reset", True) else reset
            loaded = m2.df.copy()  # verified above to equal exp to STAR precision; the recentring reference starts from what was loaded
            _, e = call(m2.write_out, path2, update_coord=True, reset_index=reset2)
            if e is not None:
                return {"raised": f"second write {type(e).__name__}: {e}"}
            r = _check_file(path2, _recentre(loaded.astype(float)), reset2, "load;write(update_coord)")
            if r:
                return r
            m3, e = call(cryomotl.StopgapMotl, path)
            if e is not None:
                return {"raised": f"read {type(e).__name__}: {e}"}
            m3.df["score"] = m3.df["score"].values[::-1].copy()
            m3.df["class"] = m3.df["class"].values + 1.0
            exp3 = exp.copy(); exp3["score"] = exp["score"].values[::-1].copy(); exp3["class"] = exp["class"].values + 1.0
            path3 = os.path.join(tmp, "m3.star")
            _, e = call(m3.write_out, path3, update_coord=False, reset_index=reset)
            if e is not None:
                return {"raised": f"write after edit {type(e).__name__}: {e}"}
            r = _check_file(path3, exp3, reset, "load;edit;write")
            if r:
                return r
            em2, e = call(cryomotl.stopgap2emmotl, path)
            if e is not None:
                return {"raised": f"stopgap2emmotl {type(e).__name__}: {e}"}
            if not np.allclose(em2.df[list(DOC_PAIRS)].values.astype(float), exp[list(DOC_PAIRS)].values, atol=1e-6, rtol=0):
                return {"what": "stopgap2emmotl changed a field"}
            return None
        # independent STOPGAP table -> import
        sg = pd.DataFrame({star: df[em].values for em, star in DOC_PAIRS.items()})
        sg["motl_idx"] = np.arange(1, len(df) + 1); sg["halfset"] = np.where(df["subtomo_id"].values % 2 == 0, "A", "B")
        m, e = call(cryomotl.StopgapMotl, sg[DOC_COLUMNS])
        if e is not None:
            return {"raised": f"{type(e).__name__}: {e}"}
        for em in DOC_PAIRS:
            if not np.array_equal(m.df[em].values.astype(float), df[em].values):
                return {"what": f"import changed {em}"}
        if sorted(m.df.columns) != sorted(MOTL_COLS) or len(m.df) != len(df):
            return {"what": "imported table shape"}
        # an in-memory STOPGAP table with non-canonical halfset / motl_idx: export still follows the parity / numbering rule
        sg2 = sg[DOC_COLUMNS].copy()
        sg2["halfset"] = np.where(np.arange(len(df)) % 3 == 0, "A", "B"); sg2["motl_idx"] = np.arange(len(df), 0, -1) + 7
        mm, e = call(cryomotl.StopgapMotl, sg2)
        if e is not None:
            return {"raised": f"{type(e).__name__}: {e}"}
        path = os.path.join(tmp, "i.star")
        _, e = call(mm.write_out, path, update_coord=upd, reset_index=reset)
        if e is not None:
            return {"raised": f"write {type(e).__name__}: {e}"}
        return _check_file(path, _recentre(df) if upd else df, reset, "import;write")
