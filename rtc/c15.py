"""C15 bounded stand-in: tilt-stack operations of the real code vs plain numpy selections, all order combinations, file and array input"""
import os
import numpy as np
from .util import *
from .c11 import parse_mrc


def replay_op(name, cfg):
    c = {"op": {"crop": "crop", "sort_tilts_by_angle": "sort", "remove_tilts": "remove", "flip_along_axes": "flip"}.get(name, "crop"), "n": 5, "h": 6, "w": 9, "dtype": "float32",
         "in": cfg.get("in", "xyz"), "out": cfg.get("out", "xyz"), "file_input": False, "write": True, "seed": 4, "from1": cfg.get("from1", True)}
    r = run_case(c)
    return {"reproduced": r is not None, "input": c, "observed": r}


def gen_cases(seed, n_cases, maxn=12):
    rng = np.random.default_rng(seed + 1515)
    ops = ["crop", "sort", "remove", "bin", "split", "flip", "merge"]
    for ci in range(n_cases):
        yield (ci, ops[ci % 7], ci % 4), {"op": ops[ci % 7], "n": int(rng.integers(2, 26)), "h": int(rng.integers(4, maxn + 1)), "w": int(rng.integers(4, maxn + 1)),
                                         "dtype": str(rng.choice(["float32", "int16"])), "in": str(rng.choice(["xyz", "zyx"])), "out": str(rng.choice(["xyz", "zyx"])),
                                         "file_input": bool(rng.random() < 0.35), "write": bool(rng.random() < 0.6), "seed": int(rng.integers(1 << 30)), "from1": bool(rng.random() < 0.7),
                                         "crop_given": str(rng.choice(["both", "width", "height", "none"]))}


def run_case(c):
    from cryocat import tiltstack
    rng = np.random.default_rng(c["seed"])
    n, h, w = c["n"], c["h"], c["w"]
    if c["h"] == c["w"]:
        w += 1
    base = (rng.normal(0, 20, (n, h, w))).astype(c["dtype"]) if c["dtype"] == "float32" else rng.integers(-200, 200, (n, h, w)).astype(c["dtype"])  # (n, y, x)
    with scratch() as tmp:
        if c["file_input"]:
            from cryocat import cryomap
            src = os.path.join(tmp, "in.mrc")
            cryomap.write(base, src, transpose=False)
            inp, in_order = src, c["in"]  # input_order is irrelevant for files (always read as n,y,x)
        else:
            inp = base.transpose(2, 1, 0).copy() if c["in"] == "xyz" else base.copy()
            in_order = c["in"]
        keep = None if c["file_input"] else inp.copy()
        out_file = os.path.join(tmp, "out.mrc") if c["write"] else None
        kw = {"input_order": in_order, "output_order": c["out"]}
        op = c["op"]
        results, expect = None, None
        if op == "crop":
            nw, nh = int(rng.integers(1, w + 1)), int(rng.integers(1, h + 1))
            given = c.get("crop_given", "both")
            a_w = nw if given in ("both", "width") else None
            a_h = nh if given in ("both", "height") else None
            nw, nh = (nw if a_w is not None else w), (nh if a_h is not None else h)
            r, e = call(tiltstack.crop, inp, new_width=a_w, new_height=a_h, output_file=out_file, **kw)
            sx, sy = w // 2 - nw // 2, h // 2 - nh // 2
            expect = base[:, sy:sy + nh, sx:sx + nw]
            _, e2 = call(tiltstack.crop, inp, new_width=w + 1, **kw)
            if not isinstance(e2, ValueError):
                return {"what": "crop larger than the image not rejected"}
        elif op == "sort":
            ang = rng.permutation(np.linspace(-60, 60, n)) + rng.uniform(-0.4, 0.4, n)
            r, e = call(tiltstack.sort_tilts_by_angle, inp, ang, output_file=out_file, **kw)
            expect = base[np.argsort(ang)]
        elif op == "remove":
            k = int(rng.integers(1, n))
            idx0 = np.sort(rng.choice(n, size=k, replace=False))
            given = idx0 + 1 if c["from1"] else idx0
            r, e = call(tiltstack.remove_tilts, inp, list(int(v) for v in given), numbered_from_1=c["from1"], output_file=out_file, **kw)
            expect = base[[i for i in range(n) if i not in set(idx0.tolist())]]
            _, e2 = call(tiltstack.remove_tilts, inp, [n + (1 if c["from1"] else 0)], numbered_from_1=c["from1"], **kw)
            if not isinstance(e2, IndexError):
                return {"what": "out-of-range tilt index not rejected with IndexError", "got": repr(e2)}
        elif op == "bin":
            b = int(rng.choice([2, 3]))
            r, e = call(tiltstack.bin, inp, b, output_file=out_file, **kw)
            hh, ww = h // b, w // b
            expect = base[:, :hh * b, :ww * b].astype(np.float64).reshape(n, hh, b, ww, b).mean(axis=(2, 4))
        elif op == "split":
            pref = os.path.join(tmp, "sp") if c["write"] else None
            r, e = call(tiltstack.split_stack_even_odd, inp, output_file_prefix=pref, **kw)
            out_file = None
        elif op == "flip":
            ax = str(rng.choice(["x", "y", "z"]))
            r, e = call(tiltstack.flip_along_axes, inp, [ax], output_file=out_file, **kw)
            expect = {"x": base[:, ::-1, :], "y": base[:, :, ::-1], "z": base[::-1]}[ax]
            r2, e2 = call(tiltstack.flip_along_axes, inp, [ax, ax], **kw)
            if e2 is not None or not np.array_equal(np.asarray(r2), base.transpose(2, 1, 0) if c["out"] == "xyz" else base):
                return {"what": "flipping twice along the same axis is not the identity", "axis": ax}
        else:  # merge
            from cryocat import cryomap
            parts = np.array_split(np.arange(n), 2)
            for j, p in enumerate(parts):
                cryomap.write(base[p], os.path.join(tmp, f"part_{j + 1}.mrc"), transpose=False)
            r, e = call(tiltstack.merge, os.path.join(tmp, "part_*.mrc"), output_file=out_file, output_order=c["out"])
            expect = base
            keep = None
        if e is not None:
            return {"raised": f"{op}: {type(e).__name__}: {e}", "orders": (c["in"], c["out"]), "file_input": c["file_input"]}
        if keep is not None and not np.array_equal(inp, keep):
            return {"what": f"{op} modified its input array"}

        def to_nyx(a):
            a = np.asarray(a)
            return a.transpose(2, 1, 0) if c["out"] == "xyz" else a

        if op == "split":
            ev, od = to_nyx(r[0]), to_nyx(r[1])
            if not np.array_equal(ev, base[0::2]) or not np.array_equal(od, base[1::2]):
                return {"what": "even/odd split: even[k] != in[2k] or odd[k] != in[2k+1]", "orders": (c["in"], c["out"])}
            inter = np.empty_like(base); inter[0::2], inter[1::2] = ev, od
            if not np.array_equal(inter, base):
                return {"what": "interleaving the halves does not restore the input"}
            if c["write"]:
                for nm, exp in (("_even.mrc", base[0::2]), ("_odd.mrc", base[1::2])):
                    f = parse_mrc(os.path.join(tmp, "sp" + nm))
                    if "error" in f or not np.array_equal(f["data"], exp):
                        return {"what": "written half-stack differs from the returned one"}
            return None
        got = to_nyx(r)
        if op == "bin":
            if c["dtype"] == "int16":
                ok = got.shape[0] == n and np.array_equal(got[:, :expect.shape[1], :expect.shape[2]], expect.astype(np.int16))
            else:
                ok = got.shape[0] == n and np.allclose(got[:, :expect.shape[1], :expect.shape[2]], expect, atol=1e-3)
            if not ok:
                return {"what": "binning: complete blocks are not the block means", "orders": (c["in"], c["out"]), "shape": list(got.shape)}
        elif got.shape != expect.shape or not np.array_equal(got, expect):
            return {"what": f"{op}: result differs from the plain selection", "orders": (c["in"], c["out"]), "file_input": c["file_input"], "got_shape": list(got.shape), "expected_shape": list(expect.shape)}
        if got.dtype != base.dtype:
            return {"what": f"{op}: dtype changed", "got": str(got.dtype)}
        if out_file:
            f = parse_mrc(out_file)
            if "error" in f or f["data"].shape != got.shape or f["data"].dtype.itemsize != got.dtype.itemsize or not np.array_equal(f["data"].astype(np.float64), got.astype(np.float64)):
                return {"what": f"{op}: the written file does not hold the result in (n,y,x) order", "file_shape": list(f["data"].shape) if "data" in f else None, "result_shape": list(got.shape)}
    return None
