"""C03 replay builders and bounded stand-in: RELION export / import / round trip on the real code against independent
matrices and an independent RELION table writer"""
import os
import re
import numpy as np
import pandas as pd
from scipy.spatial.transform import Rotation as SR
from .util import *


def relion_matrix(rot, tilt, psi):
    """Rz(rot) Ry(tilt) Rz(psi), by hand"""
    a, b, c = np.deg2rad([rot, tilt, psi])
    Rz = lambda t: np.array([[np.cos(t), -np.sin(t), 0], [np.sin(t), np.cos(t), 0], [0, 0, 1]])
    Ry = lambda t: np.array([[np.cos(t), 0, np.sin(t)], [0, 1, 0], [-np.sin(t), 0, np.cos(t)]])
    return Rz(a) @ Ry(b) @ Rz(c)


def _mk(rows, version, p=1.0, b=1.0):
    from cryocat import cryomotl
    df = pd.DataFrame(rows, columns=MOTL_COLS).astype(float)
    return cryomotl.RelionMotl(df, version=version, pixel_size=p, binning=b)


def replay_angles_to(model):
    row = row_from_model(model)
    m = _mk([row], 3.1)
    rdf = pd.DataFrame({"rlnAngleRot": [0.0], "rlnAngleTilt": [0.0], "rlnAnglePsi": [0.0]})
    r, e = call(m.convert_angles_to_relion, rdf)
    if e is not None:
        return {"reproduced": True, "input": row, "observed": f"raised {type(e).__name__}: {e}"}
    A = relion_matrix(r["rlnAngleRot"][0], r["rlnAngleTilt"][0], r["rlnAnglePsi"][0])
    return {"reproduced": bool(not np.allclose(A, R_zxz(row["phi"], row["theta"], row["psi"]).T, atol=1e-7)), "input": row, "observed": r.iloc[0].to_dict()}


def replay_angles_from(model, columns=None):
    ang = [fval(model.get(n), d) for n, d in (("rlnAngleRot", 10.0), ("rlnAngleTilt", 20.0), ("rlnAnglePsi", 30.0))]
    m = _mk([row_from_model({})], 3.1)
    vals = {"rlnAngleRot": [ang[0]], "rlnAngleTilt": [ang[1]], "rlnAnglePsi": [ang[2]]}
    rdf = pd.DataFrame({c: vals.get(c, [7.0]) for c in (columns or list(vals))})  # same column layout as the refuted configuration
    _, e = call(m.convert_angles_from_relion, rdf)
    if e is not None:
        return {"reproduced": True, "input": ang, "observed": f"raised {type(e).__name__}: {e}"}
    r = m.df.iloc[0]
    return {"reproduced": bool(not np.allclose(R_zxz(r.phi, r.theta, r.psi), relion_matrix(*ang).T, atol=1e-7)), "input": ang, "observed": r.to_dict()}


def replay_shifts(model, version):
    p = fval(model.get("pixel_size"), 2.0)
    names = ["rlnOriginX", "rlnOriginY", "rlnOriginZ"] if version <= 3.0 else ["rlnOriginXAngst", "rlnOriginYAngst", "rlnOriginZAngst"]
    o = [fval(model.get(n), 1.5) for n in names]
    m = _mk([row_from_model(model)], version, p)
    _, e = call(m.convert_shifts, pd.DataFrame({n: [v] for n, v in zip(names, o)}))
    if e is not None:
        return {"reproduced": True, "input": o, "observed": f"raised {type(e).__name__}: {e}"}
    exp = -np.array(o) / (1.0 if version <= 3.0 else p)
    got = m.df[["shift_x", "shift_y", "shift_z"]].values[0]
    return {"reproduced": bool(not np.allclose(got, exp, atol=1e-9)), "input": {"origin": o, "pixel": p}, "observed": got.tolist(), "expected": exp.tolist()}


def replay_export(model, version, clause):
    row = row_from_model(model)
    row["subtomo_id"] = float(int(fval(model.get("subtomo_id"), 3)))
    row["tomo_id"] = float(int(fval(model.get("tomo_id"), 2)))
    p = fval(model.get("pixel_size"), 2.0)
    b = fval(model.get("binning"), 1.0)
    r = _export_check([row], version, p, b, "", "")
    return {"reproduced": r is not None, "input": {"row": row, "pixel": p, "binning": b}, "observed": r}


def _fmt(fmt, letter, number):
    """independent implementation of the $xxx / $yyy padding rule: the longest run of `letter` after a '$' is replaced by the
    zero-padded number"""
    runs = sorted(re.findall(r"\$" + letter + "+", fmt), key=len)
    if not runs:
        return fmt
    return fmt.replace(runs[-1], str(int(number)).zfill(len(runs[-1]) - 1))


def _export_check(rows, version, p, b, tf, sf):
    m = _mk(rows, version, p, b)
    src = m.df.copy()
    rdf, e = call(m.create_relion_df, tomo_format=tf, subtomo_format=sf)
    if e is not None:
        return {"raised": f"{type(e).__name__}: {e}"}
    if len(rdf) != len(src):
        return {"what": "row count changed"}
    pos = src[["x", "y", "z"]].values + src[["shift_x", "shift_y", "shift_z"]].values
    scale = b if version >= 4.0 else 1.0
    if not np.allclose(rdf[["rlnCoordinateX", "rlnCoordinateY", "rlnCoordinateZ"]].values.astype(float), pos * scale, atol=1e-9):
        return {"what": "rlnCoordinate != x+shift"}
    on = ["rlnOriginX", "rlnOriginY", "rlnOriginZ"] if version <= 3.0 else ["rlnOriginXAngst", "rlnOriginYAngst", "rlnOriginZAngst"]
    if np.any(rdf[on].values.astype(float) != 0):
        return {"what": "origin shifts not zero"}
    for i in range(len(src)):
        A = relion_matrix(rdf["rlnAngleRot"].iloc[i], rdf["rlnAngleTilt"].iloc[i], rdf["rlnAnglePsi"].iloc[i])
        if not np.allclose(A, R_zxz(src.phi.iloc[i], src.theta.iloc[i], src.psi.iloc[i]).T, atol=1e-7):
            return {"what": "RELION rotation is not the inverse of the zxz rotation", "row": src.iloc[i].to_dict(), "relion": rdf.iloc[i].to_dict()}
    if not np.array_equal(rdf["rlnClassNumber"].values.astype(float), src["class"].values):
        return {"what": "class not preserved"}
    par = np.where(src["subtomo_id"].values % 2 == 0, 2, 1)
    if not np.array_equal(rdf["rlnRandomSubset"].values.astype(float), par.astype(float)):
        return {"what": "half-set parity"}
    tn, sn = ("rlnMicrographName", "rlnImageName") if version < 4.0 else ("rlnTomoName", "rlnTomoParticleName")
    for i in range(len(src)):
        t, s = src.tomo_id.iloc[i], src.subtomo_id.iloc[i]
        exp_t = int(t) if tf == "" else _fmt(tf, "x", t)
        exp_s = int(s) if sf == "" else _fmt(_fmt(sf, "y", s), "x", t)
        if str(rdf[tn].iloc[i]) != str(exp_t) or str(rdf[sn].iloc[i]) != str(exp_s):
            return {"what": "generated names", "got": [str(rdf[tn].iloc[i]), str(rdf[sn].iloc[i])], "expected": [str(exp_t), str(exp_s)]}
    if not src.equals(m.df):
        return {"what": "export modified the particle list"}
    return None


def _independent_relion(rows, version, p, names, rng, variant=0):
    """an independently generated RELION particle table describing the given poses (rot/tilt/psi from scipy of R^T, origin in
    px for 3.0 and Angstrom for >= 3.1)"""
    n = len(rows)
    d = {}
    pos = np.array([[r[a] for a in "xyz"] for r in rows])
    org = np.array([[-r["shift_" + a] for a in "xyz"] for r in rows]) * (1.0 if version <= 3.0 else p)
    for i, a in enumerate("XYZ"):
        d["rlnCoordinate" + a] = pos[:, i]
    on = ["rlnOriginX", "rlnOriginY", "rlnOriginZ"] if version <= 3.0 else ["rlnOriginXAngst", "rlnOriginYAngst", "rlnOriginZAngst"]
    for i, c in enumerate(on):
        d[c] = org[:, i]
    ang = np.array([SR.from_matrix(R_zxz(r["phi"], r["theta"], r["psi"]).T).as_euler("ZYZ", degrees=True) for r in rows])
    d["rlnAngleRot"], d["rlnAngleTilt"], d["rlnAnglePsi"] = ang[:, 0], ang[:, 1], ang[:, 2]
    t = [int(r["tomo_id"]) for r in rows]
    s = [int(r["subtomo_id"]) for r in rows]
    if version < 4.0:
        d["rlnMicrographName"] = t if not names else [f"tomograms/tomo_{x:03d}.mrc" for x in t]
        d["rlnImageName"] = s if not names else [f"subtomo/tomo_{x:03d}/sub_{x:03d}_{y:06d}.mrc" for x, y in zip(t, s)]
        d["rlnPixelSize"] = np.full(n, p)
    else:
        d["rlnTomoName"] = t if not names else [f"TS_{x:03d}" for x in t]
        d["rlnTomoParticleName"] = s if not names else [f"TS_{x:03d}/{y}" for x, y in zip(t, s)]
    d["rlnClassNumber"] = [int(r["class"]) for r in rows]
    d["rlnRandomSubset"] = [2 if y % 2 == 0 else 1 for y in s]
    # variants of what an independent RELION file may look like: 1 = no tomogram-name column (the tomogram number has to come from the particle
    # name), 2 = no rlnRandomSubset column, 3 = half-sets unrelated to the numbers' parity, 4 = every particle in half-set 1
    if variant == 1 and names:
        d.pop("rlnMicrographName" if version < 4.0 else "rlnTomoName")
    elif variant == 2:
        d.pop("rlnRandomSubset")
    elif variant == 3:
        d["rlnRandomSubset"] = [int(v) for v in rng.integers(1, 3, n)]
    elif variant == 4:
        d["rlnRandomSubset"] = [1] * n
    df = pd.DataFrame(d)
    cols = list(df.columns)
    rng.shuffle(cols)
    return df[cols]


def _import_check(rows, version, p, names, rng, via_file, tmp, variant=0, per_tomo_numbers=False):
    from cryocat import cryomotl, starfileio
    if per_tomo_numbers:  # RELION numbers particles per tomogram: the numbers repeat across tomograms
        rows = [dict(r) for r in rows]
        cnt = {}
        for r in rows:
            cnt[r["tomo_id"]] = cnt.get(r["tomo_id"], 0) + 1
            r["subtomo_id"] = float(cnt[r["tomo_id"]])
    rdf = _independent_relion(rows, version, p, names, rng, variant)
    if via_file:
        path = os.path.join(tmp, "in.star")
        spec = "data_" if version <= 3.0 else "data_particles"
        _write_star(path, rdf, spec)
        m, e = call(cryomotl.RelionMotl, path, version=version, pixel_size=p)
    else:
        m, e = call(cryomotl.RelionMotl, rdf, version=version, pixel_size=p)
    if e is not None:
        return {"raised": f"{type(e).__name__}: {e}", "via_file": via_file}
    out = m.df
    if len(out) != len(rows) or sorted(out.columns) != sorted(MOTL_COLS):
        return {"what": "imported table shape"}
    tol = 1e-4 if via_file else 1e-7
    exp = pd.DataFrame(rows)
    for a in "xyz":
        if not np.allclose(out[a].values, exp[a].values, atol=tol):
            return {"what": f"{a} != rlnCoordinate"}
        if not np.allclose(out["shift_" + a].values, exp["shift_" + a].values, atol=tol):
            return {"what": f"shift_{a} != -origin(/pixel)", "got": out["shift_" + a].values[:3].tolist(), "expected": exp["shift_" + a].values[:3].tolist()}
    for i in range(len(rows)):
        if not np.allclose(R_zxz(out.phi.iloc[i], out.theta.iloc[i], out.psi.iloc[i]), R_zxz(exp.phi.iloc[i], exp.theta.iloc[i], exp.psi.iloc[i]), atol=1e-5):
            return {"what": "imported orientation", "row": i, "via_file": via_file}
    if not np.array_equal(out["tomo_id"].values.astype(float), exp["tomo_id"].values):
        return {"what": "tomo_id"}
    if not np.array_equal(out["class"].values.astype(float), exp["class"].values):
        return {"what": "class"}
    if not np.array_equal(out["geom3"].values.astype(float), exp["subtomo_id"].values):
        return {"what": "geom3 does not hold the subtomogram number from the names"}
    sub = out["subtomo_id"].values.astype(float)
    if len(set(sub)) != len(sub):
        return {"what": "subtomo_id not unique", "variant": variant, "per_tomo_numbers": per_tomo_numbers}
    if np.any(sub != np.floor(sub)) or np.any(sub < 0):
        return {"what": "subtomo_id not a whole number"}
    if "rlnRandomSubset" in rdf.columns and rdf["rlnRandomSubset"].nunique() == 2:
        half = rdf["rlnRandomSubset"].values
        if not np.array_equal(sub % 2 == 1, half == 1):
            return {"what": "half-set 1/2 does not correspond to odd/even subtomo_id", "variant": variant, "per_tomo_numbers": per_tomo_numbers}
    elif len(set(exp["subtomo_id"].values)) == len(exp) and not np.array_equal(sub, exp["subtomo_id"].values):
        return {"what": "unique subtomogram numbers without half-set information were not kept", "variant": variant}
    return None


def _write_star(path, df, spec):
    """independent minimal STAR writer"""
    with open(path, "w") as f:
        f.write(f"\n# written by the verification harness\n\n{spec}\n\nloop_\n")
        for i, c in enumerate(df.columns, 1):
            f.write(f"_{c} #{i}\n")
        for row in df.itertuples(index=False):
            f.write("  ".join(repr(float(v)) if isinstance(v, (float, np.floating)) else str(v) for v in row) + "\n")
        f.write("\n")


def _roundtrip_check(rows, version, p, b, tf, sf, via_file, optics, tmp):
    from cryocat import cryomotl
    m = _mk(rows, version, p, b)
    src = m.df.copy()
    if via_file:
        path = os.path.join(tmp, "rt.star")
        _, e = call(m.write_out, path, write_optics=optics, tomo_format=tf, subtomo_format=sf)
        if e is not None:
            if optics and version <= 3.0:
                return None  # documented: no optics block for 3.0 without optics data
            return {"raised": f"write_out {type(e).__name__}: {e}"}
        m2, e = call(cryomotl.RelionMotl, path, version=version, pixel_size=p, binning=b)
    else:
        rdf, e = call(m.create_relion_df, tomo_format=tf, subtomo_format=sf)
        if e is None:
            m2, e = call(cryomotl.RelionMotl, rdf, version=version, pixel_size=p, binning=b)
    if e is not None:
        return {"raised": f"{type(e).__name__}: {e}", "via_file": via_file}
    out = m2.df
    if len(out) != len(src):
        return {"what": "round trip changed the number of particles"}
    scale = b if version >= 4.0 else 1.0
    pos0 = (src[["x", "y", "z"]].values + src[["shift_x", "shift_y", "shift_z"]].values) * scale
    pos1 = out[["x", "y", "z"]].values + out[["shift_x", "shift_y", "shift_z"]].values
    tol = 2e-5 * max(1.0, float(np.abs(pos0).max())) if via_file else 1e-7
    if not np.allclose(pos1, pos0, atol=tol):
        return {"what": "round trip moved a particle", "via_file": via_file}
    for i in range(len(src)):
        if not np.allclose(R_zxz(out.phi.iloc[i], out.theta.iloc[i], out.psi.iloc[i]), R_zxz(src.phi.iloc[i], src.theta.iloc[i], src.psi.iloc[i]), atol=1e-5):
            return {"what": "round trip changed an orientation", "via_file": via_file, "row": src.iloc[i].to_dict()}
    if not np.array_equal(out["class"].values.astype(float), src["class"].values) or not np.array_equal(out["tomo_id"].values.astype(float), src["tomo_id"].values):
        return {"what": "class/tomo_id lost in round trip", "via_file": via_file}
    if not np.array_equal(out["geom3"].values.astype(float), src["subtomo_id"].values):
        return {"what": "subtomogram number lost (geom3)", "via_file": via_file}
    if not np.array_equal(out["subtomo_id"].values.astype(float) % 2, src["subtomo_id"].values % 2):
        return {"what": "half-set parity lost in round trip", "via_file": via_file}
    return None


def gen_cases(seed, n_cases):
    rng = np.random.default_rng(seed + 303)
    for ci in range(n_cases):
        n = 300 if ci % 23 == 22 else int(rng.integers(1, 25))
        rows = random_motl_rows(rng, n, n_tomos=4)
        ids = rng.permutation(np.arange(1, 3 * n + 1))[:n]
        for r, i in zip(rows, ids):
            r["subtomo_id"] = float(i)
        version = [3.0, 3.1, 4.0][ci % 3]
        kind = ["export", "import", "roundtrip"][(ci // 3) % 3]
        fmt = int(rng.integers(0, 4))
        # the fourth form has digits in the directory part: the number is documented to come from the last path entry
        tf, sf = ([("", ""), ("tomo_$xxx.mrc", "sub/$xxx/part_$xxx_$yyyyyy.mrc"), ("TS_$xx.mrc", "TS_$xx/TS_$xx_sub_$yyyy.mrc"),
                   ("/data/run2/bin4/tomo_$xxx.mrc", "/data/run2/bin4/sub7/part_$xxx_$yyyyyy.mrc")][fmt] if version < 4.0 else
                  [("", ""), ("TS_$xxx", "TS_$xxx/$yyy"), ("t$xxxx", "t$xxxx/$yyyyy"), ("set2/bin4/TS_$xxx", "TS_$xxx/$yyy")][fmt])
        case = {"rows": rows, "version": version, "kind": kind, "pixel": float(rng.choice([1.0, 2.5, rng.uniform(0.5, 8)])),
                "binning": float(rng.choice([1.0, 2.0, 4.0])), "tf": tf, "sf": sf, "via_file": bool(rng.random() < 0.5), "optics": bool(rng.random() < 0.5),
                "names": bool(rng.random() < 0.6), "seed": int(rng.integers(1 << 30)), "variant": int(rng.integers(0, 5)), "per_tomo_numbers": bool(rng.random() < 0.3)}
        yield (ci, version, kind, case["via_file"], n), case


def run_case(case):
    rng = np.random.default_rng(case["seed"])
    with scratch() as tmp:
        if case["kind"] == "export":
            return _export_check(case["rows"], case["version"], case["pixel"], case["binning"], case["tf"], case["sf"])
        if case["kind"] == "import":
            return _import_check(case["rows"], case["version"], case["pixel"], case["names"], rng, case["via_file"], tmp, case.get("variant", 0), case.get("per_tomo_numbers", False))
        return _roundtrip_check(case["rows"], case["version"], case["pixel"], case["binning"], case["tf"], case["sf"], case["via_file"], case["optics"], tmp)


def replay_kind(kind, n=60):
    """search generated cases of one kind (export / import / roundtrip) for a native failure"""
    k = 0
    for key, case in gen_cases(4, 600):
        if case["kind"] != kind:
            continue
        k += 1
        r = run_case(case)
        if r is not None:
            return {"reproduced": True, "input": {"kind": kind, "case": [str(x) for x in key]}, "observed": r}
        if k >= n:
            break
    return {"reproduced": False, "input": f"{k} generated '{kind}' cases", "observed": None}
