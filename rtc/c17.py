"""C17 bounded stand-in: mdoc round trip, loaders, wedge lists on the real code (files written by an independent writer)"""
import os
import numpy as np
import pandas as pd
from .util import *
from .c04 import independent_star_read


def _mdoc_text(rng, n_img, with_titles=True):
    """grammar-generated mdoc: header entries, optional titles, ZValue sections with int / float / negative / text values"""
    hdr = {"PixelSpacing": round(float(rng.uniform(0.5, 5)), 3), "Voltage": 300, "ImageFile": f"ts_{int(rng.integers(1, 99)):03d}.mrc", "ImageSize": "4092 5760", "DataMode": 1}
    lines = [f"{k} = {v}" for k, v in hdr.items()] + [""]
    titles = []
    if with_titles:
        titles = ["T = SerialEM: Acquired on Krios 03-Mar-21", "T =     Tilt axis angle = 84.3, binning = 1  spot = 8  camera = 0"]
        for t in titles:
            lines += [f"[{t}]", ""]
    tilts = rng.permutation(np.round(np.linspace(-60, 60, n_img) + rng.uniform(-0.3, 0.3, n_img), 4))
    imgs = []
    for z in range(n_img):
        im = {"ZValue": z, "TiltAngle": float(tilts[z]), "StagePosition": f"{rng.uniform(-50, 50):.4f} {rng.uniform(-50, 50):.4f}", "Magnification": 42000,
              "Defocus": round(float(rng.uniform(-6, -1)), 4), "ExposureDose": round(float(rng.uniform(1, 4)), 3), "PriorRecordDose": round(float(z * 3.1), 3),
              "SubFramePath": f"D:\\\\frames\\\\img_{z:03d}.tif", "NumSubFrames": int(rng.integers(5, 12)), "DateTime": f"0{1 + z % 9}-Mar-21  10:{z % 60:02d}:17"}
        imgs.append(im)
        lines.append(f"[ZValue = {z}]")
        lines += [f"{k} = {v}" for k, v in im.items() if k != "ZValue"] + [""]
    return "\n".join(lines) + "\n", hdr, titles, imgs


def _mdoc_equal(a, b):
    if a.project_info != b.project_info:
        return "header entries differ"
    if list(a.titles) != list(b.titles):
        return "titles differ"
    ia, ib = a.imgs.reset_index(drop=True), b.imgs.reset_index(drop=True)
    if list(ia.columns) != list(ib.columns) or len(ia) != len(ib):
        return "per-image table shape differs"
    for c in ia.columns:
        va, vb = list(ia[c].values), list(ib[c].values)
        for x, y in zip(va, vb):
            if isinstance(x, float) or isinstance(y, float):
                if abs(float(x) - float(y)) > 1e-9:
                    return f"column {c} differs ({x} vs {y})"
            elif str(x) != str(y):
                return f"column {c} differs ({x!r} vs {y!r})"
    return None


def gen_cases(seed, n_cases):
    rng = np.random.default_rng(seed + 1717)
    kinds = ["mdoc", "loaders", "wedge_sg", "wedge_em", "mdoc_ops"]
    for ci in range(n_cases):
        yield (ci, kinds[ci % 5]), {"kind": kinds[ci % 5], "n": int(rng.integers(1, 81)) if ci % 7 else 80, "nt": int(rng.integers(1, 6)), "seed": int(rng.integers(1 << 30)), "ctf": ["gctf", "ctffind4", None][ci % 3]}


def _write_gctf(path, du, dv, ang, phase=None, order=None):
    """gctf / RELION STAR file; `order` (a seed) permutes the labelled columns and adds an unrelated one -- STAR columns are
    identified by label, not by position"""
    cols = {"rlnMicrographName": [f"img_{i:03d}.mrc" for i in range(len(du))], "rlnDefocusU": [f"{x:.6f}" for x in du],
            "rlnDefocusV": [f"{x:.6f}" for x in dv], "rlnDefocusAngle": [f"{x:.6f}" for x in ang]}
    if phase is not None:
        cols["rlnPhaseShift"] = [f"{x:.6f}" for x in phase]
    names = list(cols)
    if order is not None:
        cols["rlnFinalResolution"] = [f"{3.0 + 0.125 * i:.6f}" for i in range(len(du))]
        names = [str(x) for x in np.random.default_rng(order).permutation(list(cols))]
    with open(path, "w") as f:
        f.write("\ndata_\n\nloop_\n" + "".join(f"_{c} #{j + 1}\n" for j, c in enumerate(names)))
        for i in range(len(du)):
            f.write(" ".join(cols[c][i] for c in names) + "\n")
        f.write("\n")


def _write_ctffind(path, du, dv, ang, phase):
    with open(path, "w") as f:
        f.write("# Output from CTFFind version 4.1.14\n# Input file: x.mrc ; Number of micrographs: 1\n# Pixel size: 1.35 Angstroms\n# Columns: #1 - micrograph number; #2 - defocus 1 [Angstroms]; ...\n")
        for i in range(len(du)):
            f.write(f"{i + 1:.6f} {du[i]:.6f} {dv[i]:.6f} {ang[i]:.6f} {phase[i]:.6f} 0.05 4.2\n")


def run_case(c):
    from cryocat import mdoc as mdocmod, ioutils, wedgeutils
    rng = np.random.default_rng(c["seed"])
    kind, n = c["kind"], c["n"]
    with scratch() as tmp:
        if kind in ("mdoc", "mdoc_ops"):
            text, hdr, titles, imgs = _mdoc_text(rng, n, with_titles=bool(c["seed"] % 2))
            p = os.path.join(tmp, "a.mdoc"); open(p, "w").write(text)
            m, e = call(mdocmod.Mdoc, p)
            if e is not None:
                return {"raised": f"read {type(e).__name__}: {e}"}
            if len(m.imgs) != n or list(m.imgs["ZValue"].values) != list(range(n)):
                return {"what": "number / ZValues of images read"}
            if not np.allclose(m.imgs["TiltAngle"].values.astype(float), [im["TiltAngle"] for im in imgs]):
                return {"what": "tilt angles read from the mdoc"}
            for k, v in hdr.items():
                if str(m.project_info.get(k)) != str(v) and not (isinstance(v, float) and abs(float(m.project_info.get(k)) - v) < 1e-12):
                    return {"what": f"header entry {k}", "got": m.project_info.get(k), "expected": v}
            if kind == "mdoc":
                q = os.path.join(tmp, "b.mdoc")
                _, e = call(m.write, q)
                if e is not None:
                    return {"raised": f"write {type(e).__name__}: {e}"}
                m2, e = call(mdocmod.Mdoc, q)
                if e is not None:
                    return {"raised": f"re-read {type(e).__name__}: {e}"}
                d = _mdoc_equal(m, m2)
                if d:
                    return {"what": "mdoc written by cryoCAT does not re-read to the same content: " + d}
                # loaders on the mdoc
                t, e = call(ioutils.tlt_load, p)
                if e is not None or not np.allclose(t, np.sort([im["TiltAngle"] for im in imgs]), atol=1e-6):
                    return {"what": "tlt_load(mdoc) is not the ascending tilt angles", "raised": repr(e)}
                dz, e = call(ioutils.total_dose_load, p)
                order = np.argsort([im["TiltAngle"] for im in imgs])
                exp = np.array([imgs[i]["ExposureDose"] + imgs[i]["PriorRecordDose"] for i in order])
                if e is not None or not np.allclose(np.asarray(dz, float), exp, atol=1e-6):
                    return {"what": "total_dose_load(mdoc) != prior + exposure dose (tilt-sorted)", "raised": repr(e)}
                return None
            # operations: sort, remove
            before = m.imgs.copy()
            _, e = call(m.sort_by_tilt)
            if e is not None:
                return {"raised": f"sort_by_tilt {e}"}
            if list(m.imgs["TiltAngle"].values) != sorted(before["TiltAngle"].values) or sorted(m.imgs["ZValue"].values) != list(range(n)):
                return {"what": "sort_by_tilt changed more than the order"}
            if not m.imgs.sort_index().equals(before.sort_index()):
                return {"what": "sort_by_tilt altered image rows"}
            k = int(rng.integers(0, n)) if n > 1 else 0
            rem = sorted(set(int(v) for v in rng.choice(n, size=k, replace=False))) if k else []
            _, e = call(m.remove_images, rem)
            if e is not None:
                return {"raised": f"remove_images {e}"}
            kept_pos = [i for i in range(n) if i not in rem]
            cur = m.imgs.reset_index(drop=True)
            if list(np.where(cur["Removed"].values)[0]) != rem:
                return {"what": "remove_images flags other images than requested"}
            cols = [c_ for c_ in cur.columns if c_ != "Removed"]
            if not cur[cols].equals(before.sort_values("TiltAngle").reset_index(drop=True)[cols]):
                return {"what": "remove_images changed something besides the Removed flag"}
            q = os.path.join(tmp, "c.mdoc")
            _, e = call(m.write, q)
            if e is not None:
                return {"raised": f"write {e}"}
            if not kept_pos:
                return None
            m3, e = call(mdocmod.Mdoc, q)
            if e is not None:
                return {"raised": f"re-read {type(e).__name__}: {e}"}
            if list(m3.imgs["ZValue"].values) != list(cur["ZValue"].values[kept_pos]):
                return {"what": "written file does not omit exactly the removed images", "got": list(m3.imgs["ZValue"].values)[:10], "expected": list(cur["ZValue"].values[kept_pos])[:10]}
            return None
        if kind == "loaders":
            tilts = np.round(np.sort(rng.uniform(-70, 70, n)), 3); dose = np.round(rng.uniform(0, 200, n), 3)
            pt, pd_ = os.path.join(tmp, "a.tlt"), os.path.join(tmp, "a_dose.txt")
            np.savetxt(pt, tilts, fmt="%.3f"); np.savetxt(pd_, dose, fmt="%.3f")
            t, e = call(ioutils.tlt_load, pt)
            if e is not None or not np.allclose(t, tilts, atol=1e-3):
                return {"what": "tlt_load(file)", "raised": repr(e)}
            d, e = call(ioutils.total_dose_load, pd_)
            if e is not None or not np.allclose(d, dose, atol=1e-3):
                return {"what": "total_dose_load(file)", "raised": repr(e)}
            du, dv = rng.uniform(10000, 60000, n), rng.uniform(10000, 60000, n); ang = rng.uniform(-90, 90, n); ph = rng.uniform(0, 3, n)
            pg, pc = os.path.join(tmp, "gctf.star"), os.path.join(tmp, "ctffind.txt")
            use_phase = bool(c["seed"] % 2)
            _write_gctf(pg, du, dv, ang, ph if use_phase else None, order=(c["seed"] if (c["seed"] // 2) % 2 else None)); _write_ctffind(pc, du, dv, ang, ph)
            for path, ft, php in ((pg, "gctf", ph if use_phase else np.zeros(n)), (pc, "ctffind4", ph)):
                df, e = call(ioutils.defocus_load, path, ft)
                if e is not None:
                    return {"raised": f"defocus_load({ft}) {type(e).__name__}: {e}"}
                if len(df) != n or not np.allclose(df["defocus1"].values, du * 1e-4, rtol=1e-5) or not np.allclose(df["defocus2"].values, dv * 1e-4, rtol=1e-5):
                    return {"what": f"{ft}: defocus not converted from Angstrom to micrometre"}
                if not np.allclose(df["defocus_mean"].values, (du + dv) / 2 * 1e-4, rtol=1e-5):
                    return {"what": f"{ft}: mean != (U+V)/2"}
                if not np.allclose(df["astigmatism"].values, ang, atol=1e-3) or not np.allclose(df["phase_shift"].values, php, atol=1e-4):
                    return {"what": f"{ft}: astigmatism / phase shift columns"}
            a, e = call(ioutils.tlt_load, np.array(tilts))
            if e is not None or not np.array_equal(a, tilts):
                return {"what": "tlt_load(array)"}
            idx, e = call(ioutils.indices_load, [1, 3, 4], True)
            if e is not None or list(idx) != [0, 2, 3]:
                return {"what": "indices_load 1-based -> 0-based"}
            return None
        # wedge lists
        nt = c["nt"]
        tomos = sorted(int(v) for v in rng.choice(np.arange(1, 60), size=nt, replace=False))
        per = {}
        for t in tomos:
            k = int(rng.integers(1, 81)) if n > 3 else n
            tl = np.round(np.sort(rng.uniform(-70, 70, k)), 2); ds = np.round(rng.uniform(0, 150, k), 2)
            du, dv = rng.uniform(10000, 60000, k), rng.uniform(10000, 60000, k)
            np.savetxt(os.path.join(tmp, f"ts_{t:03d}.tlt"), tl, fmt="%.2f"); np.savetxt(os.path.join(tmp, f"ts_{t:03d}_dose.txt"), ds, fmt="%.2f")
            if c["ctf"] == "gctf":
                _write_gctf(os.path.join(tmp, f"ts_{t:03d}_ctf.star"), du, dv, np.zeros(k), order=(c["seed"] + t if (c["seed"] // 2) % 2 else None))
            elif c["ctf"] == "ctffind4":
                _write_ctffind(os.path.join(tmp, f"ts_{t:03d}_ctf.txt"), du, dv, np.zeros(k), np.zeros(k))
            per[t] = {"tilts": tl, "dose": ds, "def": (du + dv) / 2 * 1e-4, "dim": [int(v) for v in rng.integers(100, 900, 3)], "zs": float(np.round(rng.uniform(-30, 30), 1))}
        if kind == "wedge_em":
            df, e = call(wedgeutils.create_wedge_list_em_batch, np.array(tomos), os.path.join(tmp, "ts_$xxx.tlt"), os.path.join(tmp, "wl.em"))
            if e is not None:
                return {"raised": f"create_wedge_list_em_batch {type(e).__name__}: {e}"}
            for i, t in enumerate(tomos):
                if df["tomo_num"].iloc[i] != t or abs(df["min_angle"].iloc[i] - per[t]["tilts"].min()) > 1e-4 or abs(df["max_angle"].iloc[i] - per[t]["tilts"].max()) > 1e-4:
                    return {"what": "EM wedge list: min / max tilt per tomogram"}
            from .c01 import parse_em
            f = parse_em(os.path.join(tmp, "wl.em"))
            if "error" in f or f["dims"] != (3, len(tomos), 1) or not np.allclose(f["data"][0].astype(float), df.values.astype(float), atol=1e-3):
                return {"what": "EM wedge list file does not hold (tomogram, min tilt, max tilt) per tomogram", "header": f.get("dims")}
            return None
        # per-tomogram tables are keyed by tomogram number: row order independent of the tomogram list, possibly covering more tomograms
        extra = [int(t) for t in range(60, 63)] if rng.random() < 0.4 else []
        for t in extra:
            per[t] = {"dim": [int(v) for v in rng.integers(100, 900, 3)], "zs": float(np.round(rng.uniform(-30, 30), 1))}
        od, oz = [int(t) for t in rng.permutation(tomos + extra)], [int(t) for t in rng.permutation(tomos + extra)]
        dims = pd.DataFrame([[t] + per[t]["dim"] for t in od], columns=["tomo_id", "x", "y", "z"])
        if rng.random() < 0.25:  # one (x, y, z) triple for all tomograms
            one = [int(v) for v in rng.integers(100, 900, 3)]
            dims = np.array(one, dtype=float) if rng.random() < 0.5 else pd.DataFrame([one], columns=["x", "y", "z"])
            for t in tomos:
                per[t]["dim"] = one
        zs = pd.DataFrame([[t, per[t]["zs"]] for t in oz])
        zform = int(rng.integers(0, 3))
        if zform == 1:
            zs = zs.values.astype(float)
        elif zform == 2:
            zs = float(per[tomos[0]]["zs"])
            for t in tomos:
                per[t]["zs"] = zs
        tomos = [int(t) for t in rng.permutation(tomos)] if rng.random() < 0.5 else tomos
        ctf_fmt = {"gctf": os.path.join(tmp, "ts_$xxx_ctf.star"), "ctffind4": os.path.join(tmp, "ts_$xxx_ctf.txt"), None: None}[c["ctf"]]
        out = os.path.join(tmp, "wl.star")
        kw = {"tomo_dim": dims, "z_shift": zs}
        if c["seed"] % 3 == 0:
            # the per-tomogram FILE forms of the same inputs: one dimensions file and one z-shift file per tomogram, named by a $xxxx pattern
            for t in tomos:
                if not isinstance(dims, pd.DataFrame) or "tomo_id" not in dims.columns:
                    per[t]["dim"] = [int(v) for v in np.asarray(dims, dtype=float).ravel()[:3]]
                open(os.path.join(tmp, f"dim_{t:04d}.txt"), "w").write(" ".join(str(v) for v in per[t]["dim"]) + "\n")
                open(os.path.join(tmp, f"zs_{t:04d}.txt"), "w").write(f"{per[t]['zs']}\n")
            kw = {"tomo_dim_file_format": os.path.join(tmp, "dim_$xxxx.txt"), "z_shift_file_format": os.path.join(tmp, "zs_$xxxx.txt")}
        df, e = call(wedgeutils.create_wedge_list_sg_batch, np.array(tomos), 1.35, os.path.join(tmp, "ts_$xxx.tlt"),
                     ctf_file_format=ctf_fmt, ctf_file_type=(c["ctf"] or "gctf"), dose_file_format=os.path.join(tmp, "ts_$xxx_dose.txt"), output_file=out, **kw)
        if e is not None:
            return {"raised": f"create_wedge_list_sg_batch {type(e).__name__}: {e}", "ctf": c["ctf"]}
        exp_rows = sum(len(per[t]["tilts"]) for t in tomos)
        if len(df) != exp_rows:
            return {"what": "wedge list: not one row per tilt per tomogram", "got": len(df), "expected": exp_rows}
        pos = 0
        for t in tomos:
            k = len(per[t]["tilts"]); blk = df.iloc[pos:pos + k]; pos += k
            if not (blk["tomo_num"].values == t).all() or not np.allclose(blk["tilt_angle"].values.astype(float), per[t]["tilts"], atol=1e-3):
                return {"what": "wedge list: tomogram / tilt angle pairing"}
            if not np.allclose(blk["exposure"].values.astype(float), per[t]["dose"], atol=1e-3):
                return {"what": "wedge list: exposure not the i-th dose"}
            if c["ctf"] and not np.allclose(blk["defocus"].values.astype(float), per[t]["def"], rtol=1e-4):
                return {"what": "wedge list: defocus not the i-th mean defocus"}
            if not (blk[["tomo_x", "tomo_y", "tomo_z"]].values.astype(float) == np.array(per[t]["dim"], float)).all() or not np.allclose(blk["z_shift"].values.astype(float), per[t]["zs"]):
                return {"what": "wedge list: dimensions / z-shift of the tomogram"}
            if not (np.allclose(blk["pixelsize"].values.astype(float), 1.35) and np.allclose(blk["voltage"].values.astype(float), 300.0) and np.allclose(blk["amp_contrast"].values.astype(float), 0.07) and np.allclose(blk["cs"].values.astype(float), 2.7)):
                return {"what": "wedge list: microscope constants"}
        bl = independent_star_read(out)
        if len(bl) != 1 or bl[0]["name"] != "data_stopgap_wedgelist" or len(bl[0]["rows"]) != exp_rows or bl[0]["cols"] != list(df.columns):
            return {"what": "written wedge list file layout"}
        em, e = call(wedgeutils.wedge_list_sg_to_em, out, os.path.join(tmp, "wl2.em"))
        if e is not None:
            return {"raised": f"wedge_list_sg_to_em {type(e).__name__}: {e}"}
        if sorted(int(v) for v in em["tomo_id"].values) != sorted(tomos) or len(em) != len(tomos):
            return {"what": "sg -> em wedge list: one row per tomogram"}
        for i in range(len(em)):  # rows keyed by tomogram number (groupby order), not by the order of the request
            t = int(em["tomo_id"].iloc[i])
            if abs(em["min_tilt_angle"].iloc[i] - per[t]["tilts"].min()) > 1e-3 or abs(em["max_tilt_angle"].iloc[i] - per[t]["tilts"].max()) > 1e-3:
                return {"what": "sg -> em wedge list: min / max tilt"}
        _, e = call(wedgeutils.create_wedge_list_sg, tomos[0], per[tomos[0]]["dim"], 1.35, per[tomos[0]]["tilts"], dose_file=np.zeros(len(per[tomos[0]]["tilts"]) + 1))
        if not isinstance(e, ValueError):
            return {"what": "length mismatch between tilts and dose not rejected"}
        return None


def replay_kind(kind, n=40):
    k = 0
    for key, case in gen_cases(5, 400):
        if key[1] != kind and case.get("kind") != kind:
            continue
        k += 1
        r = run_case(case)
        if r is not None:
            return {"reproduced": True, "input": {"kind": kind, "case": list(key)}, "observed": r}
        if k >= n:
            break
    return {"reproduced": False, "input": f"{k} generated '{kind}' cases", "observed": None}
