"""C13 bounded stand-in and replay: masks produced by the real cryomask code vs the analytic inequalities, voxel by voxel"""
import numpy as np
from .util import *


def _grid(size):
    return np.meshgrid(*[np.arange(s) for s in size], indexing="ij")


def sphere_ref(size, r, c):
    g = _grid(size)
    return (sum((g[a] - c[a]) ** 2 for a in range(3)) <= r * r).astype(float)


def cyl_ref(size, r, h, c):
    g = _grid(size)
    return (((g[0] - c[0]) ** 2 + (g[1] - c[1]) ** 2 <= r * r) & (np.abs(g[2] - c[2]) <= h // 2)).astype(float)


def _ell_terms(size, radii, c):
    """exact integer form of sum ((i-c)/r)^2 <= 1:  sum (i-c)^2 * prod_{b != a} r_b^2  <=  prod r_a^2   (integral centres and radii)"""
    g = _grid(size)
    r2 = [int(r) ** 2 for r in radii]
    lhs = sum(((g[a] - int(c[a])) ** 2).astype(object) * (r2[(a + 1) % 3] * r2[(a + 2) % 3]) for a in range(3))
    return lhs, r2[0] * r2[1] * r2[2]


def ell_ref(size, radii, c):
    if all(float(x) == int(x) for x in list(radii) + list(c)) and all(int(r) > 0 for r in radii):
        lhs, rhs = _ell_terms(size, radii, c)
        return (lhs <= rhs).astype(float)
    g = _grid(size)
    return (sum(((g[a] - c[a]) / radii[a]) ** 2 for a in range(3)) <= 1).astype(float)


def ell_edge(size, radii, c):
    """voxels EXACTLY on the ellipsoid surface (sum = 1 over the rationals): the code evaluates the sum in floating point, where it may come
    out as 1 or 1 + 2^-52; such voxels are excluded from the comparison (machine arithmetic is treated as mathematical everywhere else)"""
    if all(float(x) == int(x) for x in list(radii) + list(c)) and all(int(r) > 0 for r in radii):
        lhs, rhs = _ell_terms(size, radii, c)
        return (lhs == rhs)
    g = _grid(size)
    return np.abs(sum(((g[a] - c[a]) / radii[a]) ** 2 for a in range(3)) - 1) < 1e-9


def replay_shape(kind, model):
    from cryocat import cryomask
    size = [max(1, int(fval(model.get(n), 8))) for n in "XYZ"]
    cen = [min(max(0, int(fval(model.get(n), s // 2))), s - 1) for n, s in zip(("cx", "cy", "cz"), size)]
    r = fval(model.get("radius"), 2.0)
    if kind == "sphere":
        m, e = call(cryomask.spherical_mask, size, radius=r, center=cen); ref = sphere_ref(size, r, cen)
    elif kind == "cylinder":
        h = max(1, int(fval(model.get("height"), 3)))
        m, e = call(cryomask.cylindrical_mask, size, radius=r, height=h, center=cen); ref = cyl_ref(size, r, h, cen)
    else:
        t = fval(model.get("thickness"), 1.0)
        m, e = call(cryomask.spherical_shell_mask, size, t, radius=r, center=cen); ref = sphere_ref(size, r + t / 2, cen) - sphere_ref(size, r - t / 2, cen)
    if e is not None:
        return {"reproduced": True, "input": {"size": size, "center": cen, "radius": r, "model": {k: v for k, v in model.items() if k in ("height", "thickness")}}, "observed": f"raised {type(e).__name__}: {e}"}
    return {"reproduced": bool(not np.array_equal(np.asarray(m, float), ref)), "input": {"size": size, "center": cen, "radius": r}, "observed": f"{int(np.sum(np.asarray(m) != ref))} voxels differ"}


def replay_setop(name, clause):
    from cryocat import cryomask
    rng = np.random.default_rng(5)
    ms = [(rng.random((5, 6, 7)) > 0.5).astype(float) for _ in range(3)]
    keep = [m.copy() for m in ms]
    r, e = call(getattr(cryomask, name), ms)
    if e is not None:
        return {"reproduced": True, "observed": f"raised {e}"}
    mutated = any(not np.array_equal(a, b) for a, b in zip(ms, keep))
    b = [k.astype(bool) for k in keep]
    exp = {"union": b[0] | b[1] | b[2], "intersection": b[0] & b[1] & b[2], "subtraction": b[0] & ~b[1] & ~b[2], "difference": (b[0] | b[1] | b[2]) & ~(b[0] & b[1] & b[2])}[name]
    return {"reproduced": bool(mutated or not np.array_equal(np.asarray(r, float), exp.astype(float))), "observed": {"inputs_mutated": mutated}}


def gen_cases(seed, n_cases, maxbox=20):
    rng = np.random.default_rng(seed + 1313)
    kinds = ["sphere", "cylinder", "ellipsoid", "s_shell", "e_shell", "soft", "named", "algebra"]
    for ci in range(n_cases):
        kind = kinds[ci % len(kinds)]
        size = [int(x) for x in rng.integers(6, maxbox + 1, 3)]
        if kind in ("ellipsoid", "e_shell") or (kind == "soft" and ci % 3 == 0):
            size = [s + (s % 2) for s in size]
        cen = [int(rng.integers(0, s)) for s in size]
        if ci % 5 == 0:
            cen = [s // 2 for s in size]
        case = {"kind": kind, "size": size, "center": cen, "radius": int(rng.integers(1, maxbox + 6)), "height": int(rng.integers(1, 2 * maxbox)),
                "radii": [int(x) for x in rng.integers(1, maxbox, 3)], "thick": int(rng.integers(1, 6)), "sigma": float(rng.choice([0.5, 1.0, 2.0, 3.0])),
                "outwards": bool(rng.random() < 0.5), "seed": int(rng.integers(1 << 30)), "k": int(rng.integers(1, 6)), "soft_inputs": bool(rng.random() < 0.4)}
        yield (ci, kind, tuple(size)), case


def run_case(c):
    from cryocat import cryomask
    kind, size, cen = c["kind"], c["size"], c["center"]
    dontcare = None
    if kind == "sphere":
        m, e = call(cryomask.spherical_mask, size, radius=c["radius"], center=cen); ref = sphere_ref(size, c["radius"], cen)
    elif kind == "cylinder":
        m, e = call(cryomask.cylindrical_mask, size, radius=c["radius"], height=c["height"], center=cen); ref = cyl_ref(size, c["radius"], c["height"], cen)
    elif kind == "ellipsoid":
        m, e = call(cryomask.ellipsoid_mask, size, radii=c["radii"], center=cen); ref = ell_ref(size, c["radii"], cen)
        dontcare = ell_edge(size, c["radii"], cen)
    elif kind == "s_shell":
        r, t = c["radius"], min(c["thick"], 2 * c["radius"])
        m, e = call(cryomask.spherical_shell_mask, size, t, radius=r, center=cen); ref = sphere_ref(size, r + t / 2, cen) - sphere_ref(size, r - t / 2, cen)
    elif kind == "e_shell":
        rad = [x + 3 for x in c["radii"]]; t = min(c["thick"], 4)
        m, e = call(cryomask.ellipsoid_shell_mask, size, t, rad, center=cen)
        # ellipsoid radii are integers in cryomask (get_correct_format truncates): outer/inner solids use trunc(r +- t/2)
        ref = ell_ref(size, [int(x + t / 2) for x in rad], cen) * (1 - ell_ref(size, [int(x - t / 2) for x in rad], cen))
        dontcare = ell_edge(size, [int(x + t / 2) for x in rad], cen) | ell_edge(size, [int(x - t / 2) for x in rad], cen)
    elif kind == "soft":
        r = max(1, min(c["radius"], min(size) // 2 - 1)); sg = c["sigma"]
        which = c["seed"] % 3
        if which == 0:
            m, e = call(cryomask.spherical_mask, size, radius=r, center=cen, gaussian=sg, gaussian_outwards=c["outwards"]); core = sphere_ref(size, r, cen)
        elif which == 1:
            m, e = call(cryomask.cylindrical_mask, size, radius=r, height=2 * r + 1, center=cen, gaussian=sg, gaussian_outwards=c["outwards"]); core = cyl_ref(size, r, 2 * r + 1, cen)
        else:
            size2 = [s + (s % 2) for s in size]; cen2 = [min(x, s - 1) for x, s in zip(cen, size2)]
            m, e = call(cryomask.ellipsoid_mask, size2, radii=[r, r + 1, r], center=cen2, gaussian=sg, gaussian_outwards=c["outwards"]); core = ell_ref(size2, [r, r + 1, r], cen2)
        if e is not None:
            return {"raised": f"soft {type(e).__name__}: {e}", "outwards": c["outwards"]}
        m = np.asarray(m, float)
        if m.min() < -1e-9 or m.max() > 1 + 1e-9:
            return {"what": "soft mask leaves [0,1]", "min": float(m.min()), "max": float(m.max())}
        if c["outwards"] and np.any(m[core > 0] < 1 - 1e-3):
            return {"what": "blurred outwards but the requested core is not at 1 within 1e-3", "min_core": float(m[core > 0].min()), "sigma": sg}
        return None
    elif kind == "named":
        r = max(1, c["radius"] % 9 + 1); h = c["height"] % 12 + 1; t = c["thick"] % 3 + 1
        name, refk = [(f"sphere_r{r}", "sphere"), (f"cylinder_r{r}_h{h}", "cyl"), (f"s_shell_r{r + 2}_s{t}", "shell"), (f"ellipsoid_rx{r}_ry{r + 1}_rz{r + 2}", "ell")][c["seed"] % 4]
        m, e = call(cryomask.generate_mask, name)
        if e is not None:
            return {"raised": f"generate_mask({name}): {type(e).__name__}: {e}"}
        m = np.asarray(m, float); sz = list(m.shape); cc = [s // 2 for s in sz]
        ref = {"sphere": lambda: sphere_ref(sz, r, cc), "cyl": lambda: cyl_ref(sz, r, h, cc), "shell": lambda: sphere_ref(sz, r + 2 + t / 2, cc) - sphere_ref(sz, r + 2 - t / 2, cc),
               "ell": lambda: ell_ref(sz, [r, r + 1, r + 2], cc)}[refk]()
        if refk == "ell" and m.shape == ref.shape:
            m = np.where(ell_edge(sz, [r, r + 1, r + 2], cc), ref, m)
        if len(set(sz)) != 1 or not np.array_equal(m, ref):
            return {"what": f"generate_mask('{name}') differs from the analytic shape", "shape": sz}
        for bad in ("sphere_r", "cube_r3", "cylinder_r3", "sphere_r3_h2"):
            _, e2 = call(cryomask.generate_mask, bad)
            if not isinstance(e2, ValueError):
                return {"what": f"generate_mask('{bad}') does not raise ValueError"}
        return None
    else:
        rng = np.random.default_rng(c["seed"])
        ms = [(rng.random(size) if c["soft_inputs"] else (rng.random(size) > 0.5).astype(float)) for _ in range(c["k"])]
        for nm in ("union", "intersection", "subtraction", "difference"):
            keep = [x.copy() for x in ms]
            r, e = call(getattr(cryomask, nm), list(ms))
            if e is not None:
                return {"raised": f"{nm}: {type(e).__name__}: {e}"}
            r = np.asarray(r, float)
            if any(not np.array_equal(a, b) for a, b in zip(ms, keep)):
                return {"what": f"{nm} modified one of its inputs"}
            if r.min() < -1e-12 or r.max() > 1 + 1e-12:
                return {"what": f"{nm} leaves [0,1]"}
            if not c["soft_inputs"]:
                b = [k.astype(bool) for k in keep]
                anyb = np.any(b, axis=0); allb = np.all(b, axis=0)
                exp = {"union": anyb, "intersection": allb, "subtraction": b[0] & ~np.any(b[1:], axis=0) if len(b) > 1 else b[0], "difference": anyb & ~allb}[nm]
                if not np.array_equal(r, exp.astype(float)):
                    return {"what": f"{nm} != voxel-wise set operation", "k": len(b)}
        return None
    if e is not None:
        return {"raised": f"{kind}: {type(e).__name__}: {e}", "size": size, "center": cen, "radius": c["radius"], "height": c["height"]}
    m = np.asarray(m, float)
    if dontcare is not None and m.shape == ref.shape:
        m = np.where(dontcare, ref, m)
    if m.shape != tuple(size) or not np.array_equal(m, ref):
        return {"what": f"{kind}: mask differs from the analytic inequality", "voxels": int(np.sum(m != ref)) if m.shape == ref.shape else -1, "size": size, "center": cen,
                "radius": c["radius"], "height": c["height"], "radii": c["radii"]}
    return None
