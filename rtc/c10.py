"""C10 bounded stand-in and replay: cyclic symmetry expansion on the real code vs. the orbit relation"""
import numpy as np
import pandas as pd
from .util import *


def Rz(deg):
    a = np.deg2rad(deg)
    return np.array([[np.cos(a), -np.sin(a), 0], [np.sin(a), np.cos(a), 0], [0, 0, 1]])


def check_split(rows, sym, n, s):
    m = motl_from_rows(rows)
    src = m.df.copy()
    out, e = call(m.split_in_asymmetric_subunits, sym, s)
    if e is not None:
        return {"raised": f"{type(e).__name__}: {e}", "n": n}
    o = out.df
    if len(o) != n * len(src):
        return {"what": "number of subunits", "got": len(o), "expected": n * len(src)}
    if sorted(o.columns) != sorted(MOTL_COLS):
        return {"what": "columns"}
    ids = o["subtomo_id"].values
    if len(set(ids)) != len(ids):
        return {"what": "subtomo_id not unique"}
    pos0 = src[["x", "y", "z"]].values + src[["shift_x", "shift_y", "shift_z"]].values
    src_by_id = {r.subtomo_id: i for i, r in enumerate(src.itertuples())}
    seen = {}
    for j, r in enumerate(o.itertuples()):
        if r.geom5 not in src_by_id:
            return {"what": "geom5 is not a parent subtomo_id"}
        i = src_by_id[r.geom5]
        k = int(r.geom2) - 1
        if not (0 <= k < n) or r.geom2 != int(r.geom2) or (i, k) in seen:
            return {"what": "geom2 not a permutation of 1..n per parent", "geom2": r.geom2}
        seen[(i, k)] = j
        R = R_zxz(src.phi.iloc[i], src.theta.iloc[i], src.psi.iloc[i])
        Rk = R @ Rz(360.0 * k / n)
        if not np.allclose(R_zxz(r.phi, r.theta, r.psi), Rk, atol=1e-6):
            return {"what": "subunit orientation != R*Rz(360k/n)", "n": n, "k": k, "parent": src.iloc[i].to_dict()}
        p = np.array([r.x + r.shift_x, r.y + r.shift_y, r.z + r.shift_z])
        if not np.allclose(p, pos0[i] + Rk @ np.asarray(s, float), atol=1e-5):
            return {"what": "subunit position != centre + R*Rz(360k/n)*s", "n": n, "k": k, "got": p.tolist(), "expected": (pos0[i] + Rk @ np.asarray(s, float)).tolist()}
        if any(v != np.floor(v) for v in (r.x, r.y, r.z)) or max(abs(r.shift_x), abs(r.shift_y), abs(r.shift_z)) > 0.5 + 1e-9:
            return {"what": "x,y,z not integer or |shift| > 0.5"}
        for c in ("score", "tomo_id", "object_id", "class", "geom1", "geom3", "geom4", "subtomo_mean"):
            if getattr(r, c if c != "class" else "_20", None) is None:
                pass
        if not np.array_equal(o.iloc[j][["score", "tomo_id", "object_id", "class", "geom1", "geom3", "geom4", "subtomo_mean"]].values.astype(float),
                              src.iloc[i][["score", "tomo_id", "object_id", "class", "geom1", "geom3", "geom4", "subtomo_mean"]].values.astype(float)):
            return {"what": "parent fields not copied"}
    # geom2 runs 1..n in order within each parent block
    g2 = o["geom2"].values.reshape(len(src), n)
    if not np.array_equal(g2, np.tile(np.arange(1, n + 1), (len(src), 1))):
        return {"what": "geom2 order"}
    return None


def gen_cases(seed, ns):
    rng = np.random.default_rng(seed + 1010)
    ci = 0
    for n in ns:
        for form in range(3):
            npart = int(rng.choice([1, 2, 7, 100])) if form == 0 else int(rng.integers(1, 12))
            rows = random_motl_rows(rng, npart, n_tomos=3)
            ids = rng.permutation(np.arange(1, 3 * npart + 1))[:npart]
            for r, i in zip(rows, ids):
                r["subtomo_id"] = float(i)
            s = [[float(x) for x in rng.uniform(-15, 15, 3)], [0.0, 0.0, float(rng.uniform(-9, 9))], [float(rng.integers(1, 20)), 0.0, 0.0]][form]
            sym = [f"C{n}", f"c{n}", n][form]
            if form == 2 and n % 5 == 0:
                sym = float(n)
            ci += 1
            yield (ci, n, form, npart), {"rows": rows, "sym": sym, "n": n, "s": s}


def run_case(case):
    return check_split(case["rows"], case["sym"], case["n"], case["s"])


def replay_search(form="number"):
    """search small inputs (every n in 1..16, several sizes/offsets) for a native failure of the orbit clauses"""
    rng = np.random.default_rng(10)
    for n in range(1, 17):
        for t in range(3):
            npart = [1, 3, 8][t]
            rows = random_motl_rows(rng, npart, n_tomos=2)
            ids = rng.permutation(np.arange(1, 3 * npart + 1))[:npart]
            for r, i in zip(rows, ids):
                r["subtomo_id"] = float(i)
            s = [[float(x) for x in rng.uniform(-15, 15, 3)], [0.0, 0.0, 4.5], [7.0, 0.0, 0.0]][t]
            sym = {"number": n, "C": f"C{n}", "c": f"c{n}"}.get(form, n)
            r = check_split(rows, sym, n, s)
            if r is not None:
                return {"reproduced": True, "input": {"symmetry": sym, "xyz_shift": s, "rows": rows}, "observed": r}
    return {"reproduced": False, "input": "n in 1..16 x 3 sizes/offsets", "observed": None}
