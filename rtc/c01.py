"""C01 replay and bounded stand-in: EM motive lists written by the real code, bytes parsed independently"""
import os, struct
import numpy as np
import pandas as pd
from .util import *

CANON = ["score", "geom1", "geom2", "subtomo_id", "tomo_id", "object_id", "subtomo_mean", "x", "y", "z",
         "shift_x", "shift_y", "shift_z", "geom3", "geom4", "geom5", "phi", "psi", "theta", "class"]


def parse_em(path):
    """independent EM reader: 512-byte header (byte 0 machine, byte 3 data type, int32 xdim,ydim,zdim at offset 4), payload little endian"""
    b = open(path, "rb").read()
    machine, _, _, dtype = struct.unpack("4b", b[:4])
    x, y, z = struct.unpack("<3i", b[4:16])
    code = {1: "<i1", 2: "<i2", 4: "<i4", 5: "<f4", 9: "<f8"}.get(dtype)
    if code is None:
        return {"error": f"dtype code {dtype}"}
    data = np.frombuffer(b[512:], dtype=code)
    if data.size != x * y * z:
        return {"error": f"payload {data.size} != {x}*{y}*{z}"}
    return {"machine": machine, "dtype": dtype, "dims": (x, y, z), "data": data.reshape(z, y, x), "size": len(b)}


def _write_and_check(df, path_kind, tmp):
    from cryocat import cryomotl
    path = os.path.join(tmp, "m.em")
    src = df.copy()
    if path_kind == "EmMotl.write_out":
        m, e = call(cryomotl.EmMotl, df)
        if e is None:
            _, e = call(m.write_out, path)
    else:
        m, e = call(cryomotl.Motl, df)
        if e is None:
            _, e = call(m.write_out, path, "emmotl")
    if e is not None:
        return {"raised": f"{type(e).__name__}: {e}"}
    em = parse_em(path)
    if "error" in em:
        return {"what": "not a valid EM file", "detail": em["error"]}
    n = len(src)
    if em["dtype"] != 5 or em["dims"] != (20, n, 1) or em["machine"] != 6:
        return {"what": "EM header", "got": [em["machine"], em["dtype"], em["dims"]], "expected": [6, 5, (20, n, 1)]}
    exp = np.nan_to_num(src[CANON].values.astype(np.float64), nan=0.0).astype(np.float32)
    got = em["data"][0]
    if not np.array_equal(got, exp):
        j = int(np.argwhere(got != exp)[0][1])
        return {"what": f"file column {j} does not hold field {CANON[j]} (single-precision, NaN -> 0)", "got_row0": got[0].tolist(), "expected_row0": exp[0].tolist(), "columns_of_input": list(src.columns)}
    back, e = call(cryomotl.Motl.load, path)
    if e is not None:
        return {"raised": f"load {type(e).__name__}: {e}"}
    if list(back.df.columns) != CANON or len(back.df) != n:
        return {"what": "loaded table shape"}
    if not np.array_equal(back.df[CANON].values.astype(np.float64), exp.astype(np.float64)):
        return {"what": "write;load changed a value beyond single-precision rounding"}
    return None


def replay_write(model, path_kind):
    perm = [int(fval(model.get(f"perm{j}"), j)) for j in range(20)]
    if sorted(perm) != list(range(20)):
        perm = list(range(20)); perm[0], perm[1] = 1, 0
    row = row_from_model(model)
    for j, c in enumerate(CANON):
        row[c] = float(j + 1) + 0.25 if row[c] == 0 else row[c]
    cols = [CANON[perm[j]] for j in range(20)]
    df = pd.DataFrame([row], columns=cols).astype(float)
    with scratch() as tmp:
        r = _write_and_check(df, path_kind, tmp)
    return {"reproduced": r is not None, "input": {"columns": cols, "row": row}, "observed": r}


def gen_cases(seed, n_cases):
    rng = np.random.default_rng(seed + 101)
    for ci in range(n_cases):
        n = [1, 2, 7, 64, 300][ci % 5] if ci % 3 == 0 else int(rng.integers(1, 40))
        kind = ["identity", "reverse", "adjacent", "random", "random"][ci % 5]
        perm = list(range(20))
        if kind == "reverse":
            perm = perm[::-1]
        elif kind == "adjacent":
            j = int(rng.integers(0, 19)); perm[j], perm[j + 1] = perm[j + 1], perm[j]
        elif kind == "random":
            perm = [int(x) for x in rng.permutation(20)]
        vals = rng.normal(0, 1, (n, 20)) * rng.choice([1.0, 1e3, 1e-3, 1e30, 3e38 / 4], size=(n, 20))
        vals[rng.random((n, 20)) < 0.1] = np.nan
        vals[rng.random((n, 20)) < 0.1] = np.round(vals[rng.random((n, 20)) < 0.1] if False else 0.0)
        yield (ci, kind, n), {"perm": perm, "vals": vals.tolist(), "path": ["EmMotl.write_out", "Motl.write_out"][ci % 2]}


def run_case(case):
    cols = [CANON[j] for j in case["perm"]]
    vals = np.array(case["vals"], dtype=float)
    # value of field CANON[k] for row r is vals[r][k]; the table lists the columns in permuted order
    df = pd.DataFrame({c: vals[:, CANON.index(c)] for c in cols}, columns=cols)
    with scratch() as tmp:
        return _write_and_check(df, case["path"], tmp)
