"""C07 bounded stand-in: score-ranked distance suppression (Motl.clean_by_distance, tmana.scores_extract_particles) on the real code"""
import os
import numpy as np
import pandas as pd
from .util import *


def gen_cases(seed, n_cases, maxmap=24):
    rng = np.random.default_rng(seed + 707)
    for ci in range(n_cases):
        kind = ["clean", "clean", "tmana"][ci % 3]
        yield (ci, kind), {"kind": kind, "n": int(rng.choice([1, 2, 400])) if ci % 13 == 0 else int(rng.integers(1, 80)), "groups": int(rng.integers(1, 5)), "d": float(rng.choice([1.0, 2.5, 5.0, 9.0])),
                           "greater": bool(ci % 2 == 0), "feature": ["tomo_id", "object_id", "class"][ci % 3], "metric": ["score", "geom1"][ci % 2], "seed": int(rng.integers(1 << 30)),
                           "map": int(rng.integers(8, maxmap + 1)), "numbering": int(ci % 2), "order": ["zxz", "zzx"][(ci // 2) % 2], "as_file": bool(ci % 5 == 0), "diam": float(rng.choice([2.0, 3.5, 5.0]))}


def _check_clean(c):
    rng = np.random.default_rng(c["seed"])
    rows = random_motl_rows(rng, c["n"], n_tomos=3, half_ties=False, big_angles=False)
    cl = rng.uniform(0, 25, (max(1, c["n"] // 4), 3))
    for i, r in enumerate(rows):
        p = cl[rng.integers(0, len(cl))] + rng.normal(0, c["d"] * 0.6, 3)
        for k, a in enumerate("xyz"):
            r[a], r["shift_" + a] = float(np.floor(p[k])), float(p[k] - np.floor(p[k]))
        r[c["feature"]] = float(rng.integers(1, c["groups"] + 1))
        r["score"] = float(rng.random()); r["geom1"] = float(rng.random()); r["subtomo_id"] = float(i + 1)
    m = motl_from_rows(rows)
    src = m.df.copy()
    _, e = call(m.clean_by_distance, c["d"], c["feature"], metric_id=c["metric"], keep_greater=c["greater"])
    if e is not None:
        return {"raised": f"clean_by_distance {type(e).__name__}: {e}"}
    out = m.df
    if sorted(out.columns) != sorted(MOTL_COLS):
        return {"what": "columns after cleaning"}
    pos = lambda df: df[["x", "y", "z"]].values + df[["shift_x", "shift_y", "shift_z"]].values
    kept = set(out["subtomo_id"].values)
    if len(kept) != len(out):
        return {"what": "a particle appears twice"}
    sid = src.set_index("subtomo_id")
    P = dict(zip(src["subtomo_id"].values, pos(src)))
    better = (lambda a, b: a >= b) if c["greater"] else (lambda a, b: a <= b)
    for g, grp in src.groupby(c["feature"]):
        ids = list(grp["subtomo_id"].values)
        kg = [i for i in ids if i in kept]
        for a in range(len(kg)):
            for b in range(a + 1, len(kg)):
                d = np.linalg.norm(P[kg[a]] - P[kg[b]])
                if d < c["d"] - 1e-9:
                    return {"what": "two remaining particles of one group are closer than d", "distance": float(d), "d": c["d"], "group": float(g)}
        for i in ids:
            if i in kept:
                continue
            ok = False
            for j in kg:
                d = np.linalg.norm(P[i] - P[j])
                if d <= c["d"] + 1e-9 and better(sid.loc[j, c["metric"]], sid.loc[i, c["metric"]]):
                    ok = True; break
            if not ok:
                # would it have been removed by a particle of ANOTHER group? -> cross-group leakage
                leak = any(np.linalg.norm(P[i] - P[j]) < c["d"] for j in kept if sid.loc[j, c["feature"]] != g)
                return {"what": "a removed particle has no remaining, at least as good, particle of its own group within d", "cross_group_particle_nearby": bool(leak), "group": float(g)}
    o = out.set_index("subtomo_id")
    if not np.array_equal(o[MOTL_COLS[:3] + MOTL_COLS[4:]].values, sid.loc[o.index][MOTL_COLS[:3] + MOTL_COLS[4:]].values):
        return {"what": "a surviving particle was altered"}
    return None


def _check_tmana(c, tmp):
    from cryocat import tmana
    rng = np.random.default_rng(c["seed"])
    n = c["map"]; shape = (n, n + 1, n + 2)
    scores = rng.random(shape).astype(np.float32)
    scores = (scores + 1e-4 * rng.permutation(scores.size).reshape(shape) / scores.size).astype(np.float64)  # plateau free
    if len(np.unique(scores)) != scores.size:
        return None
    nang = 50
    base = c["numbering"]
    amap = rng.integers(base, nang + base, shape).astype(np.float64)
    alist = np.column_stack([rng.uniform(-180, 180, nang), rng.uniform(0, 180, nang), rng.uniform(-180, 180, nang)])  # (phi, theta, psi)
    given = alist if c["order"] == "zxz" else alist[:, [0, 2, 1]]
    arg = given.copy()
    if c["as_file"]:
        arg = os.path.join(tmp, "angles.csv")
        np.savetxt(arg, given, delimiter=",")
    thr = float(np.quantile(scores, 0.97))
    if c["seed"] % 2 == 0:
        # boundary: the threshold EQUALS the score of a voxel that is the best one within the particle diameter (must not be extracted)
        cand = np.argwhere(scores > np.quantile(scores, 0.9))
        cand = cand[np.argsort(scores[tuple(cand.T)])]
        for v in cand[:400]:
            lo, hi = np.maximum(v - int(np.ceil(c["diam"])), 0), np.minimum(v + int(np.ceil(c["diam"])) + 1, shape)
            sub = scores[lo[0]:hi[0], lo[1]:hi[1], lo[2]:hi[2]]
            gg = np.argwhere(sub > scores[tuple(v)]) + lo
            if not np.any(np.linalg.norm(gg - v, axis=1) <= c["diam"]):
                thr = float(scores[tuple(v)])
                break
    if c["seed"] % 5 == 1:
        # very few candidates: the threshold lies between the k-th and the (k+1)-th best score, k = 0 (nothing to extract), 1, 2, 3
        top = np.sort(scores.ravel())[::-1]
        kk = (c["seed"] // 5) % 4
        thr = float(top[0]) if kk == 0 else float((top[kk - 1] + top[kk]) / 2)
    # run-time monitor of the REQUIRES of the two block contracts (contracts/c07.py: TmanaSuppression, TmanaBookkeeping): the candidate list
    # built by the function's prefix (threshold, np.where, argpartition / argsort, sorted) is observed when the suppression block starts
    import sys
    seen = {}

    def tracer(frame, ev, a):
        if frame.f_code.co_name != "scores_extract_particles":
            return None

        def local(fr, ev2, a2):
            if ev2 == "line" and "scored_coords" in fr.f_locals and "tree" not in fr.f_locals and "cands" not in seen:
                seen["cands"] = [(tuple(int(v) for v in cc), float(ss)) for cc, ss in fr.f_locals["scored_coords"]]
                seen["threshold"] = float(fr.f_locals["threshold"])
            return local
        return local
    sys.settrace(tracer)
    try:
        m, e = call(tmana.scores_extract_particles, scores, amap, arg, 5, c["diam"], scores_threshold=thr, angles_order=c["order"], angles_numbering=base)
    finally:
        sys.settrace(None)
    if e is None and m is not None and not c["as_file"]:
        # the in-memory angle list is shared between the tomograms of a batch: the call must leave it as it was, and a second call
        # with the same list must give the same particles
        if not np.array_equal(arg, given):
            return {"what": "the caller's angle list was modified by the call (it is reused for the next tomogram)", "order": c["order"]}
        m2, e2 = call(tmana.scores_extract_particles, scores, amap, arg, 5, c["diam"], scores_threshold=thr, angles_order=c["order"], angles_numbering=base)
        if e2 is not None or not np.array_equal(m2.df.values, m.df.values):
            return {"what": "a second call with the same angle list gives different particles", "order": c["order"], "raised": repr(e2)}
    if "cands" in seen:
        cs = seen["cands"]
        if seen["threshold"] != thr:
            return {"what": "requires of the suppression block: threshold used is not the given one"}
        if any(cs[i][1] < cs[i + 1][1] for i in range(len(cs) - 1)):
            return {"what": "requires of the suppression block: candidates not sorted by decreasing score"}
        if len(set(cc for cc, _ in cs)) != len(cs):
            return {"what": "requires of the suppression block: candidate coordinates not pairwise different"}
        want = set(map(tuple, np.argwhere(scores > thr)))
        if set(cc for cc, _ in cs) != want:
            return {"what": "requires of the suppression block: candidates are not exactly the voxels above the threshold", "got": len(cs), "expected": len(want)}
        if any(abs(ss - scores[cc]) > 1e-12 for cc, ss in cs):
            return {"what": "requires of the suppression block: candidate does not carry its voxel's score"}
    if e is not None:
        return {"raised": f"scores_extract_particles {type(e).__name__}: {e}"}
    supra = np.argwhere(scores > thr)
    if m is None:
        return None if len(supra) == 0 else {"what": "no peaks although voxels exceed the threshold"}
    df = m.df
    vox = (df[["x", "y", "z"]].values - 1).astype(int)
    if np.any(vox < 0) or np.any(vox >= np.array(shape)):
        return {"what": "peak outside the map"}
    sc = scores[vox[:, 0], vox[:, 1], vox[:, 2]]
    if np.any(sc <= thr):
        return {"what": "a peak does not exceed the threshold"}
    if not np.allclose(df["score"].values, sc, atol=1e-7):
        return {"what": "peak does not carry its voxel's score (or position is not 1-based voxel + 1)"}
    for a in range(len(vox)):
        for b in range(a + 1, len(vox)):
            if np.linalg.norm(vox[a] - vox[b]) <= c["diam"] - 1e-9:
                return {"what": "two peaks within the particle diameter", "distance": float(np.linalg.norm(vox[a] - vox[b])), "diameter": c["diam"]}
    for v in supra:
        d = np.linalg.norm(vox - v, axis=1)
        ok = np.any((d <= c["diam"] + 1e-9) & (sc >= scores[tuple(v)] - 1e-12))
        if not ok:
            return {"what": "a supra-threshold voxel is not within the diameter of an extracted peak with equal or higher score", "voxel": v.tolist(), "score": float(scores[tuple(v)])}
    idx = amap[vox[:, 0], vox[:, 1], vox[:, 2]].astype(int) - base
    exp = alist[idx]
    got = df[["phi", "theta", "psi"]].values
    if not np.allclose(got, exp, atol=1e-5):
        return {"what": "peak angles are not the Euler angles (phi, theta, psi) its angle-map entry points to", "order": c["order"], "as_file": c["as_file"], "numbering": base,
                "got": got[0].tolist(), "expected": exp[0].tolist()}
    if not (np.all(df["tomo_id"].values == 5) and list(df["subtomo_id"].values) == list(range(1, len(df) + 1))):
        return {"what": "tomo_id / subtomo_id bookkeeping"}
    return None


def run_case(c):
    with scratch() as tmp:
        if c["kind"] == "clean":
            return _check_clean(c)
        return _check_tmana(c, tmp)


def replay_small(kind="clean"):
    c = {"kind": kind, "n": 30, "groups": 2, "d": 5.0, "greater": True, "feature": "tomo_id", "metric": "score", "seed": 5, "map": 12, "numbering": 1, "order": "zzx", "as_file": False, "diam": 3.5}
    r = run_case(c)
    return {"reproduced": r is not None, "input": c, "observed": r}


def replay_angles_load(order, src):
    """native replay of the rot_angles_load contract: rows (phi, theta, psi), array argument unchanged"""
    from cryocat import ioutils
    rng = np.random.default_rng(7)
    alist = np.column_stack([rng.uniform(-180, 180, 9), rng.uniform(0, 180, 9), rng.uniform(-180, 180, 9)])
    given = alist if order == "zxz" else alist[:, [0, 2, 1]]
    with scratch() as tmp:
        arg = given.copy()
        if src == "file":
            arg = os.path.join(tmp, "angles.csv")
            np.savetxt(arg, given, delimiter=",")
        out = []
        for k in range(2):
            r, e = call(ioutils.rot_angles_load, arg, order)
            if e is not None:
                return {"reproduced": True, "input": {"order": order, "src": src}, "observed": repr(e)}
            out.append(np.array(r))
        bad = [k for k in range(2) if out[k].shape != alist.shape or not np.allclose(out[k], alist)]
        changed = src == "array" and not np.array_equal(arg, given)
        return {"reproduced": bool(bad or changed), "input": {"order": order, "src": src, "rows": given[:2].tolist()},
                "observed": {"calls_with_wrong_rows": bad, "argument_changed": bool(changed), "first_rows": [o[:2].tolist() for o in out]}}


def replay_clean(cfg=None):
    """search small random particle lists for a native failure of the clean_by_distance clauses"""
    import random
    rng = random.Random(11)
    for t in range(200):
        c = {"kind": "clean", "n": rng.choice([2, 3, 5, 12, 40]), "groups": rng.choice([1, 2, 3]), "d": rng.choice([0.5, 2.0, 5.0, 9.0]),
             "greater": (cfg or {}).get("keep_greater", rng.random() < 0.5), "feature": (cfg or {}).get("feature", "tomo_id"),
             "metric": (cfg or {}).get("metric", "score"), "seed": t}
        r = run_case(c)
        if r is not None:
            return {"reproduced": True, "input": c, "observed": r}
    return {"reproduced": False, "input": "200 random particle lists", "observed": None}
