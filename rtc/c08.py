"""C08 bounded stand-in: histories of set operations on the real Motl against a pure-Python row-set model"""
import numpy as np
import pandas as pd
from .util import *

OPS = ["subset", "remove", "split", "intersection", "dropdup", "merge_renumber", "merge_dropdup", "renumber_particles", "renumber_objects"]


def replay_intersection(feature):
    from cryocat import cryomotl
    rng = np.random.default_rng(1)
    a = random_motl_rows(rng, 4)
    b = random_motl_rows(rng, 4)
    for r, v in zip(b, [1.0, 1.0, 3.0, 4.0]):
        r[feature] = v
    for r, v in zip(a, [1.0, 2.0, 3.0, 5.0]):
        r[feature] = v
    m, e = call(cryomotl.Motl.get_motl_intersection, motl_from_rows(a), motl_from_rows(b), feature)
    if e is not None:
        return {"reproduced": True, "observed": f"raised {type(e).__name__}: {e}"}
    got = list(m.df[feature].values)
    return {"reproduced": got != [1.0, 3.0], "input": {"first": [1, 2, 3, 5], "second": [1, 1, 3, 4]}, "observed": got, "expected": [1.0, 3.0]}


def replay_select(model, feature, m, op):
    """the solver's row and requested values against the real get_motl_subset / remove_feature (oracle: exact equality of the field)"""
    row = row_from_model(model)
    vals = [fval(model.get(f"v{j}"), 1000.0 + j) for j in range(m)]
    other = dict(row); other[feature] = max(abs(v) for v in vals + [row[feature]]) * 3 + 17.0; other["subtomo_id"] = other.get("subtomo_id", 0.0) + 1.0
    if feature == "subtomo_id":
        other["subtomo_id"] = other[feature]
    rows = [row, other]
    mo = motl_from_rows(rows)
    arg = vals if m > 1 else vals[0]
    if op == "subset":
        out, e = call(mo.get_motl_subset, arg, feature_id=feature)
    else:
        out, e = call(mo.remove_feature, feature, arg)
        out = mo
    if e is not None:
        return {"reproduced": True, "input": {"rows": rows, "values": vals}, "observed": f"raised {type(e).__name__}: {e}"}
    got = sorted(_rows(out.df))
    want = sorted(_rows(pd.DataFrame([r for r in rows if (r[feature] in vals) == (op == "subset")], columns=MOTL_COLS)))
    return {"reproduced": got != want, "input": {"feature": feature, "values": vals, "field_values": [r[feature] for r in rows]},
            "observed": {"rows": len(got)}, "expected": {"rows": len(want)}}


def replay_renumber_objects(n=200):
    """native search: interleaved objects in several tomograms, any starting number -- same number iff same (tomogram, object), numbers consecutive"""
    rng = np.random.default_rng(8)
    for k in range(n):
        rows = random_motl_rows(rng, int(rng.integers(1, 30)), n_tomos=3, big_angles=False)
        for r in rows:
            r["object_id"] = float(rng.integers(1, 5) * 3)
        start = int(rng.integers(1, 50)) if k % 2 else 1
        m = motl_from_rows(rows)
        _, e = call(m.renumber_objects_sequentially, start)
        if e is not None:
            return {"reproduced": True, "input": {"rows": len(rows), "start": start}, "observed": f"raised {type(e).__name__}: {e}"}
        new = dict(zip(m.df["subtomo_id"].values, m.df["object_id"].values))
        mp = {}
        bad = None
        for r in rows:
            key = (r["tomo_id"], r["object_id"])
            if mp.setdefault(key, new[r["subtomo_id"]]) != new[r["subtomo_id"]]:
                bad = "one (tomogram, object) group got two numbers"
        if bad is None and len(set(mp.values())) != len(mp):
            bad = "two (tomogram, object) groups share a number"
        if bad is None and sorted(mp.values()) != [float(i) for i in range(start, start + len(mp))]:
            bad = "numbers not consecutive from the starting number"
        if bad:
            return {"reproduced": True, "input": {"tomo_object": [[r["tomo_id"], r["object_id"]] for r in rows], "start": start}, "observed": {"what": bad, "numbers": sorted(mp.values())}}
    return {"reproduced": False, "input": f"{n} random lists", "observed": None}


def _rows(df):
    return [tuple(float(v) for v in r) for r in df[MOTL_COLS].values]


def _gen_list(rng, n, big=0.0):
    """big: base added to particle / object numbers (large data sets: neighbouring numbers differ by a relative 1e-6)"""
    rows = random_motl_rows(rng, n, n_tomos=3, big_angles=False)
    ids = rng.integers(1, max(2, n), size=n) if rng.random() < 0.4 else rng.permutation(np.arange(1, n + 1))
    for r, i in zip(rows, ids):
        r["subtomo_id"] = float(i) + big
        r["object_id"] = float(rng.integers(1, 6)) + big
        r["class"] = float(rng.integers(1, 4))
        r["score"] = float(np.round(rng.random(), 3))
    return rows


def gen_cases(seed, n_cases, max_ops=6):
    rng = np.random.default_rng(seed + 808)
    for ci in range(n_cases):
        n = int(rng.choice([0, 1, 2, 200])) if ci % 11 == 0 else int(rng.integers(1, 40))
        big = float(rng.choice([100000.0, 2500000.0])) if ci % 4 == 3 else 0.0
        ops = []
        for _ in range(int(rng.integers(1, max_ops + 1))):
            op = str(rng.choice(OPS))
            arg = None
            if op in ("subset", "remove"):
                f = str(rng.choice(["tomo_id", "object_id", "class", "subtomo_id"]))
                k = int(rng.integers(1, 4))
                arg = {"feature": f, "values": [float(v) + (big if f in ("object_id", "subtomo_id") else 0.0) for v in rng.choice(np.arange(0, 7), size=k, replace=False)]}
            elif op == "split":
                arg = {"feature": str(rng.choice(["tomo_id", "object_id", "class"])), "pick": int(rng.integers(0, 5))}
            elif op in ("intersection", "merge_renumber", "merge_dropdup"):
                arg = {"other": _gen_list(rng, int(rng.integers(0, 25)), big), "feature": str(rng.choice(["subtomo_id", "subtomo_id", "tomo_id"])), "k3": bool(rng.random() < 0.3)}
            ops.append((op, arg))
        yield (ci, n, tuple(o[0] for o in ops)), {"rows": _gen_list(rng, n, big), "ops": ops}


def _cmp(df, model_rows, what, ordered=True):
    if sorted(df.columns) != sorted(MOTL_COLS) or len(df.columns) != 20:
        return {"what": f"{what}: table no longer has exactly the 20 fields", "columns": list(df.columns)}
    got = _rows(df)
    if (got != model_rows) if ordered else (sorted(got) != sorted(model_rows)):
        return {"what": f"{what}: rows differ from the row-set model", "got_n": len(got), "model_n": len(model_rows),
                "first_diff": next(((g, m) for g, m in zip(got, model_rows) if g != m), None) if ordered else None}
    return None


I = {c: i for i, c in enumerate(MOTL_COLS)}


def _set(row, col, v):
    r = list(row); r[I[col]] = float(v); return tuple(r)


def run_case(case):
    from cryocat import cryomotl
    Motl = cryomotl.Motl
    m = motl_from_rows(case["rows"])
    model = _rows(m.df)
    for step, (op, arg) in enumerate(case["ops"]):
        tag = f"step {step} {op}"
        if op == "subset":
            f, vs = arg["feature"], arg["values"]
            r, e = call(m.get_motl_subset, list(vs), feature_id=f)
            exp = [row for v in vs for row in model if row[I[f]] == v]
            if e is None:
                m = r
        elif op == "remove":
            f, vs = arg["feature"], arg["values"]
            keep_before = list(model)
            _, e = call(m.remove_feature, f, list(vs))
            exp = [row for row in model if row[I[f]] not in vs]
            # complementarity with selection
            if e is None:
                sel = [row for row in keep_before if row[I[f]] in vs]
                if sorted(sel + exp) != sorted(keep_before):
                    return {"what": "model inconsistency"}
        elif op == "split":
            f = arg["feature"]
            parts, e = call(m.split_by_feature, f)
            if e is None:
                seen = []
                for p in parts:
                    seen += _rows(p.df)
                    vals = set(p.df[f].values)
                    if len(vals) != 1:
                        return {"what": f"{tag}: a block holds {len(vals)} feature values"}
                    c = _cmp(p.df, [row for row in model if row[I[f]] == list(vals)[0]], tag)
                    if c:
                        return c
                if sorted(seen) != sorted(model):
                    return {"what": f"{tag}: blocks do not partition the list"}
                if parts:
                    m = Motl(parts[arg["pick"] % len(parts)].df.reset_index(drop=True))
                    model = _rows(m.df)
            exp = model
        elif op == "intersection":
            other = motl_from_rows(arg["other"]); f = arg["feature"]
            r, e = call(Motl.get_motl_intersection, m, other, f)
            ids = set(other.df[f].values)
            exp = [row for row in model if row[I[f]] in ids]
            if e is None:
                m = r
        elif op == "dropdup":
            _, e = call(m.drop_duplicates)
            best = {}
            for row in model:
                k = row[I["subtomo_id"]]
                if k not in best or row[I["score"]] > best[k][I["score"]]:
                    best[k] = row
            if e is None:
                got = _rows(m.df)
                ids = [g[I["subtomo_id"]] for g in got]
                if len(set(ids)) != len(ids) or set(ids) != set(best):
                    return {"what": f"{tag}: not exactly one row per id"}
                for g in got:
                    if g not in model or g[I["score"]] != best[g[I["subtomo_id"]]][I["score"]]:
                        return {"what": f"{tag}: kept row is not a best-scoring row of its id", "row": g}
                model = got
            exp = model
        elif op in ("merge_renumber", "merge_dropdup"):
            others = [motl_from_rows(arg["other"])]
            if arg["k3"]:
                others.append(motl_from_rows(arg["other"][: len(arg["other"]) // 2]))
            inputs = [m] + others
            snap = [_rows(x.df) for x in inputs]
            fn = Motl.merge_and_renumber if op == "merge_renumber" else Motl.merge_and_drop_duplicates
            r, e = call(fn, list(inputs))
            if e is None:
                for x, s in zip(inputs, snap):
                    if _rows(x.df) != s:
                        return {"what": f"{tag}: an input list was modified"}
                got = _rows(r.df)
                if sorted(r.df.columns) != sorted(MOTL_COLS):
                    return {"what": f"{tag}: table no longer has exactly the 20 fields", "columns": list(r.df.columns)}
                if op == "merge_renumber":
                    if len(got) != sum(len(s) for s in snap):
                        return {"what": f"{tag}: row count"}
                    if [g[I["subtomo_id"]] for g in got] != [float(i) for i in range(1, len(got) + 1)]:
                        return {"what": f"{tag}: subtomo_id is not 1..N"}
                    pos = 0
                    used = {}
                    for j, s in enumerate(snap):
                        blk = got[pos: pos + len(s)]; pos += len(s)
                        shifts = set(g[I["object_id"]] - o[I["object_id"]] for g, o in zip(blk, s))
                        if len(shifts) > 1:
                            return {"what": f"{tag}: grouping of input {j} not kept (object ids shifted unevenly)"}
                        for g, o in zip(blk, s):
                            if [v for k, v in enumerate(g) if k not in (I["object_id"], I["subtomo_id"])] != [v for k, v in enumerate(o) if k not in (I["object_id"], I["subtomo_id"])]:
                                return {"what": f"{tag}: another field of a row changed"}
                            if used.setdefault(g[I["object_id"]], j) != j:
                                return {"what": f"{tag}: object number {g[I['object_id']]} collides across inputs {used[g[I['object_id']]]} and {j}"}
                else:
                    ids = [g[I["subtomo_id"]] for g in got]
                    allrows = [row for s in snap for row in s]
                    if len(set(ids)) != len(ids) or set(ids) != set(row[I["subtomo_id"]] for row in allrows):
                        return {"what": f"{tag}: not exactly one row per id"}
                    for g in got:
                        cands = [row for row in allrows if row[I["subtomo_id"]] == g[I["subtomo_id"]]]
                        if g[I["score"]] != max(c[I["score"]] for c in cands):
                            return {"what": f"{tag}: kept row is not best-scoring"}
                        if not any([v for k, v in enumerate(g) if k != I["object_id"]] == [v for k, v in enumerate(c) if k != I["object_id"]] for c in cands):
                            return {"what": f"{tag}: another field of a row changed"}
                    # each input's grouping is kept (one common object-number offset per input) and object numbers of different inputs do not collide
                    # (judged on the kept rows that stem from exactly one input)
                    strip = lambda row: tuple(v for k, v in enumerate(row) if k != I["object_id"])
                    owner, shift = {}, {}
                    for g in got:
                        src = [(j, row) for j, s in enumerate(snap) for row in s if strip(row) == strip(g)]
                        js = set(j for j, _ in src)
                        if len(js) == 1 and len(set(row[I["object_id"]] for _, row in src)) == 1:
                            j, row = src[0]
                            d = g[I["object_id"]] - row[I["object_id"]]
                            if shift.setdefault(j, d) != d:
                                return {"what": f"{tag}: grouping of input {j} not kept (object ids shifted unevenly)"}
                            if owner.setdefault(g[I["object_id"]], j) != j:
                                return {"what": f"{tag}: object number {g[I['object_id']]} collides across inputs {owner[g[I['object_id']]]} and {j}"}
                m = r
                model = got
            exp = model
        elif op == "renumber_particles":
            _, e = call(m.renumber_particles)
            exp = [_set(row, "subtomo_id", i + 1) for i, row in enumerate(model)]
        elif op == "renumber_objects":
            _, e = call(m.renumber_objects_sequentially)
            if e is None:
                got = _rows(m.df) if sorted(m.df.columns) == sorted(MOTL_COLS) else None
                if got is None:
                    return {"what": f"{tag}: table no longer has exactly the 20 fields", "columns": list(m.df.columns)}
                if len(got) != len(model):
                    return {"what": f"{tag}: row count"}
                mp = {}
                for g, o in zip(got, model):
                    if [v for k, v in enumerate(g) if k != I["object_id"]] != [v for k, v in enumerate(o) if k != I["object_id"]]:
                        return {"what": f"{tag}: another field changed or rows reordered"}
                    key = (o[I["tomo_id"]], o[I["object_id"]])
                    if mp.setdefault(key, g[I["object_id"]]) != g[I["object_id"]]:
                        return {"what": f"{tag}: one (tomogram, object) group got two numbers"}
                if len(set(mp.values())) != len(mp):
                    return {"what": f"{tag}: two (tomogram, object) groups share a number"}
                if mp and sorted(mp.values()) != [float(i) for i in range(1, len(mp) + 1)]:
                    return {"what": f"{tag}: numbers not consecutive from 1", "numbers": sorted(mp.values())[:10]}
                model = got
            exp = model
        if e is not None:
            if len(model) == 0:
                # operations on an empty list may refuse; stop the history here
                return None if isinstance(e, (ValueError, KeyError, IndexError)) and op in ("renumber_objects", "dropdup", "split") else {"what": f"{tag}: raised on an empty list", "raised": f"{type(e).__name__}: {e}"}
            return {"what": f"{tag}: raised", "raised": f"{type(e).__name__}: {e}"}
        c = _cmp(m.df, exp, tag)
        if c:
            return c
        model = exp
    return None
