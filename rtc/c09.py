"""C09 replay builders and bounded stand-in for the four spatial filters (real cryomotl code vs. independent predicates)"""
import numpy as np
import pandas as pd
from math import ceil
from .util import *


def _pos(df):
    return df[["x", "y", "z"]].values + df[["shift_x", "shift_y", "shift_z"]].values


def _inside(pos, dim, b):
    return bool(np.all(pos - b >= 0) and np.all(pos + b < dim))


def replay_oob(model, btype, clause):
    row = row_from_model(model)
    t = row["tomo_id"]
    dim = [fval(model.get("dims_" + a + "@(dims_" + a + " tomo_id)"), 100.0) for a in "xyz"]
    box = int(fval(model.get("box"), 4))
    # dims_x etc. are uninterpreted functions in the model; use a generic volume and place the particle as in the model
    m = motl_from_rows([row])
    d = pd.DataFrame({"tomo_id": [t], "x": [dim[0]], "y": [dim[1]], "z": [dim[2]]})
    _, e = call(m.remove_out_of_bounds_particles, d, boundary_type=btype, box_size=(box if btype == "whole" else None))
    if e is not None:
        return {"reproduced": True, "input": row, "observed": f"raised {type(e).__name__}: {e}"}
    b = 0 if btype == "center" else ceil(box / 2)
    p = _pos(pd.DataFrame([row]))[0]
    kept = len(m.df) == 1
    return {"reproduced": bool(kept != _inside(p, np.array(dim), b)), "input": {"row": row, "dims": dim, "box": box, "boundary_type": btype},
            "observed": {"kept": kept}, "expected": {"kept": _inside(p, np.array(dim), b)}}


def replay_trim(model):
    row = row_from_model(model)
    ts = [fval(model.get(f"ts{i}"), 1.0) for i in range(3)]
    te = [fval(model.get(f"te{i}"), 50.0) for i in range(3)]
    m = motl_from_rows([row])
    _, e = call(m.adapt_to_trimming, ts, te)
    if e is not None:
        return {"reproduced": True, "input": row, "observed": f"raised {type(e).__name__}: {e}"}
    x = np.array([row[a] for a in "xyz"])
    exp_kept = bool(np.all(x >= ts) and np.all(x <= te))
    kept = len(m.df) == 1
    bad = kept != exp_kept or (kept and not np.allclose(m.df[["x", "y", "z"]].values[0], x - (np.array(ts) - 1)))
    return {"reproduced": bool(bad), "input": {"row": row, "ts": ts, "te": te}, "observed": {"kept": kept}}


def _rows(rng, n, dims):
    rows = random_motl_rows(rng, n, n_tomos=len(dims), half_ties=True, big_angles=False)
    for r in rows:
        d = dims[int(r["tomo_id"]) - 1]
        for i, a in enumerate("xyz"):
            k = rng.integers(0, 8)
            base = [rng.integers(0, d[i]), 0, d[i] - 1, d[i], d[i] + 1, -int(rng.integers(1, 6)), rng.integers(0, d[i]), rng.integers(-3, d[i] + 3)][k]
            r[a] = float(base)
            r["shift_" + a] = float(rng.choice([0.0, 0.0, 0.5, -0.5, rng.uniform(-2, 2), 0.25]))
    return rows


def gen_cases(seed, n_cases):
    rng = np.random.default_rng(seed + 909)
    kinds = ["oob_center", "oob_whole", "trim", "points", "mask"]
    for ci in range(n_cases):
        kind = kinds[ci % len(kinds)]
        nt = int(rng.integers(1, 5))
        dims = [[int(x) for x in rng.integers(8, 40, 3)] for _ in range(nt)]
        n = int(rng.integers(1, 60)) if ci % 9 else 120
        rows = _rows(rng, n, dims)
        case = {"kind": kind, "rows": rows, "dims": dims}
        # row labels: a table that went through remove_feature / adapt_to_trimming keeps its old labels
        case["index"] = ["default", "gapped", "shuffled", "default"][(ci // len(kinds)) % 4]
        if case["index"] == "gapped":
            case["labels"] = [int(x) for x in np.cumsum(rng.integers(1, 4, n))]
        elif case["index"] == "shuffled":
            case["labels"] = [int(x) for x in rng.permutation(n)]
        if kind == "oob_whole":
            case["box"] = int(rng.integers(1, 12))
        if kind == "trim":
            ts = [int(x) for x in rng.integers(-3, 12, 3)]
            case["ts"], case["te"] = ts, [int(ts[i] + rng.integers(0, 30)) for i in range(3)]
        if kind == "points":
            npts = int(rng.integers(1, 12))
            case["points"] = [[int(rng.integers(1, nt + 2))] + [float(x) for x in rng.uniform(-2, 40, 3)] for _ in range(npts)]
            if rows and rng.random() < 0.5:  # a reference point exactly on a particle
                r0 = rows[0]
                case["points"].append([int(r0["tomo_id"])] + [r0[a] + r0["shift_" + a] for a in "xyz"])
            case["radius"] = float(rng.choice([0.5, 1.0, 3.0, rng.uniform(0.1, 10)]))
        if kind == "mask":
            shared = bool(rng.random() < 0.3)
            case["shared"] = shared
            listed = sorted(set(int(x) for x in rng.integers(1, nt + 1, size=rng.integers(1, nt + 1))))
            case["listed"] = listed
            mk = lambda d: (np.random.default_rng(int(rng.integers(1 << 30))).random(d) > 0.5).astype(np.float32)
            case["masks"] = [mk(dims[0] if shared else dims[t - 1]).tolist() for t in ([listed[0]] if shared else listed)]
        yield (ci, kind, n), case


def classify(case, detail):
    if isinstance(detail, dict) and detail.get("class"):
        return detail["class"]
    return None


def run_case(case):
    kind = case["kind"]
    m = motl_from_rows(case["rows"])
    if case.get("labels") is not None:
        m.df.index = pd.Index(case["labels"])
    before = m.df.copy()
    dims = np.array(case["dims"], dtype=float)
    pos = _pos(before)
    ids = before["subtomo_id"].values
    if kind.startswith("oob"):
        d = pd.DataFrame({"tomo_id": np.arange(1, len(dims) + 1, dtype=float), "x": dims[:, 0], "y": dims[:, 1], "z": dims[:, 2]})
        b = 0 if kind == "oob_center" else ceil(case["box"] / 2)
        _, e = call(m.remove_out_of_bounds_particles, d, boundary_type=("center" if kind == "oob_center" else "whole"), box_size=case.get("box"))
        if e is not None:
            return {"raised": f"{type(e).__name__}: {e}"}
        exp = [bool(_inside(pos[i], dims[int(before["tomo_id"].iloc[i]) - 1], b)) for i in range(len(before))]
    elif kind == "trim":
        _, e = call(m.adapt_to_trimming, np.array(case["ts"]), np.array(case["te"]))
        if e is not None:
            return {"raised": f"{type(e).__name__}: {e}"}
        x = before[["x", "y", "z"]].values
        exp = [bool(np.all(x[i] >= case["ts"]) and np.all(x[i] <= case["te"])) for i in range(len(before))]
    elif kind == "points":
        pts = pd.DataFrame(case["points"], columns=["tomo_id", "x", "y", "z"])
        _, e = call(m.clean_by_distance_to_points, pts, case["radius"])
        if e is not None:
            return {"raised": f"{type(e).__name__}: {e}"}
        exp = []
        for i in range(len(before)):
            same = pts[pts["tomo_id"] == before["tomo_id"].iloc[i]][["x", "y", "z"]].values
            dmin = np.min(np.linalg.norm(same - pos[i], axis=1)) if len(same) else np.inf
            if abs(dmin - case["radius"]) < 1e-9:
                exp.append(None)  # exact tie: either convention
            else:
                exp.append(bool(dmin > case["radius"]))
    else:
        masks = [np.array(x, dtype=np.float32) for x in case["masks"]]
        arg_masks = masks[0] if case["shared"] else masks
        _, e = call(m.clean_by_tomo_mask, [float(t) for t in case["listed"]], arg_masks)
        if e is not None:
            return {"raised": f"{type(e).__name__}: {e}"}
        exp = []
        for i in range(len(before)):
            t = int(before["tomo_id"].iloc[i])
            if t not in case["listed"]:
                exp.append(True); continue
            mk = masks[0] if case["shared"] else masks[case["listed"].index(t)]
            v = pos[i].astype(int)
            inside = bool(np.all(v >= 0) and np.all(v < mk.shape))
            exp.append(True if not inside else bool(mk[v[0], v[1], v[2]] > 0.5))
    kept_ids = list(m.df["subtomo_id"].values)
    if len(set(kept_ids)) != len(kept_ids):
        return {"what": "a particle appears twice after the filter"}
    for i in range(len(before)):
        k = ids[i] in set(kept_ids)
        if exp[i] is None or k == exp[i]:
            continue
        det = {"what": f"{kind}: particle kept={k}, expected kept={exp[i]}", "row": before.iloc[i].to_dict(), "pos": pos[i].tolist()}
        if kind.startswith("oob"):
            dd = dims[int(before["tomo_id"].iloc[i]) - 1]
            det["dims"] = dd.tolist()
            # class of the known finding: kept although the lower bound is violated (and the upper bound is fine)
            if k and np.any(pos[i] - b < 0) and np.all(pos[i] + b < dd):
                det["class"] = "C09-lower-bound-not-checked"
        return det
    # survivors unaltered (apart from the documented offset), original relative order within a tomogram
    out = m.df.set_index("subtomo_id")
    ref = before.set_index("subtomo_id").loc[out.index]
    cols = [c for c in MOTL_COLS if c != "subtomo_id" and not (kind == "trim" and c in "xyz")]
    if not np.array_equal(out[cols].values, ref[cols].values):
        return {"what": f"{kind}: a surviving particle was altered"}
    if kind == "trim" and len(out) and not np.allclose(out[["x", "y", "z"]].values, ref[["x", "y", "z"]].values - (np.array(case["ts"]) - 1)):
        return {"what": "trim: wrong coordinate offset"}
    if list(m.df.columns) != MOTL_COLS:
        return {"what": "columns changed"}
    return None


def replay_kind(kind, n=60):
    """search generated cases of one filter kind for a native failure"""
    k = 0
    for key, case in gen_cases(3, 400):
        if case["kind"] != kind:
            continue
        k += 1
        r = run_case(case)
        if r is not None and classify(case, r) is None:
            return {"reproduced": True, "input": {"kind": kind, "case": key}, "observed": r}
        if k >= n:
            break
    return {"reproduced": False, "input": f"{k} generated '{kind}' cases", "observed": None}
