"""C19 bounded stand-in: trace_chains of the real code checked against the property verbatim"""
import numpy as np
import pandas as pd
from .util import *


def gen_cases(seed, n_cases, maxn=25):
    rng = np.random.default_rng(seed + 1919)
    for ci in range(n_cases):
        n = int(rng.integers(2, maxn + 1))
        yield (ci, n, ci % 3), {"n": n, "nt": int(rng.integers(1, 4)), "spread": float(rng.choice([3.0, 6.0, 15.0])), "disp": float(rng.choice([1.0, 2.5, 4.0])),
                                "dmax": float(rng.choice([2.0, 4.0, 6.0])), "dmin": float(rng.choice([0.0, 0.0, 0.5, 1.5])), "seed": int(rng.integers(1 << 30))}


KINDS = ["tailcut", "twosided", "twosided_headcut", "mixed", "cut_after_merge", "same_chain", "single_same"]


def gen_scenario_cases(seed, n_cases):
    """role-based arrangements that drive trace_chains into its rare branches (a chain head stolen by a closer exit site, a loose chain
    end that gets a new tail, a tail cut off by a closer entry site, a chain connecting on both sides at once), with random distances,
    directions, clutter, index order and 1..3 tomograms.  Line coverage of ribana.add_chain_suffix / add_chain_prefix / trace_chains under
    this family is recorded by tools (see DESIGN.md): plain random clusters reach the tail-cut branch in < 1% of the cases."""
    rng = np.random.default_rng(seed + 1921)
    for ci in range(n_cases):
        yield (ci, "scenario", ci % len(KINDS)), {"scenario": KINDS[ci % len(KINDS)], "nt": int(rng.choice([1, 1, 2, 3])), "dmax": float(rng.choice([4.0, 10.0])),
                                         "dmin": float(rng.choice([0.0, 0.0, 0.8])), "ordered": bool(rng.random() < 0.75), "clutter": int(rng.integers(0, 4)), "seed": int(rng.integers(1 << 30))}


def _unit(rng, around=None, max_angle=180.0):
    for _ in range(1000):
        d = rng.normal(size=3); d = d / np.linalg.norm(d)
        if around is None or np.dot(d, around) >= np.cos(np.deg2rad(max_angle)):
            return d
    return around


def _scenario(rng, kind, dmax, dmin, origin):
    """returns (sites, order constraints): sites[name] = (entry, exit); constraints = list of (earlier, later)"""
    far_n = [0]

    def far():
        far_n[0] += 1
        return origin + _unit(rng) * dmax * 60.0 * (1 + far_n[0])
    lo = dmin + 0.05 * dmax
    a = rng.uniform(lo + 0.1 * dmax, lo + 0.3 * dmax)       # P.exit -> B.entry (forward link)
    a2 = rng.uniform(lo, a - 0.03 * dmax)                    # C.exit -> B.entry (closer: steals the head)
    h = rng.uniform(0.62 * dmax, 0.78 * dmax)                # P.exit -> E.entry / F.entry
    g = rng.uniform(h + 0.05 * dmax, dmax)                   # P.exit -> D.entry
    O = origin.copy()
    u1 = _unit(rng)
    s, cons = {}, []
    s["P"] = (far(), O)
    s["B"] = (O + a * u1, far())
    s["C"] = (far(), s["B"][0] + a2 * u1)
    cons += [("P", "B"), ("P", "C")]
    if kind in ("same_chain", "single_same"):
        # the loose end P has a predecessor A (chain A-P); a new chain (F-L, or the single particle F) could attach behind P and, at the
        # same time, in front of a member of the SAME chain (A, or P itself)
        HA = far()
        s["A"] = (far(), HA)
        w = rng.uniform(lo, dmax)
        s["P"] = (HA + w * _unit(rng), O)
        cons += [("A", "P"), ("A", "C")]
        y = rng.uniform(lo, dmax)
        if kind == "same_chain":
            V = far()
            s["F"] = (O + g * _unit(rng, -u1, 35.0), V)
            s["L"] = (V + rng.uniform(lo, dmax) * _unit(rng), s["A"][0] + y * _unit(rng))
            cons += [("C", "F"), ("F", "L"), ("L", "X")]
        else:
            s["F"] = (O + g * _unit(rng, -u1, 35.0), s["P"][0] + min(y, 0.95 * w if rng.random() < 0.5 else y) * _unit(rng))
            cons += [("C", "F"), ("F", "X")]
        s["X"] = (far(), far())
    if kind == "cut_after_merge":
        # a chain F-L attaches behind the loose end P and in front of an older chain (Z-)Q in one step; later E, closer to P's exit site, cuts
        # that merged tail off again: the tail's members were appended to the table at different times
        W, V = far(), far()
        v1, w1 = _unit(rng), _unit(rng)
        z = rng.uniform(lo + 0.3 * dmax, 0.9 * dmax)
        s["Q"] = (W + z * v1, far())
        if rng.random() < 0.5:
            s["Z"] = (far(), W); cons += [("Z", "Q"), ("Z", "F")]
        s["F"] = (O + g * _unit(rng, -u1, 35.0), V)
        s["L"] = (V + rng.uniform(lo, dmax) * w1, s["Q"][0] + rng.uniform(lo, max(lo + 0.01, z - 0.05 * dmax)) * v1)
        s["E"] = (O + h * _unit(rng, -u1, 35.0), far())
        s["X"] = (far(), far())
        cons += [("C", "F"), ("Q", "F"), ("F", "L"), ("F", "E"), ("L", "E"), ("E", "X")]
    if kind in ("tailcut", "mixed"):
        s["D"] = (O + g * _unit(rng, -u1, 35.0), far())
        s["E"] = (O + h * _unit(rng, -u1, 35.0), far())
        cons += [("C", "D"), ("D", "E")]
    if kind in ("twosided", "twosided_headcut", "mixed"):
        W = far(); V = far()
        v1, w1 = _unit(rng), _unit(rng)
        z = rng.uniform(lo + 0.3 * dmax, 0.9 * dmax)
        s["Q"] = (W + z * v1, far())
        if kind != "twosided":
            s["Z"] = (far(), W)                               # Z -> Q forward link of length z; L's exit is closer to Q's entry
            cons += [("Z", "Q"), ("Z", "F")]
        hf = rng.uniform(0.62 * dmax, 0.78 * dmax) if kind != "mixed" else rng.uniform(lo, 0.6 * dmax)
        s["F"] = (O + hf * _unit(rng, -u1, 35.0), V)
        s["L"] = (V + rng.uniform(lo, dmax) * w1, s["Q"][0] + rng.uniform(lo, max(lo + 0.01, z - 0.05 * dmax)) * v1)
        s["X"] = (far(), far())
        cons += [("C", "F"), ("Q", "F"), ("F", "L"), ("F", "X"), ("L", "X")]
        if kind == "mixed":
            cons += [("E", "F")]
    return s, cons


def _scenario_lists(c, rng):
    ent, ex = [], []
    sid = 0
    for t in range(c["nt"]):
        kind = c["scenario"] if t == 0 else KINDS[int(rng.integers(0, len(KINDS)))]
        s, cons = _scenario(rng, kind, c["dmax"], c["dmin"], rng.uniform(200, 400, 3))
        for k in range(c["clutter"]):
            s[f"K{k}"] = (rng.uniform(200, 400, 3) + 30 * c["dmax"] * (k + 1), rng.uniform(200, 400, 3) - 35 * c["dmax"] * (k + 1))
        names = list(s)
        for _ in range(200):  # a random index order; in most cases one that respects the role order
            order = [names[i] for i in rng.permutation(len(names))]
            pos = {n: i for i, n in enumerate(order)}
            if not c["ordered"] or all(pos[a] < pos[b] for a, b in cons):
                break
        else:
            order = sorted(names, key=lambda n: sum(1 for a, b in cons if b == n) * 10 + len(n))
            for _ in range(len(names) ** 2):  # bubble into a linear extension
                pos = {n: i for i, n in enumerate(order)}
                bad = [(a, b) for a, b in cons if pos[a] > pos[b]]
                if not bad:
                    break
                a, b = bad[0]
                order.remove(a); order.insert(order.index(b), a)
        for n in order:
            sid += 1
            base = {col: 0.0 for col in MOTL_COLS}
            e = dict(base, subtomo_id=float(sid), tomo_id=float(t + 1), phi=float(rng.uniform(-180, 180)), theta=float(rng.uniform(0, 180)), psi=float(rng.uniform(-180, 180)), score=float(rng.random()))
            x = dict(e)
            for k, a in enumerate("xyz"):
                e[a], e["shift_" + a] = float(np.floor(s[n][0][k])), float(s[n][0][k] - np.floor(s[n][0][k]))
                x[a], x["shift_" + a] = float(np.floor(s[n][1][k])), float(s[n][1][k] - np.floor(s[n][1][k]))
            ent.append(e); ex.append(x)
    return ent, ex


def _lists(c):
    rng = np.random.default_rng(c["seed"])
    if c.get("scenario"):
        return _scenario_lists(c, rng)
    rows = random_motl_rows(rng, c["n"], n_tomos=c["nt"], half_ties=False, big_angles=False)
    ent, ex = [], []
    for i, r in enumerate(rows):
        r["subtomo_id"] = float(i + 1); r["object_id"] = 0.0; r["geom2"] = 0.0; r["geom4"] = 0.0
        p = rng.uniform(0, c["spread"], 3) + 10
        d = rng.normal(size=3); d = d / np.linalg.norm(d) * c["disp"] * rng.uniform(0.5, 1.2)
        e, x = dict(r), dict(r)
        for k, a in enumerate("xyz"):
            e[a], e["shift_" + a] = float(np.floor(p[k])), float(p[k] - np.floor(p[k]))
            q = p[k] + d[k]
            x[a], x["shift_" + a] = float(np.floor(q)), float(q - np.floor(q))
        ent.append(e); ex.append(x)
    return ent, ex


def check_traced(out, ent, ex, dmax, dmin):
    pe = {r["subtomo_id"]: np.array([r[a] + r["shift_" + a] for a in "xyz"]) for r in ent}
    px = {r["subtomo_id"]: np.array([r[a] + r["shift_" + a] for a in "xyz"]) for r in ex}
    tomo = {r["subtomo_id"]: r["tomo_id"] for r in ent}
    ids = list(out["subtomo_id"].values)
    if sorted(ids) != sorted(pe):
        return {"what": "not every particle exactly once", "got": len(ids), "expected": len(pe), "duplicates": len(ids) - len(set(ids))}
    for (t, obj), g in out.groupby(["tomo_id", "object_id"]):
        g = g.sort_values("geom2")
        orders = list(g["geom2"].values)
        if orders != [float(i) for i in range(1, len(g) + 1)]:
            return {"what": "chain does not carry consecutive order numbers 1..k", "tomo": t, "object": obj, "orders": orders[:12]}
        sid = list(g["subtomo_id"].values)
        if any(tomo[s] != t for s in sid):
            return {"what": "chain spans tomograms"}
        rec = list(g["geom4"].values)
        for a, b, r in zip(sid[:-1], sid[1:], rec[:-1]):
            d = float(np.linalg.norm(pe[b] - px[a]))
            if abs(d - dmax) < 1e-9 or abs(d - dmin) < 1e-9:
                continue
            if not (dmin < d <= dmax):
                return {"what": "consecutive members: exit->entry distance outside (min,max]", "distance": d, "min": dmin, "max": dmax, "tomo": t, "object": obj}
            if abs(d - r) > 1e-6:
                return {"what": "recorded distance of the former member differs from the exit->entry distance", "distance": d, "recorded": float(r)}
    return None


def _chains_ok(df, what):
    """the requires of add_chain_suffix / add_chain_prefix on the traced table: every chain carries exactly the orders 1..k, positive
    object numbers, unique subtomogram numbers"""
    if len(df) == 0:
        return None
    if df["subtomo_id"].duplicated().any():
        return f"{what}: subtomogram numbers not unique"
    if (df["object_id"].values < 1).any():
        return f"{what}: object number < 1"
    for cl, g in df.groupby("object_id"):
        if sorted(g["geom2"].values) != list(range(1, len(g) + 1)):
            return f"{what}: chain {cl} carries orders {sorted(g['geom2'].values)[:8]}"
    return None


class _CallSiteRequires:
    """run-time check of the callee contracts' REQUIRES at the two call sites in trace_chains (the callees are proved under these
    requires in contracts/c19.py; the caller's main loop is not under a deductive contract, so its side is checked on every real call)"""

    def __init__(self, mod):
        self.mod, self.fail = mod, None
        self.real = (mod.add_chain_suffix, mod.add_chain_prefix)

    def __enter__(self):
        real_s, real_p = self.real

        def suffix(chain_df, motl, traced_df, subtomo_id, current_dist, *a, **k):
            self._pre("add_chain_suffix", chain_df, traced_df, motl, subtomo_id, None)
            return real_s(chain_df, motl, traced_df, subtomo_id, current_dist, *a, **k)

        def prefix(chain_df, motl, traced_df, subtomo_id, current_dist, *a, class_max=None, **k):
            self._pre("add_chain_prefix", chain_df, traced_df, motl, subtomo_id, class_max)
            return real_p(chain_df, motl, traced_df, subtomo_id, current_dist, *a, class_max=class_max, **k)
        self.mod.add_chain_suffix, self.mod.add_chain_prefix = suffix, prefix
        return self

    def __exit__(self, *a):
        self.mod.add_chain_suffix, self.mod.add_chain_prefix = self.real

    def _pre(self, fn, chain_df, traced_df, motl, idx, class_max):
        if self.fail is not None:
            return
        r = _chains_ok(traced_df, f"requires of {fn} at its call site in trace_chains: traced table")
        if r is None:
            pid = motl.df.loc[motl.df.index[idx], "subtomo_id"]
            if (traced_df["subtomo_id"] == pid).sum() != 1:
                r = f"requires of {fn}: the particle is not a row of the traced table"
        ccls = set(chain_df["object_id"].values)
        orders = list(chain_df["geom2"].values)
        used = set(traced_df["object_id"].values)
        if r is None and len(ccls) != 1:
            r = f"requires of {fn}: the new chain carries several object numbers"
        if r is None and class_max is None:
            if ccls & used:
                r = f"requires of {fn}: the new chain's object number {sorted(ccls)} is already used in the traced table"
            elif orders != list(range(1, len(orders) + 1)):
                r = f"requires of {fn}: the new chain's orders are {orders[:8]}"
        if r is None and class_max is not None:
            cP = next(iter(ccls))
            base = int((traced_df["object_id"] == cP).sum())
            pid_cls = traced_df.loc[traced_df["subtomo_id"] == pid, "object_id"].values[0]
            if orders != list(range(base + 1, base + len(orders) + 1)) or class_max[0] != base + len(orders):
                r = f"requires of {fn} (two-sided form): the new chain's orders {orders[:8]} do not continue the chain it was attached to (length {base}), class_max={class_max}"
            elif class_max[1] in used or class_max[1] == cP or class_max[1] < 1:
                r = f"requires of {fn} (two-sided form): object number {class_max[1]} for a cut-off head is already used in the traced table"
            elif pid_cls == cP:
                r = f"requires of {fn} (two-sided form): both ends connect to the same chain"
        self.fail = r


def run_case(c):
    from cryocat import ribana
    ent, ex = _lists(c)
    me, mx = motl_from_rows(ent), motl_from_rows(ex)
    with _CallSiteRequires(ribana) as mon:
        out, e = call(ribana.trace_chains, me, mx, max_distance=c["dmax"], min_distance=c["dmin"])
    if e is not None:
        return {"raised": f"{type(e).__name__}: {e}"}
    if mon.fail is not None:
        return {"what": mon.fail}
    return check_traced(out.df, ent, ex, c["dmax"], c["dmin"])


def replay_zero_distance():
    """exit site of particle 1 coincides with the entry site of particle 2, min_distance = 0: the link has distance 0, outside (0, max]"""
    from cryocat import ribana
    base = {c: 0.0 for c in MOTL_COLS}
    ent = [dict(base, subtomo_id=1.0, tomo_id=1.0, x=10.0, y=10.0, z=10.0), dict(base, subtomo_id=2.0, tomo_id=1.0, x=13.0, y=10.0, z=10.0)]
    ex = [dict(base, subtomo_id=1.0, tomo_id=1.0, x=13.0, y=10.0, z=10.0), dict(base, subtomo_id=2.0, tomo_id=1.0, x=30.0, y=10.0, z=10.0)]
    out, e = call(ribana.trace_chains, motl_from_rows(ent), motl_from_rows(ex), max_distance=5.0, min_distance=0)
    if e is not None:
        return {"reproduced": True, "observed": f"raised {e}"}
    df = out.df
    linked = df.loc[df["subtomo_id"] == 1.0, "object_id"].values[0] == df.loc[df["subtomo_id"] == 2.0, "object_id"].values[0]
    return {"reproduced": bool(linked), "input": "exit(1) == entry(2), min_distance=0, max_distance=5", "observed": df[["subtomo_id", "object_id", "geom2", "geom4"]].values.tolist()}


def replay_scenarios(n=140):
    """search the role-based arrangements for a native failure of the property"""
    for key, c in gen_scenario_cases(5, n):
        r = run_case(c)
        if r is not None:
            return {"reproduced": True, "input": c, "observed": r}
    return {"reproduced": False, "input": f"{n} role-based arrangements", "observed": None}
