"""C19 bounded stand-in: trace_chains of the real code checked against the property verbatim"""
import numpy as np
import pandas as pd
from .util import *


def gen_cases(seed, n_cases, maxn=25):
    rng = np.random.default_rng(seed + 1919)
    for ci in range(n_cases):
        n = int(rng.integers(2, maxn + 1))
        yield (ci, n, ci % 3), {"n": n, "nt": int(rng.integers(1, 4)), "spread": float(rng.choice([3.0, 6.0, 15.0])), "disp": float(rng.choice([1.0, 2.5, 4.0])),
                                "dmax": float(rng.choice([2.0, 4.0, 6.0])), "dmin": float(rng.choice([0.0, 0.0, 0.5, 1.5])), "seed": int(rng.integers(1 << 30))}


def _lists(c):
    rng = np.random.default_rng(c["seed"])
    rows = random_motl_rows(rng, c["n"], n_tomos=c["nt"], half_ties=False, big_angles=False)
    ent, ex = [], []
    for i, r in enumerate(rows):
        r["subtomo_id"] = float(i + 1); r["object_id"] = 0.0; r["geom2"] = 0.0; r["geom4"] = 0.0
        p = rng.uniform(0, c["spread"], 3) + 10
        d = rng.normal(size=3); d = d / np.linalg.norm(d) * c["disp"] * rng.uniform(0.5, 1.2)
        e, x = dict(r), dict(r)
        for k, a in enumerate("xyz"):
            e[a], e["shift_" + a] = float(np.floor(p[k])), float(p[k] - np.floor(p[k]))
            q = p[k] + d[k]
            x[a], x["shift_" + a] = float(np.floor(q)), float(q - np.floor(q))
        ent.append(e); ex.append(x)
    return ent, ex


def check_traced(out, ent, ex, dmax, dmin):
    pe = {r["subtomo_id"]: np.array([r[a] + r["shift_" + a] for a in "xyz"]) for r in ent}
    px = {r["subtomo_id"]: np.array([r[a] + r["shift_" + a] for a in "xyz"]) for r in ex}
    tomo = {r["subtomo_id"]: r["tomo_id"] for r in ent}
    ids = list(out["subtomo_id"].values)
    if sorted(ids) != sorted(pe):
        return {"what": "not every particle exactly once", "got": len(ids), "expected": len(pe), "duplicates": len(ids) - len(set(ids))}
    for (t, obj), g in out.groupby(["tomo_id", "object_id"]):
        g = g.sort_values("geom2")
        orders = list(g["geom2"].values)
        if orders != [float(i) for i in range(1, len(g) + 1)]:
            return {"what": "chain does not carry consecutive order numbers 1..k", "tomo": t, "object": obj, "orders": orders[:12]}
        sid = list(g["subtomo_id"].values)
        if any(tomo[s] != t for s in sid):
            return {"what": "chain spans tomograms"}
        rec = list(g["geom4"].values)
        for a, b, r in zip(sid[:-1], sid[1:], rec[:-1]):
            d = float(np.linalg.norm(pe[b] - px[a]))
            if abs(d - dmax) < 1e-9 or abs(d - dmin) < 1e-9:
                continue
            if not (dmin < d <= dmax):
                return {"what": "consecutive members: exit->entry distance outside (min,max]", "distance": d, "min": dmin, "max": dmax, "tomo": t, "object": obj}
            if abs(d - r) > 1e-6:
                return {"what": "recorded distance of the former member differs from the exit->entry distance", "distance": d, "recorded": float(r)}
    return None


def run_case(c):
    from cryocat import ribana
    ent, ex = _lists(c)
    me, mx = motl_from_rows(ent), motl_from_rows(ex)
    out, e = call(ribana.trace_chains, me, mx, max_distance=c["dmax"], min_distance=c["dmin"])
    if e is not None:
        return {"raised": f"{type(e).__name__}: {e}"}
    return check_traced(out.df, ent, ex, c["dmax"], c["dmin"])


def replay_zero_distance():
    """exit site of particle 1 coincides with the entry site of particle 2, min_distance = 0: the link has distance 0, outside (0, max]"""
    from cryocat import ribana
    base = {c: 0.0 for c in MOTL_COLS}
    ent = [dict(base, subtomo_id=1.0, tomo_id=1.0, x=10.0, y=10.0, z=10.0), dict(base, subtomo_id=2.0, tomo_id=1.0, x=13.0, y=10.0, z=10.0)]
    ex = [dict(base, subtomo_id=1.0, tomo_id=1.0, x=13.0, y=10.0, z=10.0), dict(base, subtomo_id=2.0, tomo_id=1.0, x=30.0, y=10.0, z=10.0)]
    out, e = call(ribana.trace_chains, motl_from_rows(ent), motl_from_rows(ex), max_distance=5.0, min_distance=0)
    if e is not None:
        return {"reproduced": True, "observed": f"raised {e}"}
    df = out.df
    linked = df.loc[df["subtomo_id"] == 1.0, "object_id"].values[0] == df.loc[df["subtomo_id"] == 2.0, "object_id"].values[0]
    return {"reproduced": bool(linked), "input": "exit(1) == entry(2), min_distance=0, max_distance=5", "observed": df[["subtomo_id", "object_id", "geom2", "geom4"]].values.tolist()}
