"""C02 bounded stand-in: STAR writer/reader of the real code vs an independent tokenizer and exhaustive short lines"""
import itertools, os
import numpy as np
import pandas as pd
from .util import *


def independent_blocks(text):
    """independent reading of a STAR text: comment = from '#' to end of line; tokens = whitespace-separated; a block starts at a
    token 'data_...'; 'loop_'; labels start with '_'; remaining lines are rows"""
    blocks, cur = [], None
    for raw in text.split("\n"):
        line = raw.split("#", 1)[0]
        tok = line.split()
        if not tok:
            continue
        if cur is None or (tok[0].startswith("data_") and len(tok) == 1 and (cur["rows"] or cur["cols"])) or (tok[0].startswith("data_") and len(tok) == 1 and not cur["loop"]):
            if tok[0].startswith("data_") and len(tok) == 1:
                cur = {"name": tok[0], "cols": [], "rows": [], "loop": False}
                blocks.append(cur)
                continue
        if tok == ["loop_"]:
            cur["loop"] = True
        elif tok[0].startswith("_") and not cur["rows"]:
            cur["cols"].append(tok[0][1:])
        else:
            cur["rows"].append(tok)
    return blocks


def independent_tokens(line):
    """tokens of one line: (kind, text)"""
    body, sep, com = line.partition("#")
    out = []
    for t in body.split():
        out.append(("PROPERTY" if t.startswith("_") else "LOOP" if t == "loop_" else "LITERAL", t))
    if sep:
        out.append(("COMMENT", com.strip()))
    out.append(("NEWLINE", None))
    return out


def _is_num(s):
    try:
        float(s); return True
    except ValueError:
        return False


TOKCHARS = [ch for ch in (chr(i) for i in range(33, 127)) if ch != "#"]


def text_column(rng, nr, tag):
    """a text column inside the property's quantifier: tokens free of whitespace and '#', not starting with '_', and the column
    not purely numeric -- but single tokens may look numeric, may contain quotes, commas, semicolons, backslashes, '=' ..."""
    mode = int(rng.integers(0, 5))
    out = []
    for i in range(nr):
        if mode == 0:
            t = f"img/t{int(rng.integers(0, 999)):03d}_{tag}.mrc"
        elif mode == 1:  # arbitrary printable tokens of 1..24 characters
            t = "".join(rng.choice(TOKCHARS, size=int(rng.integers(1, 25))))
        elif mode == 2:  # numeric-looking tokens mixed with text
            t = str(rng.choice(["17", "018", "2.50", "-3", "1e5", "TS_018", "none", "nan_x", "0x1F", "+7"]))
        elif mode == 3:  # quotes and separators inside tokens
            t = str(rng.choice(['TS_01"bin4".mrc', 'a"b', "it's", '"q"', "a,b", "x;y", "p\\q", 'say""twice', "'", '"'])) + str(int(rng.integers(0, 9)))
        else:
            t = str(rng.choice(["A", "B", "True", "False", "None", "NA", "null", "<NA>", "-", "1/2", "e", "inf_", "dat_x", "loopx"]))
        if t.startswith("_") or t.lower().startswith(("data_", "loop_", "save_", "global_", "stop_")):
            t = "u" + t  # STAR reserved words cannot be data values
        out.append(t)
    if nr and all(_is_num(t) for t in out):
        out[int(rng.integers(0, nr))] = "txt" + tag
    return out


def gen_cases(seed, n_cases):
    rng = np.random.default_rng(seed + 202)
    for ci in range(n_cases):
        kind = ["roundtrip", "text", "roundtrip", "tokens"][ci % 4]
        yield (ci, kind), {"kind": kind, "seed": int(rng.integers(1 << 30)), "ci": ci}


def _random_tables(rng):
    nt = int(rng.integers(1, 5))
    fam = int(rng.integers(0, 3))
    names = [["data_"], ["data_optics", "data_particles"], ["data_stopgap_motivelist", "data_stopgap_wedgelist"]][fam]
    specs = [names[i % len(names)] if nt <= len(names) else (names + ["data_", "data_particles"])[i % (len(names) + 2)] for i in range(nt)]
    frames = []
    for t in range(nt):
        nr = int(rng.integers(1, 201)) if (t < nt - 1 or rng.random() < 0.8) else 0
        nc = int(rng.integers(1, 31))
        d = {}
        for c in range(nc):
            kind = rng.choice(["int", "float", "text"])
            name = f"rln{'ABCDEFGH'[c % 8]}col{c}"
            if kind == "int":
                d[name] = rng.integers(-1000, 1000, nr)
            elif kind == "float":
                d[name] = np.round(rng.normal(0, 10.0 ** int(rng.integers(-3, 4)), nr), int(rng.integers(0, 9)))
            else:
                d[name] = np.array(text_column(rng, nr, str(c)), dtype=object)
        frames.append(pd.DataFrame(d))
    return frames, specs


def _check_roundtrip(c, rng, tmp):
    from cryocat.starfileio import Starfile
    frames, specs = _random_tables(rng)
    orig = [f.copy() for f in frames]
    numbered = bool(rng.random() < 0.5)
    p = os.path.join(tmp, "t.star")
    _, e = call(Starfile.write, [f.copy() for f in frames], p, specifiers=list(specs), number_columns=numbered)
    if e is not None:
        return {"raised": f"write {type(e).__name__}: {e}"}
    text = open(p).read()
    bl = independent_blocks(text)
    if [b["name"] for b in bl] != specs:
        return {"what": "block names / order in the written file", "got": [b["name"] for b in bl], "expected": specs}
    for b, f, s in zip(bl, orig, specs):
        if b["cols"] != list(f.columns):
            return {"what": "column labels in the written file", "block": s}
        if len(b["rows"]) != len(f) or any(len(r) != len(f.columns) for r in b["rows"]):
            return {"what": "rows in the written file", "block": s, "got": len(b["rows"]), "expected": len(f)}
        stopgap = "stopgap" in s
        has_num = any(("_" + col + " #") in text for col in f.columns)
        if has_num != (numbered and not stopgap) and len(f.columns) and not all("stopgap" in x for x in specs) and len(specs) == 1:
            return {"what": "numbered (RELION) vs un-numbered (STOPGAP) column headers", "block": s}
    got, e = call(Starfile.read, p)
    if e is not None:
        return {"raised": f"read {type(e).__name__}: {e}"}
    fr, sp, _ = got
    if list(sp) != specs or len(fr) != len(orig):
        return {"what": "block names read back", "got": list(sp)}
    for g, f, s in zip(fr, orig, specs):
        if list(g.columns) != list(f.columns) or len(g) != len(f):
            return {"what": "columns / row count read back", "block": s, "got": [list(g.columns)[:4], len(g)], "expected": [list(f.columns)[:4], len(f)]}
        for col in f.columns:
            a, b = f[col].values, g[col].values
            if len(a) == 0:
                continue
            if not pd.api.types.is_numeric_dtype(f[col]):
                if [str(x) for x in b] != [str(x) for x in a]:
                    return {"what": "text value changed", "column": col}
            else:
                if not pd.api.types.is_numeric_dtype(g[col]):
                    return {"what": "numeric column read back as text", "column": col, "got": [repr(x) for x in b[:3]]}
                if not np.allclose(np.asarray(b, float), np.round(np.asarray(a, float), 6), atol=1e-9, rtol=0):
                    return {"what": "numeric value differs after rounding to 6 decimals", "column": col, "got": b[:3].tolist(), "expected": np.round(a, 6)[:3].tolist()}
    return None


def _check_text(c, rng, tmp):
    """hand-built STAR text with comments / blank lines in the permitted places, tabs, runs of spaces, CRLF, no final newline"""
    from cryocat.starfileio import Starfile
    nl = "\r\n" if rng.random() < 0.3 else "\n"
    ws = lambda: str(rng.choice([" ", "  ", "\t", " \t ", "    "]))
    nb = int(rng.integers(1, 4))
    lines, expect = [], []
    for b in range(nb):
        for _ in range(int(rng.integers(0, 3))):
            lines.append(rng.choice(["", "# a comment", "   ", "#", "# data_fake loop_"]))
        name = ["data_", "data_particles", "data_optics", "data_stopgap_x"][int(rng.integers(0, 4))]
        lines.append(name + (ws() if rng.random() < 0.3 else ""))
        for _ in range(int(rng.integers(0, 2))):
            lines.append("")
        lines.append("loop_")
        nc = int(rng.integers(1, 7))
        cols, kinds = [], []
        for j in range(nc):
            col = f"rlnCol{b}{j}"
            cols.append(col); kinds.append(rng.choice(["int", "float", "text"]))
            lines.append(f"_{col}" + (f" #{j + 1}" if rng.random() < 0.6 else "") + (ws() if rng.random() < 0.2 else ""))
        for _ in range(int(rng.integers(0, 2))):
            lines.append(rng.choice(["", "# comment after labels"]))
        nr = int(rng.integers(1, 8))
        tcols = {j: text_column(rng, nr, str(j)) for j, kd in enumerate(kinds) if kd == "text"}
        rows = []
        for r in range(nr):
            cells = []
            for j, kd in enumerate(kinds):
                cells.append(str(int(rng.integers(-50, 50))) if kd == "int" else ((f"{rng.normal():.5f}" if rng.random() < 0.8 else str(rng.choice(["5e-05", "-3.2E-06", "1.5e+16", "2E5", ".5", "-.25e-3"]))) if kd == "float" else tcols[j][r]))
            rows.append(cells)
            lines.append((ws() if rng.random() < 0.3 else "") + ws().join(cells) + (ws() if rng.random() < 0.3 else ""))
        lines.append("")
        expect.append((name, cols, rows, kinds))
    text = nl.join(lines) + (nl if rng.random() < 0.7 else "")
    p = os.path.join(tmp, "h.star")
    with open(p, "w", newline="") as f:
        f.write(text)
    bl = independent_blocks(text)
    if [(b["name"], b["cols"], b["rows"]) for b in bl] != [(n, cl, r) for n, cl, r, _ in expect]:
        return None  # the independent reader itself disagrees with the intended structure: not a usable case
    got, e = call(Starfile.read, p)
    if e is not None:
        return {"raised": f"read {type(e).__name__}: {e}", "text": text[:400]}
    fr, sp, _ = got
    if list(sp) != [x[0] for x in expect]:
        return {"what": "blocks found", "got": list(sp), "expected": [x[0] for x in expect]}
    for g, (name, cols, rows, kinds) in zip(fr, expect):
        if list(g.columns) != cols or len(g) != len(rows):
            return {"what": "labels / row count", "block": name, "got": [list(g.columns), len(g)], "expected": [cols, len(rows)]}
        for j, (col, kd) in enumerate(zip(cols, kinds)):
            toks = [r[j] for r in rows]
            if all(_is_num(t) for t in toks):
                if not np.allclose(np.asarray(g[col].values, float), [float(t) for t in toks]):
                    return {"what": "numeric column not read as numbers", "column": col}
                if not pd.api.types.is_numeric_dtype(g[col]):
                    return {"what": "numeric column kept as text", "column": col}
            elif [str(v) for v in g[col].values] != toks:
                return {"what": "text column changed", "column": col}
    return None


ALPHA = [" ", "\t", "#", "_", "a", "1", ".", "-", "\r"]


def _check_tokens(c, rng):
    """tokenizer vs the independent one on ALL lines up to length 4 over the class alphabet and a random sample of longer ones"""
    from cryocat.starfileio import Token, TokenType
    L = 4 if c["ci"] % 8 == 3 else 3
    pool = ["".join(p) for n in range(L + 1) for p in itertools.product(ALPHA, repeat=n)]
    extra = ["".join(rng.choice(ALPHA + ["loop_", "data_x", "_rlnA", "1.5e-3"], size=int(rng.integers(5, 9)))) for _ in range(300)]
    for line in pool + extra + ["loop_", " loop_ ", "loop_#c", "_a #1", "data_", "data_x\t# c"]:
        try:
            toks = Token.tokenize(line)[::-1]
        except Exception as e:
            return {"what": "tokenizer raised on a line made of spaces, tabs, '#', '_', letters, digits, '.', '-', CR", "line": repr(line), "raised": f"{type(e).__name__}: {e}"}
        got = [(t.token_type.name, t.value) for t in toks]
        exp = independent_tokens(line)
        if got != exp:
            return {"what": "tokens differ from the independent tokenizer", "line": repr(line), "got": got, "expected": exp}
    return None


def run_case(c):
    rng = np.random.default_rng(c["seed"])
    with scratch() as tmp:
        if c["kind"] == "roundtrip":
            return _check_roundtrip(c, rng, tmp)
        if c["kind"] == "text":
            return _check_text(c, rng, tmp)
        return _check_tokens(c, rng)
