"""helpers for replay and bounded stand-ins: run the REAL cryocat code (imported from /repo) on concrete inputs"""
import os, sys, warnings, tempfile, contextlib, io
from fractions import Fraction
import numpy as np
import pandas as pd

warnings.filterwarnings("ignore")
MOTL_COLS = ["score", "geom1", "geom2", "subtomo_id", "tomo_id", "object_id", "subtomo_mean", "x", "y", "z",
             "shift_x", "shift_y", "shift_z", "geom3", "geom4", "geom5", "phi", "psi", "theta", "class"]


def fval(v, default=0.0):
    if v is None:
        return default
    if isinstance(v, (int, float)):
        return float(v)
    try:
        return float(Fraction(str(v)))
    except Exception:
        try:
            return float(str(v).rstrip("?"))
        except Exception:
            return default


def row_from_model(model, prefix="", defaults=None):
    d = {}
    for c in MOTL_COLS:
        d[c] = fval(model.get(prefix + c), (defaults or {}).get(c, 0.0))
    return d


def motl_from_rows(rows, cols=None):
    from cryocat import cryomotl
    df = pd.DataFrame(rows, columns=cols or MOTL_COLS).astype(float)
    return cryomotl.Motl(df)


@contextlib.contextmanager
def quiet():
    with contextlib.redirect_stdout(io.StringIO()):
        with warnings.catch_warnings():
            warnings.simplefilter("ignore")
            yield


@contextlib.contextmanager
def scratch():
    """temporary working directory (some cryocat functions write files into the cwd)"""
    old = os.getcwd()
    with tempfile.TemporaryDirectory(prefix="verif_") as d:
        os.chdir(d)
        try:
            yield d
        finally:
            os.chdir(old)


def call(fn, *a, **k):
    """run real code; returns (result, None) or (None, exception)"""
    try:
        with quiet():
            return fn(*a, **k), None
    except Exception as e:  # the real code raised
        return None, e


def R_zxz(phi, theta, psi):
    """orientation matrix of zxz Euler angles in degrees, written out by hand: Rz(psi) Rx(theta) Rz(phi)"""
    f, t, p = np.deg2rad([phi, theta, psi])
    Rz = lambda a: np.array([[np.cos(a), -np.sin(a), 0], [np.sin(a), np.cos(a), 0], [0, 0, 1]])
    Rx = lambda a: np.array([[1, 0, 0], [0, np.cos(a), -np.sin(a)], [0, np.sin(a), np.cos(a)]])
    return Rz(p) @ Rx(t) @ Rz(f)


def rows_R(df):
    return np.stack([R_zxz(r.phi, r.theta, r.psi) for r in df.itertuples()]) if len(df) else np.zeros((0, 3, 3))


def random_motl_rows(rng, n, n_tomos=3, half_ties=True, big_angles=True):
    rows = []
    for i in range(n):
        r = {c: 0.0 for c in MOTL_COLS}
        r["score"] = float(rng.random())
        r["subtomo_id"] = float(i + 1)
        r["tomo_id"] = float(rng.integers(1, n_tomos + 1))
        r["object_id"] = float(rng.integers(1, 4))
        for a in "xyz":
            r[a] = float(rng.integers(-50, 200))
            k = rng.integers(0, 4)
            r["shift_" + a] = [0.0, float(rng.uniform(-3, 3)), 0.5 * float(rng.integers(-5, 6)), float(rng.uniform(-0.5, 0.5))][k] if half_ties else float(rng.uniform(-3, 3))
        lim = 720 if big_angles else 180
        r["phi"], r["psi"] = float(rng.uniform(-lim, lim)), float(rng.uniform(-lim, lim))
        r["theta"] = float(rng.choice([0.0, 180.0, rng.uniform(-lim, lim), rng.uniform(0, 180)]))
        r["class"] = float(rng.integers(1, 5))
        r["geom1"], r["geom2"], r["geom3"] = float(rng.integers(0, 9)), float(rng.integers(0, 9)), float(rng.integers(0, 9))
        rows.append(r)
    return rows
