"""C07 -- score-ranked distance suppression."""
import z3
from vfw.engine import Contract
from . import common

CONTRACTS = []
LEVEL = "exploration"
EXPLANATION = ("bounded run-time contract: separation, domination by an at-least-as-good remaining particle of the same group, group isolation and row preservation for Motl.clean_by_distance; "
               "threshold, separation, domination, score / 1-based position / angle lookup for tmana.scores_extract_particles on plateau-free maps")
ASSUMPTIONS = ["exact-distance ties are excluded by tolerance 1e-9 as in the property's quantifier"]


def run(ck):
    for C in CONTRACTS:
        ck.run_contract(C())
    from rtc import c07 as r
    n = 60 if ck.tier == "quick" else 1500
    ck.bounded_run("suppression", r.gen_cases(ck.seed, n, 24 if ck.tier == "quick" else 40), r.run_case, ref="rtc.c07:run_case",
                   rule="particle lists in clusters (1..400 particles, 1..4 groups, any grouping field, either score direction, d > 0); random plateau-free score maps up to N^3 with random angle maps, thresholds, "
                        "diameters, angle-list numbering 0/1 and zxz/zzx order, file and array angle lists. distinct = (case, kind)",
                   bound=f"{n} cases, maps <= {24 if ck.tier == 'quick' else 40}^3, <= 400 particles")
