"""C07 -- score-ranked distance suppression."""
import z3
from vfw import sym
from vfw.sym import SV, SB, ctx, to_z3, real
from vfw.engine import Contract
from vfw.models import frames, kernels, npm
from . import common
from .c18 import SubMotl, FeatureKeys

XYZ = ("x", "y", "z")
DIST = z3.Function("pair_dist", z3.IntSort(), z3.IntSort(), z3.RealSort())


class PosArr(frames.RowArr):
    """coordinates of the group's particles; pos[j, :] remembers the row position it was taken from"""

    def __getitem__(self, key):
        r = super().__getitem__(key)
        if isinstance(key, tuple) and len(key) == 2 and isinstance(key[0], (SV, int)) and type(r).__name__ == "OA":
            r.row_index = key[0]
            r.of = self
        return r


class Group(SubMotl):
    made = []

    def __init__(self, it, prefix, f, feature):
        super().__init__(it, prefix, f, feature)
        self.f, self.feature = f, feature
        Group.made.append(self)

    def get_coordinates(self):
        r = self.df.row
        self.pos = PosArr([r[a] + r["shift_" + a] for a in XYZ], self.space)
        return self.pos


class Accum(frames._Generic):
    """cleaned_df: the concatenation, over the groups, of the piece appended in the arbitrary iteration"""

    def __init__(self):
        self.pieces = []
        self.shape = (SV(ctx().fresh("n_cleaned", "Int")), 20)
        self.index_reset = False

    def reset_index(self, drop=False, inplace=False, **k):
        if not (drop and inplace):
            raise sym.Unsupported("reset_index form on the accumulated table")
        self.index_reset = True


class PDStub:
    def __init__(self, real_pd):
        self._pd = real_pd

    def DataFrame(self, *a, **k):
        if a or k:
            raise sym.Unsupported("pd.DataFrame(args) in clean_by_distance")
        return Accum()

    def concat(self, parts, ignore_index=False, **k):
        parts = list(parts)
        if len(parts) == 2 and isinstance(parts[0], Accum):
            parts[0].pieces.append((parts[1], ignore_index))
            return parts[0]
        raise sym.Unsupported("pd.concat form in clean_by_distance")

    def __getattr__(self, k):
        return getattr(self._pd, k)


class GeomStub:
    """assumed contract of geom.point_pairwise_dist(P[j], P) (its own contract PointPairwiseDist below): element i is the
    Euclidean distance between rows j and i; as a function of (j, i) it is symmetric and non-negative"""
    calls = []

    def point_pairwise_dist(self, c1, c2):
        if not (isinstance(c2, PosArr) and getattr(c1, "of", None) is c2):
            raise sym.Unsupported("point_pairwise_dist arguments are not (pos[j, :], pos)")
        GeomStub.calls.append((c1.row_index, c2))
        pv = frames.RowPos(c2.space).val.t
        return frames.GVec(SV(DIST(to_z3(c1.row_index), pv)), c2.space)


class SuppressSpec(kernels.InvSpec):
    """invariant of the greedy loop after the k best-ranked particles have been visited"""
    state = {"temp_keep": "Bool"}
    ghosts = {"killer": "Int"}  # killer[i]: rank (visit number) of the kept particle that removed particle i

    def __init__(self, perm, d, n):
        self.p, self.d, self.n = perm, d, n

    def inv(self, k, S, G):
        keep, kl = S["temp_keep"], G["killer"]
        sg, rk, d, n = self.p.sigma, self.p.rk, self.d, self.n
        a, i = z3.Ints("a!v i!v")
        return [
            ("visited_kept_particle_has_cleared_its_neighbourhood",
             z3.ForAll([a, i], z3.Implies(z3.And(a >= 0, a < k, i >= 0, i < n, keep(sg(a)), i != sg(a), DIST(sg(a), i) < d), z3.Not(keep(i))))),
            ("removed_particle_has_a_kept_earlier_ranked_killer_within_d",
             z3.ForAll([i], z3.Implies(z3.And(i >= 0, i < n, z3.Not(keep(i))),
                                       z3.And(kl(i) >= 0, kl(i) < k, kl(i) < rk(i), keep(sg(kl(i))), DIST(sg(kl(i)), i) < d)))),
        ]

    def ghost_step(self, k, S0, S1, G0):
        return {"killer": (lambda i, f=G0["killer"]: z3.If(z3.And(S0["temp_keep"](i), z3.Not(S1["temp_keep"](i))), k, f(i)))}


class CleanByDistance(Contract):
    """Motl.clean_by_distance on the real AST: outer loop over groups as an arbitrary iteration, inner greedy loop by invariant"""
    prop = "C07"
    module = "cryomotl"
    qual = "Motl.clean_by_distance"
    configs = [{"keep_greater": True, "metric": "score", "feature": "tomo_id"}, {"keep_greater": False, "metric": "geom3", "feature": "object_id"}]

    def cfg_name(self, cfg):
        return f"keep_greater={cfg['keep_greater']},metric={cfg['metric']},group={cfg['feature']}"

    def bind(self, cx, cfg):
        Group.made.clear()
        GeomStub.calls.clear()
        it = common.motl_interp()
        df = common.fresh_motl_frame(angles=False)
        m = common.motl_obj(it, df)
        base_np = it.globals["np"]
        holder = {"unique_of": None, "perm": None}
        d = SV(z3.Real("d_cut"))
        cx.assume(d.t > 0)
        i, j = z3.Ints("i!d j!d")
        cx.assume(z3.ForAll([i, j], z3.Implies(i != j, DIST(i, j) != d.t)))  # requires (property quantifier): exact-distance ties excluded
        cx.axiom("point_pairwise_dist contract: Euclidean distance is symmetric and non-negative (lemma squared_distance_is_symmetric + PointPairwiseDist)",
                 z3.ForAll([i, j], z3.And(DIST(i, j) == DIST(j, i), DIST(i, j) >= 0)))

        class NPS:
            def __getattr__(self, k):
                return getattr(base_np, k)

            @staticmethod
            def unique(x, *a, **k):
                holder["unique_of"] = x
                return FeatureKeys()

            @staticmethod
            def ones(shape, dtype=None):
                from vfw.interp import BUILTINS
                if dtype is not bool and dtype is not BUILTINS["bool"]:
                    raise sym.Unsupported("np.ones dtype")
                n = shape[0] if isinstance(shape, tuple) else shape
                return kernels.FnArr.const(True, n, "Bool", "temp_keep")

        def inv_factory(perm, env):
            holder["perm"] = perm
            return SuppressSpec(perm, d.t, to_z3(perm.n))
        cx.inv_spec_factory = inv_factory
        it.globals["np"] = NPS()
        it.globals["pd"] = PDStub(it.globals["pd"])
        it.globals["geom"] = GeomStub()
        holder["reset"] = []

        def mk_group(self, f, feature_id="tomo_id", reset_index=False, **k):
            holder["reset"].append(reset_index)
            return Group(it, "grp_", f, feature_id)
        it.contracts["Motl.get_motl_subset"] = mk_group
        fn = it.function("Motl.clean_by_distance").bind(m)
        def thunk():
            Group.made.clear()
            GeomStub.calls.clear()
            holder["reset"] = []
            holder["perm"] = holder["unique_of"] = None
            fn(d, cfg["feature"], metric_id=cfg["metric"], keep_greater=cfg["keep_greater"])
            # per-execution record (paths are re-executions; post runs after all of them)
            return dict(holder, groups=list(Group.made), calls=list(GeomStub.calls), out=m.df)
        return thunk, {"m": m, "df": df, "d": d, "holder": holder}

    def post(self, cx, cfg, inp, res):
        m, h, d = inp["m"], res, inp["d"].t
        out = h["out"]
        made, calls = h["groups"], h["calls"]
        cl = []
        uo = h["unique_of"]
        uv = uo.val if isinstance(uo, frames.GVec) else (uo.vals[0] if isinstance(uo, frames.RowArr) and len(uo.vals) == 1 else None)
        cl.append(("groups_are_the_distinct_values_of_the_grouping_field", z3.BoolVal(uv is not None and uo.space is inp["df"].space and z3.eq(to_z3(uv), to_z3(inp["df"].row[cfg["feature"]])))))
        ok = isinstance(out, Accum) and len(out.pieces) == 1 and len(made) == 1
        cl.append(("result_is_the_concatenation_of_one_piece_per_group", z3.BoolVal(bool(ok))))
        ex = getattr(cx, "loop_exit", {}).get("greedy")
        if not ok or ex is None or h["perm"] is None:
            cl.append(("greedy_loop_verified_by_invariant", z3.BoolVal(False)))
            return cl
        g = made[0]
        piece, ign = out.pieces[0]
        cl.append(("group_is_selected_by_the_grouping_field_with_index_reset", z3.BoolVal(g.feature == cfg["feature"] and h["reset"] == [True] and bool(ign))))
        keep, kl = ex["S"]["temp_keep"], ex["G"]["killer"]
        p = h["perm"]
        n = to_z3(g.space.n)
        pv = frames.RowPos(g.space).val.t
        okp = isinstance(piece, frames.GFrame) and all(k in piece.row and z3.eq(to_z3(piece.row[k]), to_z3(g.df.row[k])) for k in g.df.row)
        cl.append(("kept_rows_carry_the_groups_unchanged_fields", z3.BoolVal(bool(okp))))
        if okp:
            cl.append(("piece_is_exactly_the_rows_still_marked_keep", z3.Implies(z3.And(pv >= 0, pv < n), sym.to_bool(piece.present) == keep(pv))))
        a, b, i = z3.Ints("a!p b!p i!p")
        score = p.key
        better = (lambda w, x: score(w) >= score(x)) if cfg["keep_greater"] else (lambda w, x: score(w) <= score(x))
        cl += [
            ("score_used_for_ranking_is_the_metric_column", z3.ForAll([i], score(i) == real(z3.substitute(to_z3(g.df.row[cfg["metric"]]), (pv, i)))), ()),
            ("no_two_remaining_particles_closer_than_d",
             z3.ForAll([a, b], z3.Implies(z3.And(a >= 0, a < n, b >= 0, b < n, a != b, keep(a), keep(b)), DIST(a, b) >= d)), ()),
            ("removed_particle_within_d_of_a_remaining_one_with_equal_or_better_score",
             z3.ForAll([i], z3.Implies(z3.And(i >= 0, i < n, z3.Not(keep(i))),
                                       z3.And(p.sigma(kl(i)) >= 0, p.sigma(kl(i)) < n, keep(p.sigma(kl(i))), DIST(p.sigma(kl(i)), i) < d, better(p.sigma(kl(i)), i)))), ()),
            ("distances_are_taken_within_the_group_only", z3.BoolVal(all(c[1] is g.pos for c in calls))),
        ]
        return cl

    def cross(self, cfg, paths):
        return [("some_path_suppresses_neighbours", [], z3.BoolVal(len(paths) >= 2))]

    def replay(self, clause, model, cfg):
        from rtc import c07 as r
        return r.replay_clean(cfg)


class PointPairwiseDist(Contract):
    """geom.point_pairwise_dist(p, P): element i is >= 0 and its square is |p - P_i|^2"""
    prop = "C07"
    module = "geom"
    qual = "point_pairwise_dist"

    def bind(self, cx, cfg):
        it = common.geom_interp()
        sp = frames.Space(tag="P")
        P = frames.RowArr([SV(z3.Real(f"P_{a}")) for a in XYZ], sp)
        p = npm.obj([SV(z3.Real(f"p_{a}")) for a in XYZ])
        f = it.function("point_pairwise_dist")
        return (lambda: f(p, P)), {"p": p, "P": P}

    def post(self, cx, cfg, inp, res):
        ok = isinstance(res, frames.GVec) and res.space is inp["P"].space
        cl = [("one_distance_per_row", z3.BoolVal(bool(ok)))]
        if ok:
            v = real(to_z3(res.val))
            sq = sum((real(to_z3(inp["p"][k])) - real(to_z3(inp["P"].vals[k]))) ** 2 for k in range(3))
            cl += [("distance_non_negative", v >= 0), ("distance_squared_is_sum_of_squared_differences", v * v == sq, ("poly",))]
        return cl


def lemmas(ck):
    a, b = [z3.Real(f"a{k}") for k in range(3)], [z3.Real(f"b{k}") for k in range(3)]
    ck.lemma("squared_distance_is_symmetric", [], sum((a[k] - b[k]) ** 2 for k in range(3)) == sum((b[k] - a[k]) ** 2 for k in range(3)), tactics=("poly",))
    x, y, s = z3.Reals("x y s")
    ck.lemma("non_negative_roots_of_equal_squares_are_equal", [x >= 0, y >= 0, x * x == s, y * y == s], x == y, tactics=())


CONTRACTS = [CleanByDistance, PointPairwiseDist]
LEVEL = "other"
EXPLANATION = ("Motl.clean_by_distance on the real AST: the loop over groups as an arbitrary iteration, the greedy loop over the argsort order by a quantified inductive invariant (visited kept particles have cleared their "
               "neighbourhood; every removed particle has a kept, earlier-ranked 'killer' within d - ghost function), exit facts give separation, domination with equal-or-better score and group isolation; "
               "geom.point_pairwise_dist against its Euclidean spec. Bounded run-time contract in addition: separation, domination by an at-least-as-good remaining particle of the same group, group isolation and row preservation for Motl.clean_by_distance; "
               "threshold, separation, domination, score / 1-based position / angle lookup for tmana.scores_extract_particles on plateau-free maps")
ASSUMPTIONS = ["exact-distance ties are excluded (requires, as in the property's quantifier); real arithmetic for distances and scores",
               "assumed callee contracts: np.argsort (ascending permutation with inverse), np.unique(column) iterated as an arbitrary group value, Motl.get_motl_subset (rows of the group in order, index reset; proved under C08), "
               "pd.concat((acc, piece)) appends the piece, boolean-mask .iloc selects exactly the marked rows; geom.point_pairwise_dist is used through its own contract (PointPairwiseDist + symmetry lemma)",
               "tmana.scores_extract_particles is NOT under contract (KD-tree / DBSCAN / set-of-tuples monolith): bounded run only"]


def run(ck):
    for C in CONTRACTS:
        ck.run_contract(C())
    lemmas(ck)
    from rtc import c07 as r
    n = 60 if ck.tier == "quick" else 1500
    ck.bounded_run("suppression", r.gen_cases(ck.seed, n, 24 if ck.tier == "quick" else 40), r.run_case, ref="rtc.c07:run_case",
                   rule="particle lists in clusters (1..400 particles, 1..4 groups, any grouping field, either score direction, d > 0); random plateau-free score maps up to N^3 with random angle maps, thresholds, "
                        "diameters, angle-list numbering 0/1 and zxz/zzx order, file and array angle lists. distinct = (case, kind)",
                   bound=f"{n} cases, maps <= {24 if ck.tier == 'quick' else 40}^3, <= 400 particles")
