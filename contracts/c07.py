"""C07 -- score-ranked distance suppression."""
import z3
from vfw import sym
from vfw.sym import SV, SB, ctx, to_z3, real
from vfw.engine import Contract
from vfw.models import frames, kernels, npm
from . import common
from .common import zr
from .c18 import SubMotl, FeatureKeys

XYZ = ("x", "y", "z")
DIST = z3.Function("pair_dist", z3.IntSort(), z3.IntSort(), z3.RealSort())


class PosArr(frames.RowArr):
    """coordinates of the group's particles; pos[j, :] remembers the row position it was taken from"""

    def __getitem__(self, key):
        r = super().__getitem__(key)
        if isinstance(key, tuple) and len(key) == 2 and isinstance(key[0], (SV, int)) and type(r).__name__ == "OA":
            r.row_index = key[0]
            r.of = self
        return r


class Group(SubMotl):
    made = []

    def __init__(self, it, prefix, f, feature):
        super().__init__(it, prefix, f, feature)
        self.f, self.feature = f, feature
        Group.made.append(self)

    def get_coordinates(self):
        r = self.df.row
        self.pos = PosArr([r[a] + r["shift_" + a] for a in XYZ], self.space)
        return self.pos


class Accum(frames._Generic):
    """cleaned_df: the concatenation, over the groups, of the piece appended in the arbitrary iteration"""

    def __init__(self):
        self.pieces = []
        self.shape = (SV(ctx().fresh("n_cleaned", "Int")), 20)
        self.index_reset = False

    def reset_index(self, drop=False, inplace=False, **k):
        if not (drop and inplace):
            raise sym.Unsupported("reset_index form on the accumulated table")
        self.index_reset = True


class PDStub:
    def __init__(self, real_pd):
        self._pd = real_pd

    def DataFrame(self, *a, **k):
        if a or k:
            raise sym.Unsupported("pd.DataFrame(args) in clean_by_distance")
        return Accum()

    def concat(self, parts, ignore_index=False, **k):
        parts = list(parts)
        if len(parts) == 2 and isinstance(parts[0], Accum):
            parts[0].pieces.append((parts[1], ignore_index))
            return parts[0]
        raise sym.Unsupported("pd.concat form in clean_by_distance")

    def __getattr__(self, k):
        return getattr(self._pd, k)


class GeomStub:
    """assumed contract of geom.point_pairwise_dist(P[j], P) (its own contract PointPairwiseDist below): element i is the
    Euclidean distance between rows j and i; as a function of (j, i) it is symmetric and non-negative"""
    calls = []

    def point_pairwise_dist(self, c1, c2):
        if not (isinstance(c2, PosArr) and getattr(c1, "of", None) is c2):
            raise sym.Unsupported("point_pairwise_dist arguments are not (pos[j, :], pos)")
        GeomStub.calls.append((c1.row_index, c2))
        pv = frames.RowPos(c2.space).val.t
        return frames.GVec(SV(DIST(to_z3(c1.row_index), pv)), c2.space)


class SuppressSpec(kernels.InvSpec):
    """invariant of the greedy loop after the k best-ranked particles have been visited"""
    state = {"temp_keep": "Bool"}
    ghosts = {"killer": "Int"}  # killer[i]: rank (visit number) of the kept particle that removed particle i

    def __init__(self, perm, d, n, keep_obj=None):
        self.p, self.d, self.n, self.keep_obj = perm, d, n, keep_obj

    def resolve(self, env):
        """the role temp_keep is played by whichever local holds the boolean array allocated with np.ones before the loop"""
        e = env
        while e is not None and self.keep_obj is not None:
            for k, v in e.vars.items():
                if v is self.keep_obj:
                    return {"temp_keep": k}
            e = e.parent
        return {}

    def inv(self, k, S, G):
        keep, kl = S["temp_keep"], G["killer"]
        sg, rk, d, n = self.p.sigma, self.p.rk, self.d, self.n
        a, i = z3.Ints("a!v i!v")
        return [
            ("visited_kept_particle_has_cleared_its_neighbourhood",
             z3.ForAll([a, i], z3.Implies(z3.And(a >= 0, a < k, i >= 0, i < n, keep(sg(a)), i != sg(a), DIST(sg(a), i) < d), z3.Not(keep(i))))),
            ("removed_particle_has_a_kept_earlier_ranked_killer_within_d",
             z3.ForAll([i], z3.Implies(z3.And(i >= 0, i < n, z3.Not(keep(i))),
                                       z3.And(kl(i) >= 0, kl(i) < k, kl(i) < rk(i), keep(sg(kl(i))), DIST(sg(kl(i)), i) < d)))),
        ]

    def ghost_step(self, k, S0, S1, G0):
        return {"killer": (lambda i, f=G0["killer"]: z3.If(z3.And(S0["temp_keep"](i), z3.Not(S1["temp_keep"](i))), k, f(i)))}


class CleanByDistance(Contract):
    """Motl.clean_by_distance on the real AST: outer loop over groups as an arbitrary iteration, inner greedy loop by invariant"""
    prop = "C07"
    module = "cryomotl"
    qual = "Motl.clean_by_distance"
    configs = [{"keep_greater": True, "metric": "score", "feature": "tomo_id"}, {"keep_greater": False, "metric": "geom3", "feature": "object_id"}]

    def cfg_name(self, cfg):
        return f"keep_greater={cfg['keep_greater']},metric={cfg['metric']},group={cfg['feature']}"

    def bind(self, cx, cfg):
        Group.made.clear()
        GeomStub.calls.clear()
        it = common.motl_interp()
        df = common.fresh_motl_frame(angles=False)
        m = common.motl_obj(it, df)
        base_np = it.globals["np"]
        holder = {"unique_of": None, "perm": None}
        d = SV(z3.Real("d_cut"))
        cx.assume(d.t > 0)
        i, j = z3.Ints("i!d j!d")
        cx.assume(z3.ForAll([i, j], z3.Implies(i != j, DIST(i, j) != d.t)))  # requires (property quantifier): exact-distance ties excluded
        cx.axiom("point_pairwise_dist contract: Euclidean distance is symmetric and non-negative (lemma squared_distance_is_symmetric + PointPairwiseDist)",
                 z3.ForAll([i, j], z3.And(DIST(i, j) == DIST(j, i), DIST(i, j) >= 0)))

        class NPS:
            def __getattr__(self, k):
                return getattr(base_np, k)

            @staticmethod
            def unique(x, *a, **k):
                holder["unique_of"] = x
                return FeatureKeys()

            @staticmethod
            def ones(shape, dtype=None):
                from vfw.interp import BUILTINS
                if dtype is not bool and dtype is not BUILTINS["bool"]:
                    raise sym.Unsupported("np.ones dtype")
                n = shape[0] if isinstance(shape, tuple) else shape
                holder["keep_obj"] = kernels.FnArr.const(True, n, "Bool", "temp_keep")
                return holder["keep_obj"]

        def inv_factory(perm, env):
            holder["perm"] = perm
            return SuppressSpec(perm, d.t, to_z3(perm.n), holder.get("keep_obj"))
        cx.inv_spec_factory = inv_factory
        it.globals["np"] = NPS()
        it.globals["pd"] = PDStub(it.globals["pd"])
        it.globals["geom"] = GeomStub()
        holder["reset"] = []

        def mk_group(self, f, feature_id="tomo_id", reset_index=False, **k):
            holder["reset"].append(reset_index)
            return Group(it, "grp_", f, feature_id)
        it.contracts["Motl.get_motl_subset"] = mk_group
        fn = it.function("Motl.clean_by_distance").bind(m)
        def thunk():
            Group.made.clear()
            GeomStub.calls.clear()
            holder["reset"] = []
            holder["perm"] = holder["unique_of"] = None
            fn(d, cfg["feature"], metric_id=cfg["metric"], keep_greater=cfg["keep_greater"])
            # per-execution record (paths are re-executions; post runs after all of them)
            return dict(holder, groups=list(Group.made), calls=list(GeomStub.calls), out=m.df)
        return thunk, {"m": m, "df": df, "d": d, "holder": holder}

    def post(self, cx, cfg, inp, res):
        m, h, d = inp["m"], res, inp["d"].t
        out = h["out"]
        made, calls = h["groups"], h["calls"]
        cl = []
        uo = h["unique_of"]
        uv = uo.val if isinstance(uo, frames.GVec) else (uo.vals[0] if isinstance(uo, frames.RowArr) and len(uo.vals) == 1 else None)
        cl.append(("groups_are_the_distinct_values_of_the_grouping_field", z3.BoolVal(uv is not None and uo.space is inp["df"].space and z3.eq(to_z3(uv), to_z3(inp["df"].row[cfg["feature"]])))))
        ok = isinstance(out, Accum) and len(out.pieces) == 1 and len(made) == 1
        cl.append(("result_is_the_concatenation_of_one_piece_per_group", z3.BoolVal(bool(ok))))
        ex = getattr(cx, "loop_exit", {}).get("greedy")
        if not ok or ex is None or h["perm"] is None:
            cl.append(("greedy_loop_verified_by_invariant", z3.BoolVal(False)))
            return cl
        g = made[0]
        piece, ign = out.pieces[0]
        cl.append(("group_is_selected_by_the_grouping_field_with_index_reset", z3.BoolVal(g.feature == cfg["feature"] and h["reset"] == [True] and bool(ign))))
        keep, kl = ex["S"]["temp_keep"], ex["G"]["killer"]
        p = h["perm"]
        n = to_z3(g.space.n)
        pv = frames.RowPos(g.space).val.t
        okp = isinstance(piece, frames.GFrame) and all(k in piece.row and z3.eq(to_z3(piece.row[k]), to_z3(g.df.row[k])) for k in g.df.row)
        cl.append(("kept_rows_carry_the_groups_unchanged_fields", z3.BoolVal(bool(okp))))
        if okp:
            cl.append(("piece_is_exactly_the_rows_still_marked_keep", z3.Implies(z3.And(pv >= 0, pv < n), sym.to_bool(piece.present) == keep(pv))))
        a, b, i = z3.Ints("a!p b!p i!p")
        score = p.key
        better = (lambda w, x: score(w) >= score(x)) if cfg["keep_greater"] else (lambda w, x: score(w) <= score(x))
        cl += [
            ("score_used_for_ranking_is_the_metric_column", z3.ForAll([i], score(i) == real(z3.substitute(to_z3(g.df.row[cfg["metric"]]), (pv, i)))), ()),
            ("no_two_remaining_particles_closer_than_d",
             z3.ForAll([a, b], z3.Implies(z3.And(a >= 0, a < n, b >= 0, b < n, a != b, keep(a), keep(b)), DIST(a, b) >= d)), ()),
            ("removed_particle_within_d_of_a_remaining_one_with_equal_or_better_score",
             z3.ForAll([i], z3.Implies(z3.And(i >= 0, i < n, z3.Not(keep(i))),
                                       z3.And(p.sigma(kl(i)) >= 0, p.sigma(kl(i)) < n, keep(p.sigma(kl(i))), DIST(p.sigma(kl(i)), i) < d, better(p.sigma(kl(i)), i)))), ()),
            ("distances_are_taken_within_the_group_only", z3.BoolVal(all(c[1] is g.pos for c in calls))),
        ]
        return cl

    def cross(self, cfg, paths):
        return [("some_path_suppresses_neighbours", [], z3.BoolVal(len(paths) >= 2))]

    def replay(self, clause, model, cfg):
        from rtc import c07 as r
        return r.replay_clean(cfg)


class PointPairwiseDist(Contract):
    """geom.point_pairwise_dist(p, P): element i is >= 0 and its square is |p - P_i|^2"""
    prop = "C07"
    module = "geom"
    qual = "point_pairwise_dist"

    def bind(self, cx, cfg):
        it = common.geom_interp()
        sp = frames.Space(tag="P")
        P = frames.RowArr([SV(z3.Real(f"P_{a}")) for a in XYZ], sp)
        p = npm.obj([SV(z3.Real(f"p_{a}")) for a in XYZ])
        f = it.function("point_pairwise_dist")
        return (lambda: f(p, P)), {"p": p, "P": P}

    def post(self, cx, cfg, inp, res):
        ok = isinstance(res, frames.GVec) and res.space is inp["P"].space
        cl = [("one_distance_per_row", z3.BoolVal(bool(ok)))]
        if ok:
            v = real(to_z3(res.val))
            sq = sum((real(to_z3(inp["p"][k])) - real(to_z3(inp["P"].vals[k]))) ** 2 for k in range(3))
            cl += [("distance_non_negative", v >= 0), ("distance_squared_is_sum_of_squared_differences", v * v == sq, ("poly",))]
        return cl


def lemmas(ck):
    a, b = [z3.Real(f"a{k}") for k in range(3)], [z3.Real(f"b{k}") for k in range(3)]
    ck.lemma("squared_distance_is_symmetric", [], sum((a[k] - b[k]) ** 2 for k in range(3)) == sum((b[k] - a[k]) ** 2 for k in range(3)), tactics=("poly",))
    x, y, s = z3.Reals("x y s")
    ck.lemma("non_negative_roots_of_equal_squares_are_equal", [x >= 0, y >= 0, x * x == s, y * y == s], x == y, tactics=())


# ---------------------------------------------------------------------------------------------------------------------------------
# tmana.scores_extract_particles is verified block-wise: the statements of one contiguous block are extracted mechanically from the function's
# AST on every run (Interp.block_function) and executed under the block's requires; everything outside the block is dropped from that
# obligation set and covered by the other block / the bounded run.


class _Kept(frames._Generic):
    """filtered_coords after the suppression loop: a list of (coord, score) pairs, one per kept candidate.  zip(*list) yields the tuple of
    coordinates and the tuple of scores; np.array of them is an (n,3) integer array and an (n,) vector over the kept candidates"""

    def __init__(self):
        self.space = frames.Space(tag="kept")
        self.c = [SV(z3.Int(f"peak_{a}")) for a in XYZ]   # voxel index of the generic kept candidate
        self.s = SV(z3.Real("peak_score"))

    def __iter__(self):
        # `zip(*filtered_coords)`: the star expansion hands the list's elements to zip; modelled by one marker standing for all of them
        yield _AllPairs(self)


class _AllPairs:
    def __init__(self, kept):
        self.kept = kept


class _ZipPart:
    def __init__(self, kept, what):
        self.kept, self.what = kept, what


class _AngList:
    """anglist = ioutils.rot_angles_load(...): (n_angles, 3) array of (phi, theta, psi); anglist[idx, k] for a per-row index vector"""
    ANG = z3.Function("angle_list", z3.IntSort(), z3.IntSort(), z3.RealSort())

    def __init__(self):
        self.n = z3.Int("n_angles")
        self.lookups = []

    def __getitem__(self, k):
        idx, col = k
        if not (isinstance(idx, frames.GVec) and isinstance(col, int)):
            raise sym.Unsupported("anglist lookup form")
        it = to_z3(idx.val)
        ctx().oblige("safe.index-in-range", z3.Implies(sym.to_bool(idx.present), z3.And(it >= 0, it < self.n)), kind="safe", detail="row of the angle list")
        self.lookups.append((idx, col))
        return frames.GVec(SV(_AngList.ANG(it, z3.IntVal(col))), idx.space, idx.present)


class TmanaBookkeeping(Contract):
    """scores_extract_particles, block from `filtered_coords, filtered_scores = zip(*filtered_coords)` to `motl.fill(...)`: every kept
    candidate becomes one particle carrying its score, its voxel index + 1 as position and the Euler angles (phi, theta, psi) of the row of the
    angle list that its angle-map entry (minus the numbering base) points to, plus the requested tomogram / object numbers and ids 1..n"""
    prop = "C07"
    module = "tmana"
    qual = "scores_extract_particles"
    configs = [{"numbering": 0}, {"numbering": 1}]

    def cfg_name(self, cfg):
        return f"block=bookkeeping,angles_numbering={cfg['numbering']}"

    def bind(self, cx, cfg):
        from vfw.interp import Interp, BUILTINS
        from vfw.models import voxels
        kept = _Kept()
        ms = [SV(z3.Int(n)) for n in ("AX", "AY", "AZ")]
        for s_, c_ in zip(ms, kept.c):
            cx.assume(z3.And(s_.t >= 1, c_.t >= 0, c_.t < s_.t))  # requires: the kept candidates are voxel indices of the maps (same shape for scores and angles)
        amap = voxels.input_array("angles_map", list(ms))
        ang = _AngList()
        base = cfg["numbering"]
        i0, i1, i2 = z3.Ints("q0 q1 q2")
        # requires: every entry of the angle map, minus the numbering base, is a row of the angle list
        cx.assume(z3.ForAll([i0, i1, i2], z3.Implies(z3.And(i0 >= 0, i0 < ms[0].t, i1 >= 0, i1 < ms[1].t, i2 >= 0, i2 < ms[2].t),
                                                       z3.And(z3.ToInt(amap.fn(i0, i1, i2)) - base >= 0, z3.ToInt(amap.fn(i0, i1, i2)) - base < ang.n, amap.fn(i0, i1, i2) >= 0))))
        rec = {}

        class DB:
            def __init__(self, eps=None, min_samples=None, **k):
                rec["dbscan"] = (eps, min_samples)

            def fit_predict(self, X):
                """assumed sklearn contract for min_samples = 1: every point belongs to a cluster, labels are >= 0"""
                rec["clustered"] = X
                lab = frames.GVec(SV(z3.Int("cluster_label")), X.space, X.present)
                ctx().assume(z3.Int("cluster_label") >= 0)
                return lab

        class MotlStub:
            def fill(self, d):
                rec["fill"] = d

        class Cryomotl:
            @staticmethod
            def Motl(*a, **k):
                m = MotlStub()
                rec["motl"] = m
                return m

        def zip_(*a):
            if len(a) == 1 and isinstance(a[0], _AllPairs):
                return [_ZipPart(a[0].kept, "coords"), _ZipPart(a[0].kept, "scores")]
            return zip(*a)

        g = common.base_globals()
        base_np = g["np"]

        class NPB:
            def __getattr__(self, k):
                return getattr(base_np, k)

            @staticmethod
            def array(x, *a, **k):
                if isinstance(x, _ZipPart):
                    kk = x.kept
                    return frames.RowArr(list(kk.c), kk.space) if x.what == "coords" else frames.GVec(kk.s, kk.space)
                return base_np.array(x, *a, **k)

            @staticmethod
            def zeros(n, dtype=None, **k):
                if dtype is bool or dtype is BUILTINS["bool"]:
                    sp = frames.space_for_count(n)
                    return frames.GVec(False, sp)
                return base_np.zeros(n, dtype=dtype, **k)

            @staticmethod
            def sum(x, *a, **k):
                if isinstance(x, frames.GVec):
                    return SV(ctx().fresh("count", "Int"))
                return base_np.sum(x, *a, **k)
        g.update({"np": NPB(), "DBSCAN": DB, "cryomotl": Cryomotl, "zip": zip_})
        it = Interp("tmana", g)
        f = it.block_function("scores_extract_particles", lambda s: s.startswith("filtered_coords, filtered_scores = zip("), lambda s: s.startswith("motl.fill("),
                              ["filtered_coords", "particle_diameter", "cluster_size", "n_particles", "angles_map", "angles_numbering", "anglist", "symmetry", "tomo_id", "object_id"], ["motl"])
        diam = SV(z3.Real("particle_diameter"))
        cx.assume(diam.t > 0)
        tomo, obj = SV(z3.Real("tomo_id_arg")), SV(z3.Real("object_id_arg"))

        def thunk():
            rec.clear()
            f(kept, diam, None, None, amap, base, ang, 1, tomo, obj)
            return dict(rec)
        return thunk, {"kept": kept, "amap": amap, "ang": ang, "base": base, "tomo": tomo, "obj": obj, "diam": diam, "lines": it.block_lines}

    def post(self, cx, cfg, inp, res):
        kept, amap, base = inp["kept"], inp["amap"], inp["base"]
        d = res.get("fill")
        cl = [("one_particle_list_filled_once", z3.BoolVal(isinstance(d, dict) and res.get("motl") is not None))]
        if not isinstance(d, dict):
            return cl
        need = ["x", "y", "z", "score", "phi", "theta", "psi", "tomo_id", "object_id", "subtomo_id", "class"]
        cl.append(("fields_filled", z3.BoolVal(all(k in d for k in need))))
        if not all(k in d for k in need):
            return cl
        vec = lambda k: d[k] if isinstance(d[k], frames.GVec) else None
        ok = all(vec(k) is not None for k in ("x", "y", "z", "score", "phi", "theta", "psi", "subtomo_id"))
        cl.append(("per_peak_fields_are_vectors_over_the_kept_candidates", z3.BoolVal(bool(ok))))
        if not ok:
            return cl
        pres = lambda k: sym.to_bool(d[k].present)
        cl.append(("every_kept_candidate_becomes_a_particle", z3.And(*[pres(k) for k in ("x", "y", "z", "score", "phi", "theta", "psi")]), ()))
        for a, k in enumerate(XYZ):
            cl.append((f"position_{k}_is_voxel_index_plus_one", zr(d[k].val) == z3.ToReal(kept.c[a].t) + 1, ()))
        cl.append(("score_is_the_candidates_score", zr(d["score"].val) == kept.s.t, ()))
        row = z3.ToInt(amap.fn(*[c.t for c in kept.c])) - base
        for col, k in enumerate(("phi", "theta", "psi")):
            cl.append((f"{k}_is_column_{col}_of_the_angle_list_row_the_angle_map_points_to", zr(d[k].val) == _AngList.ANG(row, z3.IntVal(col)), ()))
        cl.append(("tomogram_and_object_numbers_as_requested", z3.BoolVal(d["tomo_id"] is inp["tomo"] and d["object_id"] is inp["obj"] and d["class"] == 1)))
        cl.append(("subtomogram_numbers_are_position_plus_one", zr(d["subtomo_id"].val) == z3.ToReal(frames.RowPos(d["subtomo_id"].space).val.t) + 1, ()))
        cl.append(("clustering_with_half_the_diameter_and_single_point_clusters", z3.BoolVal(res.get("dbscan") is not None and res["dbscan"][1] == 1 and z3.is_true(z3.simplify(zr(res["dbscan"][0]) == inp["diam"].t / 2)))))
        return cl

    def replay(self, clause, model, cfg):
        from rtc import c07 as r
        return r.replay_small("tmana")


class _CoordTok:
    """the coordinate array of candidate idx (only its identity matters to the block)"""

    def __init__(self, seq, idx):
        self.seq, self.idx = seq, idx


class _KeyTok:
    """tuple(coord): the dictionary / set key of candidate idx (requires: candidate coordinates are pairwise different)"""

    def __init__(self, seq, idx):
        self.seq, self.idx = seq, idx


class _CandSeq(frames._Generic):
    """scored_coords: the M candidates (coordinate, score), sorted by decreasing score (requires, established by the dropped prefix of the
    function and monitored in the bounded run); candidate j is identified with its index"""

    def __init__(self, cx):
        self.M = z3.Int("n_candidates")
        self.score = z3.Function("cand_score", z3.IntSort(), z3.RealSort())
        a, b = z3.Ints("a!cs b!cs")
        cx.assume(self.M >= 1)
        cx.assume(z3.ForAll([a, b], z3.Implies(z3.And(a >= 0, a < b, b < self.M), self.score(a) > self.score(b))))  # sorted; plateau-free scores (the property's quantifier)

    def __sym_comprehension__(self, kind, target, parts):
        if kind == "list" and target == "(coord, score)" and parts == ("coord",):
            return ("all-coords", self)
        if kind == "dict" and target == "(coord, score)" and parts == ("tuple(coord)", "score"):
            return _ScoreDict(self)
        raise sym.Unsupported(f"comprehension over the candidates: {kind} {parts}")

    def __getitem__(self, k):
        kt = to_z3(k)
        ctx().oblige("safe.index-in-range", z3.And(kt >= 0, kt < self.M), kind="safe", detail="scored_coords[index]")
        return (_CoordTok(self, kt), SV(self.score(kt)))

    def __generic_for__(self, interp, st, env):
        import ast
        if not (isinstance(st.target, ast.Tuple) and [e.id for e in st.target.elts] == ["coord", "score"]):
            raise sym.Unsupported("candidate loop target")
        spec = ctx().inv_spec_factory(self, env)

        def bind_at(e, k):
            e.vars["coord"], e.vars["score"] = _CoordTok(self, k), SV(self.score(k))
        kernels.run_invariant_loop(interp, st, env, SV(self.M), bind_at, spec, label="suppress")


class _ScoreDict:
    def __init__(self, seq):
        self.seq = seq

    def keys(self):
        return ("all-keys", self.seq)

    def __getitem__(self, k):
        if not (isinstance(k, _KeyTok) and k.seq is self.seq):
            raise sym.Unsupported("coord_to_score lookup form")
        return SV(self.seq.score(k.idx))


class _RemSet(kernels.FnArr):
    """remaining_coords: a set of candidate keys, represented by its membership function over the candidate index"""

    def __sym_contains__(self, k):
        if not isinstance(k, _KeyTok):
            raise sym.Unsupported("membership of something else than a candidate key")
        return SB(self.f(k.idx))

    def remove(self, k):
        if not isinstance(k, _KeyTok):
            raise sym.Unsupported("remove form")
        gs = list(getattr(ctx(), "guard_mode", None) or [])
        # set.remove raises KeyError for a missing key
        ctx().oblige("safe.remove-existing-key", z3.Implies(z3.And(*gs) if gs else z3.BoolVal(True), self.f(k.idx)), kind="safe", detail="set.remove of a key that is not in the set raises KeyError")
        self[SV(k.idx)] = False


class _CandTree:
    """assumed contract of scipy.spatial.KDTree(coords).query_ball_point(coord_k, r): the indices nb (each once) with |coord_nb - coord_k| <= r"""
    DIST = z3.Function("cand_dist", z3.IntSort(), z3.IntSort(), z3.RealSort())

    def __init__(self, pts):
        if not (isinstance(pts, tuple) and pts[0] == "all-coords"):
            raise sym.Unsupported("KDTree over something else than the candidates' coordinates")
        self.seq = pts[1]

    def query_ball_point(self, c, r, **k):
        if not (isinstance(c, _CoordTok) and c.seq is self.seq):
            raise sym.Unsupported("ball query form")
        return _Ball(self, c.idx, r)


class _Ball(frames._Generic):
    def __init__(self, tree, centre, r):
        self.tree, self.centre, self.r = tree, centre, r

    def __generic_for__(self, interp, st, env):
        """`for nb in ball:` -- the body is executed once for the generic member nb in guarded mode; stores into the remaining-set are lifted
        to all members of the ball at loop exit"""
        cx = ctx()
        nb = cx.fresh("nb", "Int")
        M = self.tree.seq.M
        dom = z3.And(nb >= 0, nb < M, _CandTree.DIST(self.centre, nb) <= sym.real(to_z3(self.r)))
        rems = [v for v in _all_values(env) if isinstance(v, _RemSet)]
        for r_ in rems:
            r_.recording = []
        cx.ball_queries = getattr(cx, "ball_queries", []) + [(self.centre, self.r)]
        old_gm = getattr(cx, "guard_mode", None)
        cx.guard_mode = []
        n_pc = len(cx.pc)
        cx.pc.append((dom, st.lineno, "domain"))
        cx._solver = None
        try:
            env.vars[st.target.id] = SV(nb)
            interp.block(st.body, env)
        finally:
            cx.guard_mode = old_gm
            del cx.pc[n_pc:]
            cx._solver = None
        for r_ in rems:
            kernels.lift_stores(r_, nb, dom)
        env.vars[st.target.id] = kernels.Poison("loop variable after the loop over the ball") if hasattr(kernels, "Poison") else None


def _all_values(env):
    out, e = [], env
    while e is not None:
        out += list(e.vars.values())
        e = e.parent
    return out


class PeakSpec(kernels.InvSpec):
    """invariant of the suppression loop after the k best candidates have been visited"""
    state = {"remaining_coords": "Bool", "filtered_coords": "Bool"}
    ghosts = {"killer": "Int"}

    def __init__(self, seq, r):
        self.q, self.r = seq, r

    def resolve(self, env):
        """roles by what the locals hold: the set of remaining candidate keys, and the (still empty) list that collects the kept ones"""
        out, e = {}, env
        while e is not None:
            for k, v in e.vars.items():
                if isinstance(v, _RemSet):
                    out.setdefault("remaining_coords", k)
                elif isinstance(v, list) and v == [] or isinstance(v, kernels.AppendLog):
                    out.setdefault("filtered_coords", k)
            e = e.parent
        return out

    def inv(self, k, S, G):
        rem, kept, kl = S["remaining_coords"], S["filtered_coords"], G["killer"]
        D, M, sc, r = _CandTree.DIST, self.q.M, self.q.score, self.r
        i, j = z3.Ints("i!pk j!pk")
        rng = lambda x: z3.And(x >= 0, x < M)
        return [
            ("only_visited_candidates_are_kept", z3.ForAll([i], z3.Implies(z3.And(rng(i), kept(i)), i < k))),
            ("a_visited_candidate_is_kept_or_was_not_remaining", z3.ForAll([i], z3.Implies(z3.And(rng(i), i < k), z3.Or(kept(i), z3.Not(rem(i)))))),
            ("kept_candidate_has_cleared_its_ball", z3.ForAll([j, i], z3.Implies(z3.And(rng(j), rng(i), i != j, kept(j), D(j, i) <= r), z3.Not(rem(i))))),
            ("every_candidate_that_is_neither_remaining_nor_kept_has_a_kept_dominating_neighbour",
             z3.ForAll([i], z3.Implies(z3.And(rng(i), z3.Not(rem(i)), z3.Not(kept(i))), z3.And(kl(i) >= 0, kl(i) < M, kept(kl(i)), D(kl(i), i) <= r, sc(kl(i)) >= sc(i))))),
            ("kept_candidates_are_farther_apart_than_the_diameter", z3.ForAll([i, j], z3.Implies(z3.And(rng(i), rng(j), i != j, kept(i), kept(j)), D(i, j) > r))),
            ("before_the_first_visit_every_candidate_is_remaining", z3.Implies(k == 0, z3.ForAll([i], z3.Implies(rng(i), rem(i))))),
            ("the_best_candidate_is_kept_once_visited", z3.Implies(k >= 1, kept(0))),
        ]

    def ghost_step(self, k, S0, S1, G0):
        # candidates removed in this iteration (other than the visited one, which is kept) are dominated by the visited candidate k
        return {"killer": (lambda i, f=G0["killer"]: z3.If(z3.And(S0["remaining_coords"](i), z3.Not(S1["remaining_coords"](i)), z3.Not(S1["filtered_coords"](i))), k, f(i)))}


class TmanaSuppression(Contract):
    """scores_extract_particles, block from `tree = KDTree(...)` to the end of the loop over the score-sorted candidates: the kept candidates are
    pairwise farther apart than the particle diameter and every candidate is kept or lies within the diameter of a kept one with an equal or higher score"""
    prop = "C07"
    module = "tmana"
    qual = "scores_extract_particles"

    def cfg_name(self, cfg):
        return "block=suppression"

    def bind(self, cx, cfg):
        from vfw.interp import Interp
        seq = _CandSeq(cx)
        diam = SV(z3.Real("particle_diameter"))
        cx.assume(diam.t > 0)
        a, b = z3.Ints("a!d b!d")
        D = _CandTree.DIST
        cx.axiom("Euclidean distance between candidate voxels: symmetric, zero only for the same candidate (coordinates are pairwise different)",
                 z3.ForAll([a, b], z3.And(D(a, b) == D(b, a), D(a, b) >= 0, (D(a, b) == 0) == (a == b))))
        rec = {}

        def mkset(*x):
            if len(x) == 1 and isinstance(x[0], tuple) and x[0][0] == "all-keys":
                s = _RemSet(lambda i: z3.BoolVal(True), SV(seq.M), "Bool", "remaining_coords")
                rec["rem"] = s
                return s
            return set(*x)

        def mktuple(*x):
            if len(x) == 1 and isinstance(x[0], _CoordTok):
                return _KeyTok(x[0].seq, x[0].idx)
            return tuple(*x)

        def mktree(p):
            t = _CandTree(p)
            rec["tree"] = t
            return t
        def mkspec(q, env):
            rec["spec"] = PeakSpec(q, diam.t)
            return rec["spec"]
        cx.inv_spec_factory = mkspec
        g = common.base_globals()
        g.update({"KDTree": mktree, "set": mkset, "tuple": mktuple})
        it = Interp("tmana", g)
        f = it.block_function("scores_extract_particles", lambda s: s.startswith("tree = KDTree("), lambda s: s.startswith("for (coord, score) in scored_coords:") or s.startswith("for coord, score in scored_coords:"),
                              ["scored_coords", "particle_diameter"], [])

        def thunk():
            rec.clear()
            f(seq, diam)
            spec = rec.get("spec")
            objs = getattr(spec, "bound_objects", {}) if spec is not None else {}
            return dict(rec, out=(objs.get("filtered_coords"), objs.get("remaining_coords")), queries=list(getattr(ctx(), "ball_queries", [])))
        return thunk, {"seq": seq, "diam": diam, "lines": it.block_lines}

    def post(self, cx, cfg, inp, res):
        q, r = inp["seq"], inp["diam"].t
        kept_log = res["out"][0]
        cl = [("kept_list_is_a_log_of_the_loop", z3.BoolVal(isinstance(kept_log, kernels.AppendLog)))]
        ex = getattr(cx, "loop_exit", {}).get("suppress")
        if ex is None or not isinstance(kept_log, kernels.AppendLog):
            return cl + [("suppression_loop_verified_by_invariant", z3.BoolVal(False))]
        kept = ex["S"]["filtered_coords"]
        kl = ex["G"]["killer"]
        D, M, sc = _CandTree.DIST, q.M, q.score
        i, j = z3.Ints("i!pp j!pp")
        rng = lambda x: z3.And(x >= 0, x < M)
        vals_ok = all(isinstance(v, tuple) and len(v) == 2 and isinstance(v[0], _CoordTok) and v[0].idx.eq(k) and isinstance(v[1], SV) and v[1].t.eq(sc(k)) for k, v, _ in kept_log.values)
        cl += [("appended_pair_is_the_visited_candidate_with_its_score", z3.BoolVal(bool(vals_ok))),
               ("ball_queries_use_the_visited_candidate_and_the_particle_diameter", z3.BoolVal(all(z3.is_true(z3.simplify(sym.real(to_z3(rr)) == r)) for c_, rr in res["queries"]) and len(res["queries"]) == len(kept_log.values))),
               ("kept_peaks_are_farther_apart_than_the_particle_diameter", z3.ForAll([i, j], z3.Implies(z3.And(rng(i), rng(j), i != j, kept(i), kept(j)), D(i, j) > r)), ()),
               ("every_candidate_is_kept_or_within_the_diameter_of_a_kept_one_with_equal_or_higher_score",
                z3.ForAll([i], z3.Implies(z3.And(rng(i), z3.Not(kept(i))), z3.And(rng(kl(i)), kept(kl(i)), D(kl(i), i) <= r, sc(kl(i)) >= sc(i)))), ()),
               ("the_best_candidate_is_kept", kept(0), ())]
        return cl

    def cross(self, cfg, paths):
        n_app = sum(1 for cx, inputs, out in paths if out[0] == "return" and isinstance(out[1]["out"][0], kernels.AppendLog) and out[1]["out"][0].values)
        return [("both_outcomes_of_the_visit_reachable", [], z3.BoolVal(len(paths) >= 2 and n_app >= 1))]

    def replay(self, clause, model, cfg):
        from rtc import c07 as r
        return r.replay_small("tmana")


class RotAnglesLoad(Contract):
    """ioutils.rot_angles_load, the callee that TmanaBookkeeping's angle list comes from: one row (phi, theta, psi) per input row -- for "zzx" input
    rows (phi, psi, theta) -- from an array or a three-column csv file, and an array argument is left as it was (it is reused for every tomogram)"""
    prop = "C07"
    module = "ioutils"
    qual = "rot_angles_load"
    configs = [{"src": s_, "order": o} for s_ in ("array", "file") for o in ("zxz", "zzx")]

    def cfg_name(self, cfg):
        return f"{cfg['src']},{cfg['order']}"

    def bind(self, cx, cfg):
        from vfw.interp import Interp
        from vfw.models import misc
        sp = frames.Space(tag="angles")
        a = [SV(z3.Real(f"ang{j}")) for j in range(3)]
        arr = frames.RowArr(list(a), sp)
        fr = frames.GFrame([0, 1, 2], {j: a[j] for j in range(3)}, sp)
        pdm = misc.PD()

        class PDX:
            def __getattr__(self, k):
                return getattr(pdm, k)

            @staticmethod
            def read_csv(path, **k):
                return fr

        class OsPath:
            @staticmethod
            def exists(p):
                return True

        class Os:
            path = OsPath

        g = common.base_globals()
        g.update({"pd": PDX(), "os": Os})
        it = Interp("ioutils", g)
        arg = arr if cfg["src"] == "array" else "angles.csv"
        return (lambda: it.function("rot_angles_load")(arg, cfg["order"])), {"a": a, "arr": arr, "sp": sp}

    def post(self, cx, cfg, inp, res):
        a = [x.t for x in inp["a"]]
        want = a if cfg["order"] == "zxz" else [a[0], a[2], a[1]]
        if not (isinstance(res, frames.RowArr) and res.k == 3):
            return [("one_row_of_three_angles_per_input_row", z3.BoolVal(False))]
        cl = [("one_row_of_three_angles_per_input_row", z3.And(z3.BoolVal(res.space.pos_id == inp["sp"].pos_id), z3.simplify(res.present) == z3.BoolVal(True))),
              ("rows_are_phi_theta_psi", z3.And(*[zr(res.vals[j]) == want[j] for j in range(3)]), ())]
        if cfg["src"] == "array":
            cl.append(("argument_array_unchanged", z3.And(*[zr(inp["arr"].vals[j]) == a[j] for j in range(3)]), ()))
        return cl

    def replay(self, clause, model, cfg):
        from rtc import c07 as r
        return r.replay_angles_load(cfg["order"], cfg["src"])


CONTRACTS = [CleanByDistance, PointPairwiseDist, TmanaBookkeeping, TmanaSuppression, RotAnglesLoad]
LEVEL = "other"
EXPLANATION = ("Motl.clean_by_distance on the real AST: the loop over groups as an arbitrary iteration, the greedy loop over the argsort order by a quantified inductive invariant (visited kept particles have cleared their "
               "neighbourhood; every removed particle has a kept, earlier-ranked 'killer' within d - ghost function), exit facts give separation, domination with equal-or-better score and group isolation; "
               "geom.point_pairwise_dist against its Euclidean spec. tmana.scores_extract_particles block-wise (blocks extracted mechanically from the function's AST on every run): the suppression loop over the "
               "score-sorted candidates by an inductive invariant (kept peaks farther apart than the diameter; every candidate kept or within the diameter of a kept one with an equal or higher score; inner loop over the "
               "ball-query result executed in guarded mode and lifted to all members), and the bookkeeping block (every kept candidate becomes a particle with its score, voxel index + 1 and the Euler angles of the "
               "angle-list row its angle-map entry minus the numbering base points to, index safety of both lookups). The function's prefix (threshold, np.where, argpartition / argsort, sorted) is not under contract: "
               "the angle list comes from ioutils.rot_angles_load, which is under its own contract (rows (phi, theta, psi) for both orders, array or csv source, the argument array unchanged); the blocks' requires (candidates = exactly the voxels above the threshold, sorted by decreasing score, pairwise different, carrying their voxel's score) are monitored on every real call of the bounded run, "
               "which also checks all clauses end to end on generated maps (incl. thresholds equal to a voxel value).")
ASSUMPTIONS = ["exact-distance ties are excluded (requires, as in the property's quantifier); plateau-free scores (requires, as in the quantifier); real arithmetic for distances and scores",
               "assumed callee contracts: np.argsort (ascending permutation with inverse), np.unique(column) iterated as an arbitrary group value, Motl.get_motl_subset (rows of the group in order, index reset; proved under C08), "
               "pd.concat((acc, piece)) appends the piece, boolean-mask .iloc selects exactly the marked rows; geom.point_pairwise_dist is used through its own contract (PointPairwiseDist + symmetry lemma)",
               "tmana blocks: scipy KDTree.query_ball_point returns each index within distance <= r once; sklearn DBSCAN(min_samples=1) labels every point >= 0; cryomotl.Motl().fill receives the dictionary; "
               "a dictionary / set keyed by tuple(coord) identifies candidates (pairwise different coordinates); the statements before / between / after the two blocks are dropped from the verified text and covered by "
               "the monitored requires and the bounded run"]


def run(ck):
    for C in CONTRACTS:
        ck.run_contract(C())
    lemmas(ck)
    from rtc import c07 as r
    n = 60 if ck.tier == "quick" else 1500
    ck.bounded_run("suppression", r.gen_cases(ck.seed, n, 24 if ck.tier == "quick" else 40), r.run_case, ref="rtc.c07:run_case",
                   rule="particle lists in clusters (1..400 particles, 1..4 groups, any grouping field, either score direction, d > 0); random plateau-free score maps up to N^3 with random angle maps, thresholds, "
                        "diameters, angle-list numbering 0/1 and zxz/zzx order, file and array angle lists. distinct = (case, kind)",
                   bound=f"{n} cases, maps <= {24 if ck.tier == 'quick' else 40}^3, <= 400 particles")
