"""C18 -- nearest-neighbour analysis: site obligations on nnana.get_nn_distances and get_nn_rotations for the generic (tomogram,
query particle, neighbour rank): offsets, distance, particle-frame offset, relative orientation, reported ids, same-tomogram
restriction (deductive, KD-tree k-query as assumed contract); optimality vs brute force and rigid-motion invariance bounded + lemma."""
import z3
from vfw import sym, theory
from vfw.sym import SV, SB, ctx, Unsupported
from vfw.engine import Contract
from vfw.interp import Interp
from vfw.models import frames, kernels, rot as rotm, misc
from . import common
from .common import MOTL_COLS, zr

XYZ = ("x", "y", "z")


class _Vals(frames._Generic):
    """an array of feature values known only by how it was made (np.unique: sorted distinct values; pd.unique: distinct values in order of first
    appearance; isin / selection by a mask); iterating it binds an arbitrary one of its values"""

    def __init__(self, kind, args):
        self.kind, self.args = kind, args

    def __getitem__(self, k):
        return _Vals("selected", (self, k))

    def __generic_for__(self, interp, st, env):
        return FeatureKeys.__generic_for__(self, interp, st, env)


class FeatureKeys(frames._Generic):
    """np.intersect1d(np.unique(a[feature]), np.unique(b[feature])): iterating it binds f to a value that occurs in both lists"""
    made = []

    def __init__(self, a=None, b=None):
        self.args = (a, b)
        FeatureKeys.made.append(self)

    def __generic_for__(self, interp, st, env):
        f = SV(z3.Real("feature_value"))

        def bind(e):
            e.vars[st.target.id] = f
            return []
        kernels.generic_body(interp, st, env, bind)


class SubMotl:
    """assumed contract of Motl.get_motl_subset(f, feature_id) (proved in C08): the rows whose feature equals f, original
    order, index reset.  Modelled as a table whose columns are functions of the row position, with feature == f for every row."""

    def __init__(self, it, prefix, f, feature):
        self.space = frames.Space(tag=prefix)
        self.df = frames.pos_frame(MOTL_COLS, prefix, self.space)
        self.prefix = prefix
        ctx().assume(z3.ForAll([z3.Int("q")], z3.Function(f"{prefix}{feature}", z3.IntSort(), z3.RealSort())(z3.Int("q")) == f.t))
        self.it = it

    def get_coordinates(self):
        r = self.df.row
        return frames.RowArr([r[a] + r["shift_" + a] for a in XYZ], self.space)

    def get_angles(self):
        r = self.df.row
        return frames.RowArr([r["phi"], r["theta"], r["psi"]], self.space)

    def get_feature(self, cols):
        if isinstance(cols, str):
            return frames.GVec(self.df.row[cols], self.space)
        return frames.RowArr([self.df.row[c] for c in cols], self.space)


class KNN(frames._Generic):
    """assumed contract of sklearn.neighbors.KDTree(points).query(queries, k): for query row a and rank i < k the position
    NN(a,i) of a tree point and its Euclidean distance D(a,i) = |tree[NN(a,i)] - query[a]|, ranks ascending in distance, no tree
    point outside the reported ones is closer than the last reported one"""
    made = []

    def __init__(self, pts, *a, **k):
        self.pts = pts

    def query(self, q, k=1, **kw):
        res = KNNResult(self, q, k)
        KNN.made.append(res)
        return res.dist, res.idx


class KNNResult:
    def __init__(self, tree, q, k):
        cx = ctx()
        u = next(cx.counter)
        self.tree, self.q, self.k = tree, q, k
        self.NN = z3.Function(f"knn_idx!{u}", z3.IntSort(), z3.IntSort(), z3.IntSort())
        self.D = z3.Function(f"knn_dist!{u}", z3.IntSort(), z3.IntSort(), z3.RealSort())
        self.dist = KArr(self, "dist")
        self.idx = KArr(self, "idx")


class KArr(frames._Generic):
    """(n_queries, k) array returned by the k-NN query"""

    def __init__(self, res, what):
        self.res, self.what = res, what

    @property
    def shape(self):
        return (self.res.q.space.n, self.res.k)

    def reshape(self, *a):
        return self

    def __getitem__(self, key):
        r, i = key
        if not (isinstance(r, slice) and r == slice(None)):
            raise Unsupported("k-NN result indexing")
        res = self.res
        sp = res.q.space
        pa = frames.RowPos(sp).val.t
        it = sym.to_z3(i)
        cx = ctx()
        nn = res.NN(pa, it)
        tree_sp = res.tree.pts.space
        # instance of the contract for (this query row, this rank)
        cx.axiom("k-NN query contract instance: 0 <= NN(a,i) < n_tree for 0 <= i < k", z3.Implies(z3.And(it >= 0, it < sym.to_z3(res.k)), z3.And(nn >= 0, nn < sym.to_z3(tree_sp.n))))
        tp = frames._take_rows(res.tree.pts, _posvec(sp, nn, tree_sp))
        d2 = sum(((sym.real(sym.to_z3(x)) - sym.real(sym.to_z3(y))) ** 2 for x, y in zip(tp.vals, res.q.vals)), z3.RealVal(0))
        cx.axiom("k-NN query contract instance: 0 <= NN(a,i) < n_tree, D(a,i) >= 0, D(a,i)^2 = |tree[NN(a,i)] - query[a]|^2",
                 z3.Implies(z3.And(it >= 0, it < sym.to_z3(res.k)), z3.And(nn >= 0, nn < sym.to_z3(tree_sp.n), res.D(pa, it) >= 0, res.D(pa, it) * res.D(pa, it) == d2)))
        if self.what == "idx":
            return _posvec(sp, nn, tree_sp)
        return frames.GVec(SV(res.D(pa, it)), sp)


def _posvec(space, term, target):
    v = frames.GVec(SV(term), space)
    v.target_space = target
    return v


class SN:
    KDTree = KNN


def compare_rotations_stub(r1, r2, c_symmetry=1, rotation_type="all"):
    """callee contract of geom.compare_rotations(..., rotation_type='angular_distance') (C06): the angular distance, determined by
    cos(result) = (trace(R1^T R2) - 1)/2, 0 <= result <= 180"""
    if rotation_type != "angular_distance" or r1.layout != "rows" or r2.layout != "rows":
        raise Unsupported("compare_rotations call form")
    cx = ctx()
    name = f"angdist!{next(cx.counter)}"
    c, s = theory.atom_cs(name)
    d = z3.Real(name)
    T = sum(r1.mats[0][i][j] * r2.mats[0][i][j] for i in range(3) for j in range(3))
    cx.axiom("geom.angular_distance contract (C06): cos(d) = (trace(R1^T R2) - 1)/2, 0 <= d <= 180", z3.And(c == (T - 1) / 2, s >= 0, d >= 0, d <= 180))
    return frames.GVec(SV(d, theory.Ang({name: 1}, 0, "deg")), r1.space)


class GeomStub:
    compare_rotations = staticmethod(compare_rotations_stub)

    @staticmethod
    def visualize_rotations(r, plot_rotations=False, **k):
        return ("points_on_sphere", r)


class Stacked:
    def __init__(self, sl):
        self.sl = sl


class NPX:
    """np with the stacking functions applied to site lists"""

    def __init__(self, base):
        self._b = base

    def __getattr__(self, k):
        return getattr(self._b, k)

    def unique(self, x, **k):
        return _Vals("np.unique", x)

    def isin(self, a, b, **k):
        if isinstance(a, _Vals) or isinstance(b, _Vals):
            return _Vals("isin", (a, b))
        return self._b.isin(a, b, **k)

    def intersect1d(self, a, b, **k):
        return FeatureKeys(a, b)

    def vstack(self, x):
        return Stacked(x) if isinstance(x, kernels.SiteList) else self._b.vstack(x)

    def concatenate(self, x, **k):
        return Stacked(x) if isinstance(x, kernels.SiteList) else self._b.concatenate(x, **k)

    def zeros(self, shape, **k):
        return ("zeros", shape)


def _interp(feature, holder):
    g = common.base_globals()
    it = Interp("nnana", g)

    class MotlModel:
        def __init__(self, prefix):
            self.prefix = prefix
            self.df = _DfStub()

        def get_motl_subset(self, f, feature_id="tomo_id", **k):
            if feature_id != feature:
                raise Unsupported("subset by another feature")
            s = SubMotl(it, self.prefix, f, feature_id)
            holder.setdefault("subs", {})[self.prefix] = s
            return s

        def get_unique_values(self, feature_id):
            """assumed contract of Motl.get_unique_values (Series.unique): the distinct values in order of first appearance, not sorted"""
            return _Vals("pd.unique", (self.df, feature_id))

    class _DfStub:
        asked = None

        @property
        def loc(self):
            return self

        def __getitem__(self, k):
            self.asked = k
            return self

        @property
        def values(self):
            return self

    class SrotX(rotm.Rot):
        pass

    class Concat(tuple):
        def as_euler(self, seq, degrees=False):
            return ("euler_angles_of", self)

    def concat(rs):
        return Concat(("concatenated_rotations", rs))

    Srot = type("Srot", (), {"from_euler": staticmethod(lambda seq, angles=None, degrees=False: rotm.Rot.from_euler(seq, angles, degrees)), "concatenate": staticmethod(concat)})
    class PdX:
        """pd.unique keeps the order of first appearance (unlike np.unique, which sorts)"""
        @staticmethod
        def unique(x, **k):
            return _Vals("pd.unique", x)

    it.globals.update({"np": NPX(g["np"]), "sn": SN, "geom": GeomStub, "srot": Srot, "cryomotl": None, "pd": PdX})
    return it, MotlModel


def _same_tomogram_order(inp):
    """get_nn_stats stacks the blocks of get_nn_distances and get_nn_rotations row by row: both must visit the tomograms in the same order, namely the
    sorted values shared by the two lists  np.intersect1d(np.unique(a[feature]), np.unique(b[feature]))"""
    fk = FeatureKeys.made[-1] if FeatureKeys.made else None
    ok = (fk is not None and all(isinstance(x, _Vals) and x.kind == "np.unique" for x in fk.args) and fk.args[0].args is inp["a"].df and fk.args[1].args is inp["b"].df
          and inp["a"].df.asked == (slice(None), "tomo_id") and inp["b"].df.asked == (slice(None), "tomo_id"))
    return ("tomograms_visited_in_the_sorted_order_of_the_values_shared_by_both_lists", z3.BoolVal(bool(ok)))


class NNDistances(Contract):
    prop = "C18"
    module = "nnana"
    qual = "get_nn_distances"

    def bind(self, cx, cfg):
        holder = {}
        it, MotlModel = _interp("tomo_id", holder)
        KNN.made = []
        FeatureKeys.made.clear()
        a, b = MotlModel("a_"), MotlModel("b_")
        p = SV(z3.Real("pixel_size"))
        k = SV(z3.Int("nn_number"))
        cx.assume(z3.And(p.t > 0, k.t >= 1))
        f = it.function("get_nn_distances")
        return (lambda: f(a, b, pixel_size=p, nn_number=k, feature="tomo_id", rotation_type="angular_distance")), {"holder": holder, "p": p, "k": k, "a": a, "b": b}

    def post(self, cx, cfg, inp, res):
        names = ["centered_coord", "rotated_coord", "nn_dist", "angular_distances", "subtomo_idx", "subtomo_idx_nn"]
        if isinstance(res, tuple) and len(res) == 6 and all(isinstance(x, tuple) and x[0] == "zeros" and (x[1][0] if isinstance(x[1], tuple) else x[1]) == 0 for x in res):
            return [("empty_arrays_when_nothing_was_collected", z3.BoolVal(True))]
        cl = [("returns_six_stacked_lists", z3.BoolVal(isinstance(res, tuple) and len(res) == 6 and all(isinstance(x, Stacked) for x in res))), _same_tomogram_order(inp)]
        if not (isinstance(res, tuple) and len(res) == 6 and all(isinstance(x, Stacked) for x in res)):
            return cl
        subs = inp["holder"].get("subs", {})
        if "a_" not in subs or "b_" not in subs or not KNN.made:
            return cl + [("per_tomogram_subsets_and_knn_used", z3.BoolVal(False))]
        A, B, knn = subs["a_"], subs["b_"], KNN.made[-1]
        p = inp["p"].t
        lists = dict(zip(names, [x.sl for x in res]))
        n_sites = {n: len(l.sites) for n, l in lists.items()}
        cl.append(("one_append_site_per_output_list", z3.BoolVal(all(v == 1 for v in n_sites.values()))))
        if not all(v == 1 for v in n_sites.values()):
            return cl
        pa = frames.RowPos(A.space).val.t
        pb = frames.RowPos(B.space).val.t
        Fa = lambda c, q: z3.Function(f"a_{c}", z3.IntSort(), z3.RealSort())(q)
        Fb = lambda c, q: z3.Function(f"b_{c}", z3.IntSort(), z3.RealSort())(q)
        # the loop-local rank symbol: take it from the facts of the site (the range loop's variable i)
        site = lists["centered_coord"].sites[0]
        rank = _loop_var(site.facts, "i")
        nb = knn.NN(pa, rank)
        posa = [Fa(a, pa) + Fa("shift_" + a, pa) for a in XYZ]
        posb = [Fb(a, nb) + Fb("shift_" + a, nb) for a in XYZ]
        off = [p * (posb[k] - posa[k]) for k in range(3)]
        hy = lambda st: list(st.facts)
        cc, rc, nd, ad, si, sn_ = (lists[n].sites[0] for n in names)
        cl += [(f"offset_is_pixel_times_position_difference_{a}", zr(cc.value.vals[k]) == off[k], ("poly", "linear"), hy(cc)) for k, a in enumerate(XYZ)]
        d = zr(nd.value.val)
        cl.append(("distance_is_pixel_times_euclidean_distance", z3.And(d >= 0, d * d == sum(o * o for o in off)), ("poly", "linear"), hy(nd)))
        # particle-frame offset = R_a^T offset, with R_a = Rz(psi) Rx(theta) Rz(phi) stated independently
        ang = [SV(Fa(c, pa)) for c in ("phi", "theta", "psi")]
        Ra = common.R_zxz(*[common.cs_of(x) for x in ang])
        for i_, a in enumerate(XYZ):
            cl.append((f"particle_frame_offset_is_inverse_orientation_applied_{a}", zr(rc.value.vals[i_]) == sum(Ra[k][i_] * off[k] for k in range(3)), ("poly", "linear"), hy(rc)))
        angb = [SV(Fb(c, nb)) for c in ("phi", "theta", "psi")]
        Rb = common.R_zxz(*[common.cs_of(x) for x in angb])
        T = sum(Ra[i][j] * Rb[i][j] for i in range(3) for j in range(3))
        cl.append(("angular_distance_between_query_and_its_neighbour", z3.And(theory.cs_any(ad.value.val, True)[0] == (T - 1) / 2, zr(ad.value.val) >= 0, zr(ad.value.val) <= 180), ("poly", "linear"), hy(ad)))
        cl.append(("query_id_reported", zr(si.value.val) == Fa("subtomo_id", pa), (), hy(si)))
        cl.append(("neighbour_id_reported", zr(sn_.value.val) == Fb("subtomo_id", nb), (), hy(sn_)))
        cl.append(("neighbour_from_the_same_tomogram", Fa("tomo_id", pa) == Fb("tomo_id", nb), (), hy(sn_)))
        cl.append(("rank_below_min_k_size", z3.And(rank >= 0, rank < inp["k"].t, rank < B.space.n.t), (), hy(sn_)))
        return cl

    def replay(self, clause, model, cfg):
        from rtc import c18 as r
        return r.replay_small()


def _loop_var(facts, name):
    import re
    for f in facts:
        m = re.search(r"(?<![A-Za-z0-9_!])(" + name + r"![0-9]+)(?![0-9])", f.sexpr())
        if m:
            return z3.Int(m.group(1))
    raise Unsupported("loop variable not found in site facts")


class NNRotations(Contract):
    prop = "C18"
    module = "nnana"
    qual = "get_nn_rotations"

    def bind(self, cx, cfg):
        holder = {}
        it, MotlModel = _interp("tomo_id", holder)
        KNN.made = []
        FeatureKeys.made.clear()
        a, b = MotlModel("a_"), MotlModel("b_")
        k = SV(z3.Int("nn_number"))
        cx.assume(k.t >= 1)
        f = it.function("get_nn_rotations")
        return (lambda: f(a, b, nn_number=k, feature="tomo_id")), {"holder": holder, "k": k, "a": a, "b": b}

    def post(self, cx, cfg, inp, res):
        if isinstance(res, tuple) and len(res) == 2 and all(isinstance(x, tuple) and x[0] == "zeros" for x in res):
            return [("empty_arrays_when_nothing_was_collected", z3.BoolVal(True))]
        ok = isinstance(res, tuple) and len(res) == 2 and isinstance(res[0], tuple) and res[0][0] == "points_on_sphere"
        cl = [("result_built_from_concatenated_relative_rotations", z3.BoolVal(bool(ok))), _same_tomogram_order(inp)]
        if not ok:
            return cl
        conc = res[0][1]
        if not (isinstance(conc, tuple) and conc[0] == "concatenated_rotations" and isinstance(conc[1], kernels.SiteList) and len(conc[1].sites) == 1):
            return cl + [("one_append_site", z3.BoolVal(False))]
        site = conc[1].sites[0]
        subs = inp["holder"]["subs"]
        A, B, knn = subs["a_"], subs["b_"], KNN.made[-1]
        pa = frames.RowPos(A.space).val.t
        rank = _loop_var(site.facts, "i")
        nb = knn.NN(pa, rank)
        Fa = lambda c, q: z3.Function(f"a_{c}", z3.IntSort(), z3.RealSort())(q)
        Fb = lambda c, q: z3.Function(f"b_{c}", z3.IntSort(), z3.RealSort())(q)
        Ra = common.R_zxz(*[common.cs_of(SV(Fa(c, pa))) for c in ("phi", "theta", "psi")])
        Rb = common.R_zxz(*[common.cs_of(SV(Fb(c, nb))) for c in ("phi", "theta", "psi")])
        M = site.value.mats[0]
        for i in range(3):
            for j in range(3):
                cl.append((f"relative_orientation_is_Ra_inverse_Rb_{i}{j}", M[i][j] == sum(Ra[k][i] * Rb[k][j] for k in range(3)), ("poly", "linear"), list(site.facts)))
        return cl


class NNStats(Contract):
    """get_nn_stats: the 16 numeric columns of the result are, row by row, the values returned by get_nn_distances and get_nn_rotations (used
    through their contracts, which also say that both list their rows in the same order) under the documented column names, plus type = 'nn'"""
    prop = "C18"
    module = "nnana"
    qual = "get_nn_stats"

    def bind(self, cx, cfg):
        sp = frames.Space(tag="pairs")
        vec = lambda n: frames.GVec(SV(z3.Real(n)), sp)
        arr = lambda n: frames.RowArr([SV(z3.Real(f"{n}_{a}")) for a in "xyz"], sp)
        vals = {"centered": arr("centered"), "rotated": arr("rotated"), "dist": vec("nn_dist"), "ang": vec("ang_dst"), "ida": vec("subtomo_idx"), "idn": vec("subtomo_idx_nn"),
                "rot": arr("coord_rot"), "eul": arr("angles")}
        calls = []

        def dist_stub(a, b, **k):
            calls.append(("distances", a, b, k))
            return vals["centered"], vals["rotated"], vals["dist"], vals["ang"], vals["ida"], vals["idn"]

        def rot_stub(a, b, **k):
            calls.append(("rotations", a, b, k))
            return vals["rot"], vals["eul"]
        g = common.base_globals()
        it = Interp("nnana", g, contracts={"get_nn_distances": dist_stub, "get_nn_rotations": rot_stub})
        f = it.function("get_nn_stats")
        p, k = SV(z3.Real("pixel_size")), SV(z3.Int("nn_number"))
        return (lambda: f("motl_a", "motl_nn", pixel_size=p, feature_id="tomo_id", nn_number=k, rotation_type="angular_distance")), {"vals": vals, "calls": calls, "p": p, "k": k}

    def post(self, cx, cfg, inp, res):
        v, calls = inp["vals"], inp["calls"]
        ok = isinstance(res, frames.GFrame)
        cl = [("returns_a_table", z3.BoolVal(bool(ok)))]
        c_ok = (len(calls) >= 2 and calls[-2][0] == "distances" and calls[-1][0] == "rotations" and all(c[1] == "motl_a" and c[2] == "motl_nn" for c in calls[-2:])
                and calls[-2][3].get("pixel_size") is inp["p"] and calls[-2][3].get("nn_number") is inp["k"] and calls[-1][3].get("nn_number") is inp["k"]
                and calls[-2][3].get("feature") == "tomo_id" and calls[-1][3].get("feature") == "tomo_id" and calls[-2][3].get("rotation_type") == "angular_distance")
        cl.append(("both_helpers_called_with_the_same_lists_grouping_field_and_neighbour_count", z3.BoolVal(bool(c_ok))))
        if not ok:
            return cl
        names = ["distance", "coord_x", "coord_y", "coord_z", "coord_rx", "coord_ry", "coord_rz", "angular_distance", "rot_x", "rot_y", "rot_z", "phi", "theta", "psi", "subtomo_idx", "subtomo_nn_idx"]
        want = [v["dist"].val] + v["centered"].vals + v["rotated"].vals + [v["ang"].val] + v["rot"].vals + v["eul"].vals + [v["ida"].val, v["idn"].val]
        cl.append(("columns_named_as_documented", z3.BoolVal(list(res.cols) == names + ["type"])))
        if list(res.cols) != names + ["type"]:
            return cl
        for nme, w in zip(names, want):
            cl.append((f"column_{nme}_holds_the_helpers_value_of_the_same_row", zr(res.row[nme]) == zr(w), ()))
        cl.append(("type_is_nn", z3.BoolVal(res.row["type"] == "nn")))
        cl.append(("one_row_per_reported_pair", z3.simplify(sym.to_bool(res.present)) == z3.BoolVal(True), ()))
        return cl

    def replay(self, clause, model, cfg):
        from rtc import c18 as r
        return r.replay_small()


CONTRACTS = [NNDistances, NNRotations, NNStats]
LEVEL = "proof"
EXPLANATION = ("For the generic (tomogram, query particle, neighbour rank) the values appended by get_nn_distances / get_nn_rotations are proved to be: offset = pixel x (neighbour - query) on complete positions, "
               "distance = pixel x Euclidean distance, particle-frame offset = inverse orientation applied to the offset, angular distance of the pair (callee contract from C06), relative orientation "
               "R_a^-1 R_b, the two subtomogram numbers, same tomogram only, rank < min(k, size); both functions visit the tomograms in the sorted order of the values shared by the two lists (np.intersect1d of np.unique), which is what lets get_nn_stats stack their blocks row by row; get_nn_stats itself is proved to put the helpers' values of the same row under the documented 16 column names (plus type = 'nn'). 'The k closest, ascending' is the assumed KD-tree contract, compared with brute force in the bounded "
               "stand-in; invariance under rigid motion is a lemma over the postconditions plus the bounded check.")
ASSUMPTIONS = ["sklearn KDTree.query contract (k nearest, ascending, distance of the reported neighbour); get_motl_subset contract (C08); geom.compare_rotations contract (C06); scipy Rotation contract",
               "assembly of the table in get_nn_stats: np.hstack / reshape(n,1) / pd.DataFrame(array, columns=...) contracts (columns side by side, rows aligned)"]


def lemmas(ck):
    Q = [[z3.Real(f"Q{i}{j}") for j in range(3)] for i in range(3)]
    R = [[z3.Real(f"R{i}{j}") for j in range(3)] for i in range(3)]
    S = [[z3.Real(f"S{i}{j}") for j in range(3)] for i in range(3)]
    d = [z3.Real(f"d{i}") for i in range(3)]
    ortho = [sum(Q[k][i] * Q[k][j] for k in range(3)) == (1 if i == j else 0) for i in range(3) for j in range(3)]
    mm = lambda A, B: [[sum(A[i][k] * B[k][j] for k in range(3)) for j in range(3)] for i in range(3)]
    T = lambda A: [[A[j][i] for j in range(3)] for i in range(3)]
    mv = lambda A, v: [sum(A[i][k] * v[k] for k in range(3)) for i in range(3)]
    QR, QS, Qd = mm(Q, R), mm(Q, S), mv(Q, d)
    ck.lemma("rigid_motion_keeps_distance", ortho, sum(x * x for x in Qd) == sum(x * x for x in d), tactics=("lift",))
    lhs, rhs = mv(T(QR), Qd), mv(T(R), d)
    ck.lemma("rigid_motion_keeps_particle_frame_offset", ortho, z3.And(*[lhs[i] == rhs[i] for i in range(3)]), tactics=("lift",), note="(QR)^T (Q d) = R^T d")
    L, Rr = mm(T(QR), QS), mm(T(R), S)
    ck.lemma("rigid_motion_keeps_relative_orientation", ortho, z3.And(*[L[i][j] == Rr[i][j] for i in range(3) for j in range(3)]), tactics=("lift",), note="(QR)^T (QS) = R^T S; the angular distance is a function of its trace")


def run(ck):
    for C in CONTRACTS:
        ck.run_contract(C())
    lemmas(ck)
    from rtc import c18 as r
    n = 40 if ck.tier == "quick" else 800
    ck.bounded_run("nn_vs_brute_force", r.gen_cases(ck.seed, n), r.run_case, ref="rtc.c18:run_case",
                   rule="pairs of lists (1..200 particles, 1..4 tomograms, plain / disjoint / partly disjoint / coincident, non-zero shifts) x k in 1..5 x pixel size; every reported row compared with a brute-force neighbour search "
                        "(ties excluded); re-run after a random rigid motion of all positions and orientations. distinct = (case, mode, sizes)",
                   bound=f"{n} cases, <= 200 particles")
