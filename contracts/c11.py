"""C11 -- map files: axis / dtype / option data-flow of cryomap.read, write, em2mrc, mrc2em, invert_contrast over a generic-voxel
model with assumed contracts of mrcfile / emfile (deductive); bytes on disk by independent MRC / EM header parsers (bounded)."""
import z3
from vfw import sym
from vfw.sym import SV, SB, ctx, Unsupported
from vfw.engine import Contract
from vfw.interp import Interp
from vfw.models import voxels, frames
from vfw.models.voxels import V
from . import common
from .common import zr


class Files:
    """assumed contracts: mrcfile.write(name, data, overwrite) / emfile.write(path, data, overwrite) store `data` (array axes
    (z,y,x): header nx,ny,nz = shape[2],shape[1],shape[0], x fastest) and refuse to overwrite when overwrite is false;
    mrcfile.open(path).data / emfile.read(path)[1] return the stored array"""

    def __init__(self, stored=None):
        self.writes = []
        self.stored = stored

    def mrc_write(self, name=None, data=None, overwrite=False, **k):
        self.writes.append(("mrcfile", name, data, overwrite))

    def em_write(self, path, data=None, header_params=None, overwrite=False, **k):
        self.writes.append(("emfile", path, data, overwrite))

    def mrc_open(self, path, *a, **k):
        files = self

        class H:
            data = files.stored
        self.opened = ("mrcfile", path)
        return H()

    def em_read(self, path):
        self.opened = ("emfile", path)
        return ({}, self.stored)


def _interp(files):
    class Mrc:
        write = staticmethod(files.mrc_write)
        open = staticmethod(files.mrc_open)

    class Em:
        write = staticmethod(files.em_write)
        read = staticmethod(files.em_read)

    g = common.base_globals()
    g.update({"mrcfile": Mrc, "emfile": Em, "fft": voxels.FFT})
    return Interp("cryomap", g)


def _size(cx):
    size = [SV(z3.Int(n)) for n in ("X", "Y", "Z")]
    for s in size:
        cx.assume(s.t >= 1)
    return size


def _inb(shape):
    return z3.And(*[z3.And(V(a) >= 0, V(a) < voxels._size_t(s)) for a, s in enumerate(shape)])


EXT_WRITER = {".mrc": "mrcfile", ".rec": "mrcfile", ".em": "emfile"}


class Write(Contract):
    prop = "C11"
    module = "cryomap"
    qual = "write"
    configs = [{"ext": e, "transpose": t, "dtype": d, "data_type": dt} for e in (".mrc", ".rec", ".em") for t in (True, False)
               for d, dt in (("float64", None), ("float32", None), ("int16", None), ("float64", "float32"), ("float32", "int16"))] + [{"ext": ".tif", "transpose": True, "dtype": "float32", "data_type": None}]

    def cfg_name(self, cfg):
        return f"{cfg['ext']},transpose={cfg['transpose']},{cfg['dtype']}->{cfg['data_type']}"

    def bind(self, cx, cfg):
        files = Files()
        it = _interp(files)
        size = _size(cx)
        d = voxels.input_array("data", list(size), cfg["dtype"])
        ow = SB(z3.Bool("overwrite"))
        import numpy as np
        dt = None if cfg["data_type"] is None else getattr(np, cfg["data_type"])
        return (lambda: it.function("write")(d, "out/file" + cfg["ext"], transpose=cfg["transpose"], data_type=dt, overwrite=ow)), {"files": files, "size": size, "d": d, "orig": d.elem.t}

    def post(self, cx, cfg, inp, res):
        w = inp["files"].writes
        cl = [("writes_exactly_once_with_the_writer_of_the_extension", z3.BoolVal(len(w) == 1 and w[0][0] == EXT_WRITER.get(cfg["ext"]) and w[0][1] == "out/file" + cfg["ext"]))]
        if len(w) != 1:
            return cl
        _, _, W, ow = w[0]
        size = inp["size"]
        exp_shape = list(reversed(size)) if cfg["transpose"] else list(size)
        hy = [_inb(exp_shape)]
        cl.append(("file_axes", z3.And(*[voxels._size_t(a) == voxels._size_t(b) for a, b in zip(W.shape_, exp_shape)]), (), hy))
        fn = inp["d"].fn
        src = fn(V(2), V(1), V(0)) if cfg["transpose"] else fn(V(0), V(1), V(2))  # file[k,j,i] = data[i,j,k]
        final = cfg["data_type"] or cfg["dtype"]
        if final == "float64":
            final = "float32"  # float64 is narrowed
        val = src
        if cfg["data_type"] in ("int16", "int8"):
            val = z3.ToReal(z3.If(src >= 0, z3.ToInt(src), -z3.ToInt(-src)))
        if final == "float32" and cfg["dtype"] != "float32":
            val = frames.F32(val)
        cl.append(("file_voxel_kji_is_data_voxel_ijk", zr(W.elem) == val, (), hy))
        cl.append(("file_dtype", z3.BoolVal(W.dtype_ == final)))
        cl.append(("overwrite_flag_reaches_writer", z3.BoolVal(isinstance(ow, SB) and ow.t.eq(z3.Bool("overwrite")))))
        cl.append(("frame.data_not_mutated", z3.BoolVal(bool(inp["d"].elem.t.eq(inp["orig"])))))
        return cl

    def raises(self, cx, cfg, inp, exc):
        return z3.BoolVal(cfg["ext"] not in EXT_WRITER and exc.exc_type == "ValueError")

    def replay(self, clause, model, cfg):
        from rtc import c11 as r
        return r.replay_roundtrip(cfg)


class Read(Contract):
    prop = "C11"
    module = "cryomap"
    qual = "read"
    configs = [{"ext": e, "transpose": t} for e in (".mrc", ".rec", ".em", ".st", ".mrc.1") for t in (True, False)] + [{"ext": ".png", "transpose": True}, {"ext": "array", "transpose": True}]

    def cfg_name(self, cfg):
        return f"{cfg['ext']},transpose={cfg['transpose']}"

    def bind(self, cx, cfg):
        size = _size(cx)
        stored = voxels.input_array("file", [size[2], size[1], size[0]], "float32")  # (nz, ny, nx)
        files = Files(stored)
        it = _interp(files)
        arg = stored if cfg["ext"] == "array" else "in/file" + cfg["ext"]
        return (lambda: it.function("read")(arg, transpose=cfg["transpose"])), {"files": files, "size": size, "stored": stored}

    def post(self, cx, cfg, inp, res):
        size, fn = inp["size"], inp["stored"].fn
        if cfg["ext"] == ".png":
            return [("unknown_extension_rejected", z3.BoolVal(False))]
        if cfg["ext"] == "array":
            hy = [_inb(res.shape_)]
            return [("array_input_copied", z3.BoolVal(res is not inp["stored"])), ("array_voxels_unchanged", zr(res.elem) == fn(V(0), V(1), V(2)), (), hy)]
        reader = "emfile" if cfg["ext"] == ".em" else "mrcfile"
        exp_shape = list(size) if cfg["transpose"] else [size[2], size[1], size[0]]
        hy = [_inb(exp_shape)]
        src = fn(V(2), V(1), V(0)) if cfg["transpose"] else fn(V(0), V(1), V(2))
        return [("reader_of_the_extension", z3.BoolVal(getattr(inp["files"], "opened", (None,))[0] == reader)),
                ("shape_xyz", z3.And(*[voxels._size_t(a) == voxels._size_t(b) for a, b in zip(res.shape_, exp_shape)]), (), hy),
                ("voxel_ijk_is_file_voxel_kji", zr(res.elem) == src, (), hy),
                ("returns_a_copy", z3.BoolVal(res is not inp["stored"]))]

    def raises(self, cx, cfg, inp, exc):
        return z3.BoolVal(cfg["ext"] == ".png" and exc.exc_type == "ValueError")


class _Convert(Contract):
    prop = "C11"
    module = "cryomap"
    src_ext = dst_ext = None
    configs = [{"invert": i, "name": n} for i in (False, True) for n in ("default", "explicit", "bad-output", "bad-input")]

    def cfg_name(self, cfg):
        return f"invert={cfg['invert']},{cfg['name']}"

    def bind(self, cx, cfg):
        size = _size(cx)
        stored = voxels.input_array("file", [size[2], size[1], size[0]], "float32")
        files = Files(stored)
        it = _interp(files)
        ow = SB(z3.Bool("overwrite"))
        inp_name = "dir.v1/map" + (self.src_ext if cfg["name"] != "bad-input" else ".txt")
        out = {"default": None, "explicit": "other/name" + self.dst_ext, "bad-output": "other/name.xyz", "bad-input": None}[cfg["name"]]
        return (lambda: it.function(self.qual)(inp_name, invert=cfg["invert"], overwrite=ow, output_name=out)), {"files": files, "size": size, "stored": stored, "in": inp_name, "out": out}

    def post(self, cx, cfg, inp, res):
        if cfg["name"].startswith("bad"):
            return [("wrong_extension_rejected", z3.BoolVal(False))]
        w = inp["files"].writes
        exp_name = inp["out"] if inp["out"] is not None else "dir.v1/map" + self.dst_ext
        cl = [("one_write_with_the_right_writer_and_name", z3.BoolVal(len(w) == 1 and w[0][0] == EXT_WRITER[self.dst_ext] and w[0][1] == exp_name),)]
        if len(w) != 1:
            return cl
        _, _, W, ow = w[0]
        size, fn = inp["size"], inp["stored"].fn
        hy = [_inb([size[2], size[1], size[0]])]
        src = fn(V(0), V(1), V(2))
        cl.append(("file_axes_preserved", z3.And(*[voxels._size_t(a) == voxels._size_t(b) for a, b in zip(W.shape_, [size[2], size[1], size[0]])]), (), hy))
        cl.append(("every_voxel_preserved_or_negated", zr(W.elem) == (-src if cfg["invert"] else src), (), hy))
        cl.append(("overwrite_flag_reaches_writer", z3.BoolVal(isinstance(ow, SB) and ow.t.eq(z3.Bool("overwrite")))))
        return cl

    def raises(self, cx, cfg, inp, exc):
        return z3.BoolVal(cfg["name"].startswith("bad") and exc.exc_type == "ValueError")


class Em2Mrc(_Convert):
    qual, src_ext, dst_ext = "em2mrc", ".em", ".mrc"


class Mrc2Em(_Convert):
    qual, src_ext, dst_ext = "mrc2em", ".mrc", ".em"


CONTRACTS = [Write, Read, Em2Mrc, Mrc2Em]
LEVEL = "proof"
EXPLANATION = ("write hands the library an array W with W[k,j,i] = narrow(data[i,j,k]) (float64 -> float32, requested casts), axes (z,y,x), the writer chosen by the extension and the overwrite flag unchanged; "
               "read returns data[i,j,k] = file[k,j,i] as a copy with the reader chosen by the extension; hence read(write(d)) = narrow(d) for .mrc/.rec/.em and for transpose=False on both sides; em2mrc / mrc2em "
               "preserve or negate every voxel, derive default names by replacing exactly the extension, reject wrong extensions and forward overwrite. Header bytes / x-fastest layout: independent parsers, bounded.")
ASSUMPTIONS = ["mrcfile / emfile contracts (see Files): stored array axes (z,y,x) with header nx,ny,nz = shape[2],shape[1],shape[0]; writers refuse to overwrite when the flag is false -- checked bounded against independent header parsers",
               "integer casts truncate toward zero and do not overflow; float32 narrowing is the uninterpreted f32"]


def lemmas(ck):
    F = z3.Function("d", z3.IntSort(), z3.IntSort(), z3.IntSort(), z3.RealSort())
    i, j, k = z3.Ints("i j k")
    W = lambda a, b, c: frames.F32(F(c, b, a))  # written file (transpose=True): W[k,j,i] = f32(d[i,j,k])
    ck.lemma("read_after_write_is_narrowed_data", [], W(k, j, i) == frames.F32(F(i, j, k)), tactics=(), note="read gives data'[i,j,k] = file[k,j,i] = f32(d[i,j,k]) by the two contracts")


def run(ck):
    for C in CONTRACTS:
        ck.run_contract(C())
    lemmas(ck)
    from rtc import c11 as r
    n = 60 if ck.tier == "quick" else 1200
    ck.bounded_run("map_files", r.gen_cases(ck.seed, n, 12 if ck.tier == "quick" else 48), r.run_case, ref="rtc.c11:run_case",
                   rule="arrays with independent x,y,z sizes 1..N (non-cubic), dtypes float32/float64/int16/int8, data_type and transpose options, extensions .mrc/.rec/.em, invert on/off, default and explicit names, overwrite on/off; "
                        "written bytes parsed by independent MRC/EM header parsers. distinct = (case, extension, shape, dtype)",
                   bound=f"{n} cases, sizes <= {12 if ck.tier == 'quick' else 48}")
