"""shared bindings for the contracts: interpreter environments per cryocat module, generic motl tables"""
import z3
from vfw import sym, theory
from vfw.sym import SV, SB, ctx
from vfw.interp import Interp, Module
from vfw.models import frames, npm, rot as rotm, misc

MOTL_COLS = ["score", "geom1", "geom2", "subtomo_id", "tomo_id", "object_id", "subtomo_mean", "x", "y", "z",
             "shift_x", "shift_y", "shift_z", "geom3", "geom4", "geom5", "phi", "psi", "theta", "class"]
ANGLE_COLS = ("phi", "theta", "psi")


class UserInputError(Exception):
    pass


def base_globals():
    return {
        "np": npm.NP(), "pd": misc.PD(), "rot": rotm.Rot, "srot": rotm.Rot, "R": rotm.Rot, "Rotation": rotm.Rot,
        "decimal": misc.DecimalNS, "copy": misc.CopyNS, "warnings": misc.WarningsNS, "math": misc.MathNS,
        "ceil": misc.MathNS.ceil, "floor": misc.MathNS.floor, "re": misc.ReNS(), "UserInputError": UserInputError,
    }


def motl_interp(extra=None, contracts=None):
    g = base_globals()
    it = Interp("cryomotl", g, contracts=contracts or {})
    for cls in ("Motl", "EmMotl", "RelionMotl", "StopgapMotl", "DynamoMotl", "ModMotl"):
        it.globals[cls] = misc.ClassRef(it, cls)
    if extra:
        it.globals.update(extra)
    return it


def fresh_motl_frame(prefix="", angles=True, nan_free=True, perm=None, int_cols=()):
    """generic 20-field table; phi/theta/psi are angle inputs (degrees)"""
    cx = ctx()
    sp = frames.Space(tag=prefix)
    row = {}
    for c in MOTL_COLS:
        if angles and c in ANGLE_COLS:
            row[c] = theory.angle_input(prefix + c)
        elif c in int_cols:
            row[c] = SV(z3.ToReal(z3.Int(prefix + c)))
        else:
            row[c] = SV(z3.Real(prefix + c))
        if nan_free:
            cx.assume(z3.Not(frames.ISNAN(row[c].t)))
    return frames.GFrame(MOTL_COLS, row, sp, perm=perm)


def motl_obj(it, df, cls="Motl"):
    return misc.SelfObj(it, cls, df=df)


def old_row(prefix=""):
    """the input values of the generic row as z3 reals (same names as fresh_motl_frame)"""
    return {c: z3.Real(prefix + c) for c in MOTL_COLS}


def zr(x):
    """z3 real term of a value"""
    return sym.real(sym.to_z3(x))


def R_zxz(phi_cs, theta_cs, psi_cs):
    """orientation matrix of zxz Euler angles (phi,theta,psi): R = Rz(psi) Rx(theta) Rz(phi) -- stated independently
    of the scipy model"""
    (cf, sf), (ct, st), (cp, sp) = phi_cs, theta_cs, psi_cs
    Rz = lambda c, s: [[c, -s, 0], [s, c, 0], [0, 0, 1]]
    Rx = lambda c, s: [[1, 0, 0], [0, c, -s], [0, s, c]]
    mm = lambda A, B: [[sum(A[i][k] * B[k][j] for k in range(3)) for j in range(3)] for i in range(3)]
    return mm(Rz(cp, sp), mm(Rx(ct, st), Rz(cf, sf)))


def cs_of(v):
    """(cos, sin) polynomial of an angle-valued SV given in degrees"""
    return theory.cs_any(v, True)


def mat_eq(A, B):
    return [A[i][j] == B[i][j] for i in range(3) for j in range(3)]


def geom_interp(extra=None, contracts=None):
    g = base_globals()
    it = Interp("geom", g, contracts=contracts or {})
    it.globals["ANGLE_DEGREES_TOL"] = it.mod.global_literal("ANGLE_DEGREES_TOL") if _has_global(it, "ANGLE_DEGREES_TOL") else 1e-11
    if extra:
        it.globals.update(extra)
    return it


def _has_global(it, name):
    try:
        it.mod.global_literal(name)
        return True
    except Exception:
        return False


def mask_interp(extra=None):
    from vfw.models import voxels
    g = base_globals()
    it = Interp("cryomask", g)
    if extra:
        it.globals.update(extra)
    return it
