"""C03 -- RELION <-> cryoCAT conversion.  Deductive: angle algebra in both directions, shifts, coordinates, class / tomogram
copy and half-set parity of create_relion_df (numeric names), round-trip lemma.  Bounded: name formats ($xxx/$yyy), regex
parsing of names, half-set renumbering loop, the via-file path."""
import z3
from vfw import sym, theory
from vfw.sym import SV, SB, ctx
from vfw.engine import Contract
from vfw.models import kernels, frames, misc
from . import common
from .common import MOTL_COLS, zr

XYZ = ("x", "y", "z")
VERSIONS = [3.0, 3.1, 4.0]


def _Rz(c, s):
    return [[c, -s, 0], [s, c, 0], [0, 0, 1]]


def _Ry(c, s):
    return [[c, 0, s], [0, 1, 0], [-s, 0, c]]


def _mm(A, B):
    return [[sum(A[i][k] * B[k][j] for k in range(3)) for j in range(3)] for i in range(3)]


def relion_matrix(rot, tilt, psi):
    """rotation denoted by RELION's ZYZ angles (rot, tilt, psi), written out independently of the scipy model:
    Rz(rot) * Ry(tilt) * Rz(psi)"""
    return _mm(_Rz(*common.cs_of(rot)), _mm(_Ry(*common.cs_of(tilt)), _Rz(*common.cs_of(psi))))


def _relion_self(it, version, df, pixel=None, binning=None, relion_df=None):
    me = misc.SelfObj(it, "RelionMotl", df=df, version=version, pixel_size=pixel, binning=binning, relion_df=relion_df, optics_data=None)
    names = it.function("RelionMotl.get_version_specific_names")(version)
    me.tomo_id_name, me.subtomo_id_name, me.shifts_id_names, me.data_spec = names
    return me


class AnglesToRelion(Contract):
    prop = "C03"
    module = "cryomotl"
    qual = "RelionMotl.convert_angles_to_relion"

    def bind(self, cx, cfg):
        it = common.motl_interp()
        df = common.fresh_motl_frame()
        me = _relion_self(it, 3.1, df)
        rdf = frames.fresh_frame(["rlnAngleRot", "rlnAngleTilt", "rlnAnglePsi", "rlnCoordinateX"], "in_", space=df.space)
        return (lambda: it.function("RelionMotl.convert_angles_to_relion").bind(me)(rdf)), {"me": me, "rdf": rdf, "old": common.old_row()}

    def post(self, cx, cfg, inp, res):
        phi, the, psi = (theory.angle_input(n) for n in ("phi", "theta", "psi"))
        R = common.R_zxz(common.cs_of(phi), common.cs_of(the), common.cs_of(psi))
        A = relion_matrix(res.row["rlnAngleRot"], res.row["rlnAngleTilt"], res.row["rlnAnglePsi"])
        cl = [(f"relion_rotation_is_inverse_{i}{j}", A[i][j] == R[j][i]) for i in range(3) for j in range(3)]
        cl.append(("frame.motl_untouched", z3.And(*[zr(inp["me"].df.row[c]) == inp["old"][c] for c in MOTL_COLS])))
        cl.append(("frame.other_relion_columns", zr(res.row["rlnCoordinateX"]) == z3.Real("in_rlnCoordinateX")))
        return cl

    def replay(self, clause, model, cfg):
        from rtc import c03 as r
        return r.replay_angles_to(model)


class AnglesFromRelion(Contract):
    prop = "C03"
    module = "cryomotl"
    qual = "RelionMotl.convert_angles_from_relion"
    # STAR columns are identified by label: the three angle columns alone in RELION's usual order, and among other columns in another order
    configs = [{"columns": "angles only"}, {"columns": "psi first, among other columns"}]

    def cfg_name(self, cfg):
        return "" if cfg["columns"] == "angles only" else cfg["columns"]

    def bind(self, cx, cfg):
        it = common.motl_interp()
        df = common.fresh_motl_frame()
        me = _relion_self(it, 3.1, df)
        ang = {n: theory.angle_input(n) for n in ("rlnAngleRot", "rlnAngleTilt", "rlnAnglePsi")}
        if cfg["columns"] == "angles only":
            rdf = frames.GFrame(list(ang), ang, df.space)
        else:
            cols = ["rlnCoordinateX", "rlnAnglePsi", "rlnAngleRot", "rlnOriginX", "rlnAngleTilt"]
            rdf = frames.GFrame(cols, {c: ang[c] if c in ang else SV(z3.Real("in_" + c)) for c in cols}, df.space)
        return (lambda: it.function("RelionMotl.convert_angles_from_relion").bind(me)(rdf)), {"me": me, "ang": ang, "old": common.old_row()}

    def post(self, cx, cfg, inp, res):
        a = inp["ang"]
        A = relion_matrix(a["rlnAngleRot"], a["rlnAngleTilt"], a["rlnAnglePsi"])
        out = inp["me"].df
        R = common.R_zxz(common.cs_of(out.row["phi"]), common.cs_of(out.row["theta"]), common.cs_of(out.row["psi"]))
        cl = [(f"motl_rotation_is_inverse_{i}{j}", R[i][j] == A[j][i]) for i in range(3) for j in range(3)]
        cl.append(("frame.other_fields", z3.And(*[zr(out.row[c]) == inp["old"][c] for c in MOTL_COLS if c not in common.ANGLE_COLS])))
        return cl

    def replay(self, clause, model, cfg):
        from rtc import c03 as r
        return r.replay_angles_from(model, None if cfg["columns"] == "angles only" else ["rlnCoordinateX", "rlnAnglePsi", "rlnAngleRot", "rlnOriginX", "rlnAngleTilt"])


class ConvertShifts(Contract):
    prop = "C03"
    module = "cryomotl"
    qual = "RelionMotl.convert_shifts"
    configs = [{"version": v} for v in VERSIONS]

    def cfg_name(self, cfg):
        return f"v{cfg['version']}"

    def bind(self, cx, cfg):
        it = common.motl_interp()
        df = common.fresh_motl_frame()
        p = SV(z3.Real("pixel_size"))
        cx.assume(p.t > 0)
        me = _relion_self(it, cfg["version"], df, pixel=p)
        rcols = ["rlnOriginX", "rlnOriginY", "rlnOriginZ", "rlnOriginXAngst", "rlnOriginYAngst", "rlnOriginZAngst"]
        cols = rcols[:3] if cfg["version"] <= 3.0 else rcols[3:]
        rdf = frames.fresh_frame(cols, "", space=df.space)
        for c in cols:
            cx.assume(z3.Not(frames.ISNAN(z3.Real(c))))
        return (lambda: it.function("RelionMotl.convert_shifts").bind(me)(rdf)), {"me": me, "cols": cols, "old": common.old_row(), "p": p}

    def post(self, cx, cfg, inp, res):
        out, p = inp["me"].df, inp["p"].t
        cl = []
        for a, c in zip(XYZ, inp["cols"]):
            o = z3.Real(c)
            exp = -o if cfg["version"] <= 3.0 else -o / p
            cl.append((f"shift_{a}", zr(out.row["shift_" + a]) == exp, ()))
        cl.append(("frame.other_fields", z3.And(*[zr(out.row[c]) == inp["old"][c] for c in MOTL_COLS if not c.startswith("shift_")]), ()))
        return cl

    def replay(self, clause, model, cfg):
        from rtc import c03 as r
        return r.replay_shifts(model, cfg["version"])


class CreateRelionDf(Contract):
    """export with numeric names (tomo_format = subtomo_format = ''): coordinates, zero origins, half-set parity, class,
    tomogram number, angles; binning for version >= 4"""
    prop = "C03"
    module = "cryomotl"
    qual = "RelionMotl.create_relion_df"
    configs = [{"version": v, "binning": b} for v in VERSIONS for b in ("one", "sym")]

    def cfg_name(self, cfg):
        return f"v{cfg['version']},binning={cfg['binning']}"

    def bind(self, cx, cfg):
        it = common.motl_interp()
        df = common.fresh_motl_frame(int_cols=("subtomo_id", "tomo_id"))
        p = SV(z3.Real("pixel_size"))
        cx.assume(p.t > 0)
        b = 1.0 if cfg["binning"] == "one" else SV(z3.Real("binning"))
        if cfg["binning"] == "sym":
            cx.assume(z3.And(b.t > 0, b.t != 1))
        me = _relion_self(it, cfg["version"], df, pixel=p, binning=b)
        return (lambda: it.function("RelionMotl.create_relion_df").bind(me)()), {"me": me, "old": common.old_row(), "p": p, "b": b}

    def post(self, cx, cfg, inp, res):
        old, v = inp["old"], cfg["version"]
        sid, tid = z3.ToReal(z3.Int("subtomo_id")), z3.ToReal(z3.Int("tomo_id"))
        b = z3.RealVal(1) if cfg["binning"] == "one" or v < 4.0 else inp["b"].t
        cl = []
        for a in XYZ:
            pos = old[a] + old["shift_" + a]
            cl.append((f"coordinate_{a}", zr(res.row["rlnCoordinate" + a.upper()]) == pos * b))
        onames = ["rlnOriginX", "rlnOriginY", "rlnOriginZ"] if v <= 3.0 else ["rlnOriginXAngst", "rlnOriginYAngst", "rlnOriginZAngst"]
        for n in onames:
            cl.append((f"zero_{n}", zr(res.row[n]) == 0))
        cl.append(("class", zr(res.row["rlnClassNumber"]) == old["class"]))
        even = z3.Int("subtomo_id") % 2 == 0
        cl.append(("halfset_parity", zr(res.row["rlnRandomSubset"]) == z3.If(even, 2, 1)))
        tn = "rlnMicrographName" if v < 4.0 else "rlnTomoName"
        sn = "rlnImageName" if v < 4.0 else "rlnTomoParticleName"
        cl.append(("tomo_number", zr(res.row[tn]) == tid))
        cl.append(("subtomo_number", zr(res.row[sn]) == sid))
        phi, the, psi = (theory.angle_input(n) for n in ("phi", "theta", "psi"))
        R = common.R_zxz(common.cs_of(phi), common.cs_of(the), common.cs_of(psi))
        A = relion_matrix(res.row["rlnAngleRot"], res.row["rlnAngleTilt"], res.row["rlnAnglePsi"])
        cl += [(f"relion_rotation_is_inverse_{i}{j}", A[i][j] == R[j][i]) for i in range(3) for j in range(3)]
        cl.append(("frame.rows", z3.simplify(res.present) == z3.BoolVal(True)))
        cl.append(("frame.motl_untouched", z3.And(*[zr(inp["me"].df.row[c]) == (old[c] if c not in ("subtomo_id", "tomo_id") else (sid if c == "subtomo_id" else tid)) for c in MOTL_COLS])))
        return cl

    def replay(self, clause, model, cfg):
        from rtc import c03 as r
        return r.replay_export(model, cfg["version"], clause)


class HalfsetSpec(kernels.InvSpec):
    """invariant of the half-set renumbering loop of RelionMotl.parse_subtomo_id after positions 0..k have been numbered"""
    state = {"subtomo_id_num": "Bool"}
    scalars = {"c": "Int"}
    ghosts = {"ids": "Int"}   # ids[p]: the number given to the particle at position p
    label = "halfsets"

    def __init__(self, hs, n, first):
        self.hs, self.n, self.first = hs, n, first

    def resolve(self, env):
        """the list of new numbers: the local that holds a one-element list (the first number) when the loop starts"""
        e = env
        while e is not None:
            for k, v in e.vars.items():
                if (isinstance(v, list) and len(v) == 1 and isinstance(v[0], (SV, int))) or isinstance(v, kernels.AppendLog):
                    return {"subtomo_id_num": k}
            e = e.parent
        return {}

    def ghost_init_from(self, S_init, objs):
        return {"ids": (lambda i, c0=S_init["c"]: c0)}

    def inv(self, k, S, G):
        ids, log, c, hs = G["ids"], S["subtomo_id_num"], S["c"], self.hs
        p, q = z3.Ints("p!hs q!hs")
        filled = lambda x: z3.And(x >= 0, x <= k)
        return [
            ("positions_0_to_k_are_filled", z3.ForAll([p], z3.Implies(z3.And(p >= 0, p < self.n), log(p) == (p <= k)))),
            ("counter_is_the_last_number_given", c == ids(k)),
            ("numbers_are_positive_and_their_parity_is_the_half_set", z3.ForAll([p], z3.Implies(filled(p), z3.And(ids(p) >= 1, ids(p) % 2 == hs(p))))),
            ("numbers_increase_strictly", z3.ForAll([p, q], z3.Implies(z3.And(filled(p), filled(q), p < q), ids(p) < ids(q)))),
        ]

    def ghost_step(self, k, S0, S1, G0):
        return {"ids": (lambda i, f=G0["ids"], c1=S1["c"]: z3.If(i == k + 1, c1, f(i)))}


class HalfsetRenumbering(Contract):
    """RelionMotl.parse_subtomo_id, the block that renumbers the particles when two half-sets are present: particle p gets a number whose parity
    is its half-set (rlnRandomSubset 1 -> odd, 2 -> even), numbers are positive and strictly increasing (hence pairwise different), and exactly
    these numbers are stored as subtomo_id"""
    prop = "C03"
    module = "cryomotl"
    qual = "RelionMotl.parse_subtomo_id"

    def cfg_name(self, cfg):
        return "block=half-set renumbering"

    def bind(self, cx, cfg):
        n = SV(z3.Int("n_particles"))
        cx.assume(n.t >= 1)
        RS = z3.Function("rlnRandomSubset", z3.IntSort(), z3.IntSort())
        i = z3.Int("i!rs")
        cx.assume(z3.ForAll([i], z3.Or(RS(i) == 1, RS(i) == 2)))
        hs_fn = lambda x: RS(x) % 2
        hs = kernels.FnArr(lambda x: RS(x) % 2, n, "Int", "halfset_num")
        rec = {}

        class Col:
            @property
            def values(self):
                return self

            def __mod__(self, k):
                if k != 2:
                    raise sym.Unsupported("random subset modulo something else than 2")
                return hs

        class Rel:
            def __getitem__(self, c):
                if c != "rlnRandomSubset":
                    raise sym.Unsupported("relion table column")
                return Col()

        class Df:
            shape = (n, 20)

            def __setitem__(self, c, v):
                rec.setdefault("assigned", []).append((c, v))

        class Me:
            df = Df()
        def mkspec(rng, env):
            rec["spec"] = HalfsetSpec(hs_fn, n.t, None)
            return rec["spec"]
        cx.range_inv_spec_factory = mkspec
        it = common.motl_interp()
        f = it.block_function("RelionMotl.parse_subtomo_id", lambda s: s.startswith("halfset_num = "), lambda s: s.startswith("self.df['subtomo_id'] = "),
                              ["self", "relion_df"], [])

        def thunk():
            rec.clear()
            f(Me(), Rel())
            spec = rec.get("spec")
            return {"log": getattr(spec, "bound_objects", {}).get("subtomo_id_num") if spec is not None else None, "assigned": rec.get("assigned", [])}
        return thunk, {"n": n, "hs": hs_fn, "lines": it.block_lines}

    def post(self, cx, cfg, inp, res):
        n, hs = inp["n"].t, inp["hs"]
        log = res["log"]
        ok = isinstance(log, kernels.AppendLog) and res["assigned"] == [("subtomo_id", log)]
        cl = [("the_numbers_are_stored_as_subtomo_id", z3.BoolVal(bool(ok)))]
        ex = getattr(cx, "loop_exit", {}).get("halfsets")
        if not ok or ex is None:
            return cl + [("renumbering_loop_verified_by_invariant", z3.BoolVal(False))]
        ids, c_exit = ex["G"]["ids"], ex["S"]["c"]
        p, q = z3.Ints("p!h q!h")
        rng = lambda x: z3.And(x >= 0, x < n)
        # what was appended: the initial element and, in the arbitrary iteration, the updated counter
        app_ok = len(log.initial) == 1 and all(isinstance(v, SV) for _, v, _ in log.values) and len(log.values) == 1
        cl += [("one_number_per_particle_in_order", z3.BoolVal(bool(app_ok))),
               ("every_position_gets_a_number", z3.ForAll([p], z3.Implies(rng(p), ex["S"]["subtomo_id_num"](p))), ()),
               ("number_parity_is_the_particles_half_set", z3.ForAll([p], z3.Implies(rng(p), z3.And(ids(p) >= 1, ids(p) % 2 == hs(p)))), ()),
               ("numbers_pairwise_different", z3.ForAll([p, q], z3.Implies(z3.And(rng(p), rng(q), p != q), ids(p) != ids(q))), ())]
        return cl

    def replay(self, clause, model, cfg):
        from rtc import c03 as r
        return r.replay_kind("import")


CONTRACTS = [AnglesToRelion, AnglesFromRelion, ConvertShifts, CreateRelionDf, HalfsetRenumbering]
LEVEL = "proof"
EXPLANATION = ("Angle conversion in both directions (for all angles incl. gimbal lock, via from_euler o as_euler = id only), shift conversion per version, and the "
               "export table of create_relion_df (coordinates = x+shift (x binning for v>=4), zero origins, class, half-set parity, numeric names) are postconditions proved on "
               "the generic row of the real AST; round trip as a lemma; the half-set renumbering block of parse_subtomo_id on import (extracted mechanically; loop by inductive invariant with a carried counter): every particle gets a positive number whose parity is its half-set, numbers strictly increasing. Name formats / regex parsing / STAR file path: bounded stand-in only.")
ASSUMPTIONS = ["RELION's (rot,tilt,psi) denote Rz(rot)Ry(tilt)Rz(psi) (intrinsic ZYZ); cryoCAT's (phi,theta,psi) denote Rz(psi)Rx(theta)Rz(phi); the property demands the former to be the inverse of the latter",
               "scipy Rotation contract (vfw/models/rot.py); pandas contract for column assignment; an empty DataFrame takes the index of the first Series assigned to it",
               "requires: the particle table has a RangeIndex (established by Motl.check_df_type on every public construction path); subtomo_id and tomo_id are integers"]


def lemmas(ck):
    # export ; import = identity on position: x = pos*1, shift = -(0)/p = 0 -> x+shift = pos ; and on rotation: (R^T)^T = R
    pos, p = z3.Reals("pos p")
    ck.lemma("roundtrip_position", [p > 0], pos + (-(z3.RealVal(0)) / p) == pos, tactics=())
    R = [[z3.Real(f"R{i}{j}") for j in range(3)] for i in range(3)]
    T = [[R[j][i] for j in range(3)] for i in range(3)]
    ck.lemma("roundtrip_rotation", [], z3.And(*[T[j][i] == R[i][j] for i in range(3) for j in range(3)]))
    # import of shifts then export: rlnCoordinate = x + (-origin/p)
    o, x = z3.Reals("o x")
    ck.lemma("import_then_export_position", [p > 0], x + (-o / p) == x - o / p, tactics=())


def run(ck):
    for C in CONTRACTS:
        ck.run_contract(C())
    lemmas(ck)
    from rtc import c03 as r
    n = 60 if ck.tier == "quick" else 1500
    ck.bounded_run("relion_conversion", r.gen_cases(ck.seed, n), r.run_case, ref="rtc.c03:run_case",
                   rule="seeded particle lists (1..300, gimbal lock, angles beyond canonical ranges, shifts of either sign) x version {3.0,3.1,4.0} x pixel size x name formats x optics on/off; "
                        "export checked against independent matrices; import from an independent RELION writer; in-memory and via-file round trip. distinct = (case, version, path, size)",
                   bound=f"{n} cases, <= 300 particles")
