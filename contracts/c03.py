"""C03 -- RELION <-> cryoCAT conversion.  Deductive: angle algebra in both directions, shifts, coordinates, class / tomogram
copy and half-set parity of create_relion_df (numeric names), round-trip lemma.  Bounded: name formats ($xxx/$yyy), regex
parsing of names, half-set renumbering loop, the via-file path."""
import z3
from vfw import sym, theory
from vfw.sym import SV, SB, ctx
from vfw.engine import Contract
from vfw.models import frames, misc
from . import common
from .common import MOTL_COLS, zr

XYZ = ("x", "y", "z")
VERSIONS = [3.0, 3.1, 4.0]


def _Rz(c, s):
    return [[c, -s, 0], [s, c, 0], [0, 0, 1]]


def _Ry(c, s):
    return [[c, 0, s], [0, 1, 0], [-s, 0, c]]


def _mm(A, B):
    return [[sum(A[i][k] * B[k][j] for k in range(3)) for j in range(3)] for i in range(3)]


def relion_matrix(rot, tilt, psi):
    """rotation denoted by RELION's ZYZ angles (rot, tilt, psi), written out independently of the scipy model:
    Rz(rot) * Ry(tilt) * Rz(psi)"""
    return _mm(_Rz(*common.cs_of(rot)), _mm(_Ry(*common.cs_of(tilt)), _Rz(*common.cs_of(psi))))


def _relion_self(it, version, df, pixel=None, binning=None, relion_df=None):
    me = misc.SelfObj(it, "RelionMotl", df=df, version=version, pixel_size=pixel, binning=binning, relion_df=relion_df, optics_data=None)
    names = it.function("RelionMotl.get_version_specific_names")(version)
    me.tomo_id_name, me.subtomo_id_name, me.shifts_id_names, me.data_spec = names
    return me


class AnglesToRelion(Contract):
    prop = "C03"
    module = "cryomotl"
    qual = "RelionMotl.convert_angles_to_relion"

    def bind(self, cx, cfg):
        it = common.motl_interp()
        df = common.fresh_motl_frame()
        me = _relion_self(it, 3.1, df)
        rdf = frames.fresh_frame(["rlnAngleRot", "rlnAngleTilt", "rlnAnglePsi", "rlnCoordinateX"], "in_", space=df.space)
        return (lambda: it.function("RelionMotl.convert_angles_to_relion").bind(me)(rdf)), {"me": me, "rdf": rdf, "old": common.old_row()}

    def post(self, cx, cfg, inp, res):
        phi, the, psi = (theory.angle_input(n) for n in ("phi", "theta", "psi"))
        R = common.R_zxz(common.cs_of(phi), common.cs_of(the), common.cs_of(psi))
        A = relion_matrix(res.row["rlnAngleRot"], res.row["rlnAngleTilt"], res.row["rlnAnglePsi"])
        cl = [(f"relion_rotation_is_inverse_{i}{j}", A[i][j] == R[j][i]) for i in range(3) for j in range(3)]
        cl.append(("frame.motl_untouched", z3.And(*[zr(inp["me"].df.row[c]) == inp["old"][c] for c in MOTL_COLS])))
        cl.append(("frame.other_relion_columns", zr(res.row["rlnCoordinateX"]) == z3.Real("in_rlnCoordinateX")))
        return cl

    def replay(self, clause, model, cfg):
        from rtc import c03 as r
        return r.replay_angles_to(model)


class AnglesFromRelion(Contract):
    prop = "C03"
    module = "cryomotl"
    qual = "RelionMotl.convert_angles_from_relion"

    def bind(self, cx, cfg):
        it = common.motl_interp()
        df = common.fresh_motl_frame()
        me = _relion_self(it, 3.1, df)
        ang = {n: theory.angle_input(n) for n in ("rlnAngleRot", "rlnAngleTilt", "rlnAnglePsi")}
        rdf = frames.GFrame(list(ang), ang, df.space)
        return (lambda: it.function("RelionMotl.convert_angles_from_relion").bind(me)(rdf)), {"me": me, "ang": ang, "old": common.old_row()}

    def post(self, cx, cfg, inp, res):
        a = inp["ang"]
        A = relion_matrix(a["rlnAngleRot"], a["rlnAngleTilt"], a["rlnAnglePsi"])
        out = inp["me"].df
        R = common.R_zxz(common.cs_of(out.row["phi"]), common.cs_of(out.row["theta"]), common.cs_of(out.row["psi"]))
        cl = [(f"motl_rotation_is_inverse_{i}{j}", R[i][j] == A[j][i]) for i in range(3) for j in range(3)]
        cl.append(("frame.other_fields", z3.And(*[zr(out.row[c]) == inp["old"][c] for c in MOTL_COLS if c not in common.ANGLE_COLS])))
        return cl

    def replay(self, clause, model, cfg):
        from rtc import c03 as r
        return r.replay_angles_from(model)


class ConvertShifts(Contract):
    prop = "C03"
    module = "cryomotl"
    qual = "RelionMotl.convert_shifts"
    configs = [{"version": v} for v in VERSIONS]

    def cfg_name(self, cfg):
        return f"v{cfg['version']}"

    def bind(self, cx, cfg):
        it = common.motl_interp()
        df = common.fresh_motl_frame()
        p = SV(z3.Real("pixel_size"))
        cx.assume(p.t > 0)
        me = _relion_self(it, cfg["version"], df, pixel=p)
        rcols = ["rlnOriginX", "rlnOriginY", "rlnOriginZ", "rlnOriginXAngst", "rlnOriginYAngst", "rlnOriginZAngst"]
        cols = rcols[:3] if cfg["version"] <= 3.0 else rcols[3:]
        rdf = frames.fresh_frame(cols, "", space=df.space)
        for c in cols:
            cx.assume(z3.Not(frames.ISNAN(z3.Real(c))))
        return (lambda: it.function("RelionMotl.convert_shifts").bind(me)(rdf)), {"me": me, "cols": cols, "old": common.old_row(), "p": p}

    def post(self, cx, cfg, inp, res):
        out, p = inp["me"].df, inp["p"].t
        cl = []
        for a, c in zip(XYZ, inp["cols"]):
            o = z3.Real(c)
            exp = -o if cfg["version"] <= 3.0 else -o / p
            cl.append((f"shift_{a}", zr(out.row["shift_" + a]) == exp, ()))
        cl.append(("frame.other_fields", z3.And(*[zr(out.row[c]) == inp["old"][c] for c in MOTL_COLS if not c.startswith("shift_")]), ()))
        return cl

    def replay(self, clause, model, cfg):
        from rtc import c03 as r
        return r.replay_shifts(model, cfg["version"])


class CreateRelionDf(Contract):
    """export with numeric names (tomo_format = subtomo_format = ''): coordinates, zero origins, half-set parity, class,
    tomogram number, angles; binning for version >= 4"""
    prop = "C03"
    module = "cryomotl"
    qual = "RelionMotl.create_relion_df"
    configs = [{"version": v, "binning": b} for v in VERSIONS for b in ("one", "sym")]

    def cfg_name(self, cfg):
        return f"v{cfg['version']},binning={cfg['binning']}"

    def bind(self, cx, cfg):
        it = common.motl_interp()
        df = common.fresh_motl_frame(int_cols=("subtomo_id", "tomo_id"))
        p = SV(z3.Real("pixel_size"))
        cx.assume(p.t > 0)
        b = 1.0 if cfg["binning"] == "one" else SV(z3.Real("binning"))
        if cfg["binning"] == "sym":
            cx.assume(z3.And(b.t > 0, b.t != 1))
        me = _relion_self(it, cfg["version"], df, pixel=p, binning=b)
        return (lambda: it.function("RelionMotl.create_relion_df").bind(me)()), {"me": me, "old": common.old_row(), "p": p, "b": b}

    def post(self, cx, cfg, inp, res):
        old, v = inp["old"], cfg["version"]
        sid, tid = z3.ToReal(z3.Int("subtomo_id")), z3.ToReal(z3.Int("tomo_id"))
        b = z3.RealVal(1) if cfg["binning"] == "one" or v < 4.0 else inp["b"].t
        cl = []
        for a in XYZ:
            pos = old[a] + old["shift_" + a]
            cl.append((f"coordinate_{a}", zr(res.row["rlnCoordinate" + a.upper()]) == pos * b))
        onames = ["rlnOriginX", "rlnOriginY", "rlnOriginZ"] if v <= 3.0 else ["rlnOriginXAngst", "rlnOriginYAngst", "rlnOriginZAngst"]
        for n in onames:
            cl.append((f"zero_{n}", zr(res.row[n]) == 0))
        cl.append(("class", zr(res.row["rlnClassNumber"]) == old["class"]))
        even = z3.Int("subtomo_id") % 2 == 0
        cl.append(("halfset_parity", zr(res.row["rlnRandomSubset"]) == z3.If(even, 2, 1)))
        tn = "rlnMicrographName" if v < 4.0 else "rlnTomoName"
        sn = "rlnImageName" if v < 4.0 else "rlnTomoParticleName"
        cl.append(("tomo_number", zr(res.row[tn]) == tid))
        cl.append(("subtomo_number", zr(res.row[sn]) == sid))
        phi, the, psi = (theory.angle_input(n) for n in ("phi", "theta", "psi"))
        R = common.R_zxz(common.cs_of(phi), common.cs_of(the), common.cs_of(psi))
        A = relion_matrix(res.row["rlnAngleRot"], res.row["rlnAngleTilt"], res.row["rlnAnglePsi"])
        cl += [(f"relion_rotation_is_inverse_{i}{j}", A[i][j] == R[j][i]) for i in range(3) for j in range(3)]
        cl.append(("frame.rows", z3.simplify(res.present) == z3.BoolVal(True)))
        cl.append(("frame.motl_untouched", z3.And(*[zr(inp["me"].df.row[c]) == (old[c] if c not in ("subtomo_id", "tomo_id") else (sid if c == "subtomo_id" else tid)) for c in MOTL_COLS])))
        return cl

    def replay(self, clause, model, cfg):
        from rtc import c03 as r
        return r.replay_export(model, cfg["version"], clause)


CONTRACTS = [AnglesToRelion, AnglesFromRelion, ConvertShifts, CreateRelionDf]
LEVEL = "proof"
EXPLANATION = ("Angle conversion in both directions (for all angles incl. gimbal lock, via from_euler o as_euler = id only), shift conversion per version, and the "
               "export table of create_relion_df (coordinates = x+shift (x binning for v>=4), zero origins, class, half-set parity, numeric names) are postconditions proved on "
               "the generic row of the real AST; round trip as a lemma. Name formats / regex parsing / half-set renumbering loop / STAR file path: bounded stand-in only.")
ASSUMPTIONS = ["RELION's (rot,tilt,psi) denote Rz(rot)Ry(tilt)Rz(psi) (intrinsic ZYZ); cryoCAT's (phi,theta,psi) denote Rz(psi)Rx(theta)Rz(phi); the property demands the former to be the inverse of the latter",
               "scipy Rotation contract (vfw/models/rot.py); pandas contract for column assignment; an empty DataFrame takes the index of the first Series assigned to it",
               "requires: the particle table has a RangeIndex (established by Motl.check_df_type on every public construction path); subtomo_id and tomo_id are integers"]


def lemmas(ck):
    # export ; import = identity on position: x = pos*1, shift = -(0)/p = 0 -> x+shift = pos ; and on rotation: (R^T)^T = R
    pos, p = z3.Reals("pos p")
    ck.lemma("roundtrip_position", [p > 0], pos + (-(z3.RealVal(0)) / p) == pos, tactics=())
    R = [[z3.Real(f"R{i}{j}") for j in range(3)] for i in range(3)]
    T = [[R[j][i] for j in range(3)] for i in range(3)]
    ck.lemma("roundtrip_rotation", [], z3.And(*[T[j][i] == R[i][j] for i in range(3) for j in range(3)]))
    # import of shifts then export: rlnCoordinate = x + (-origin/p)
    o, x = z3.Reals("o x")
    ck.lemma("import_then_export_position", [p > 0], x + (-o / p) == x - o / p, tactics=())


def run(ck):
    for C in CONTRACTS:
        ck.run_contract(C())
    lemmas(ck)
    from rtc import c03 as r
    n = 60 if ck.tier == "quick" else 1500
    ck.bounded_run("relion_conversion", r.gen_cases(ck.seed, n), r.run_case, ref="rtc.c03:run_case",
                   rule="seeded particle lists (1..300, gimbal lock, angles beyond canonical ranges, shifts of either sign) x version {3.0,3.1,4.0} x pixel size x name formats x optics on/off; "
                        "export checked against independent matrices; import from an independent RELION writer; in-memory and via-file round trip. distinct = (case, version, path, size)",
                   bound=f"{n} cases, <= 300 particles")
