"""C19 -- chain tracing.  Deductive: ribana.get_nn_dist (nearest admissible candidate of a radius query).  trace_chains as a whole
(four mutually dependent relabelling branches over data-dependent pandas state) is out of deductive reach: bounded stand-in."""
import z3
from vfw import sym
from vfw.sym import SV, SB, ctx, Unsupported
from vfw.engine import Contract
from vfw.interp import Interp
from vfw.models import kernels
from . import common
from .common import zr


class GetNNDist(Contract):
    prop = "C19"
    module = "ribana"
    qual = "get_nn_dist"
    configs = [{"min": "zero"}, {"min": "positive"}]

    def cfg_name(self, cfg):
        return f"min_distance={cfg['min']}"

    def bind(self, cx, cfg):
        g = common.base_globals()
        it = Interp("ribana", g)
        tree = kernels.RadiusTree("tree")
        act = kernels.ActiveArr("active")
        dmax = SV(z3.Real("dist_max"))
        dmin = 0 if cfg["min"] == "zero" else SV(z3.Real("dist_min"))
        cx.assume(dmax.t > 0)
        if cfg["min"] == "positive":
            cx.assume(z3.And(dmin.t > 0, dmin.t < dmax.t))
        test = SB(z3.Bool("test_value"))
        f = it.function("get_nn_dist")
        return (lambda: f(tree, "query_point", dmax, dmin, act, test)), {"tree": tree, "act": act, "dmax": dmax.t, "dmin": (z3.RealVal(0) if cfg["min"] == "zero" else dmin.t), "test": test.t}

    def post(self, cx, cfg, inp, res):
        tree, act = inp["tree"], inp["act"]
        idx, d = res
        p = z3.Int("p!any")
        adm = lambda q: z3.And(q >= 0, q < tree.n_points, act.f(q) == inp["test"], tree.true_dist(q) > inp["dmin"], tree.true_dist(q) <= inp["dmax"])
        if isinstance(idx, int) and idx == -1:
            return [("minus_one_only_when_no_admissible_candidate", z3.Not(adm(p)), ())]
        it, dt = sym.to_z3(idx), zr(d)
        return [("returned_candidate_is_admissible_with_its_distance", z3.And(adm(it), dt == tree.true_dist(it)), ()),
                ("returned_candidate_is_the_nearest_admissible_one", z3.Implies(adm(p), dt <= tree.true_dist(p)), ())]

    def replay(self, clause, model, cfg):
        from rtc import c19 as r
        return r.replay_zero_distance()


CONTRACTS = [GetNNDist]
LEVEL = "other"
EXPLANATION = ("get_nn_dist is proved (quantified obligations over the sorted radius-query contract and the boolean-mask selection contract) to return the nearest candidate with the requested activity flag and "
               "distance in (dist_min, dist_max], with that distance, or -1 when none exists. trace_chains itself is checked only by the bounded run-time contract (the property verbatim on generated "
               "entry/exit lists with dense clusters); that part is labelled bounded and never counted as proved.")
ASSUMPTIONS = ["sklearn KDTree.query_radius(sort_results=True) contract; numpy boolean-mask selection keeps order",
               "trace_chains: no contract within reach (data-dependent merging/prefixing/cutting over pandas state) -- bounded only"]


def run(ck):
    for C in CONTRACTS:
        ck.run_contract(C())
    from rtc import c19 as r
    n = 300 if ck.tier == "quick" else 5000
    ck.bounded_run("trace_chains", r.gen_cases(ck.seed, n, 25 if ck.tier == "quick" else 60), r.run_case, ref="rtc.c19:run_case",
                   rule="paired entry/exit lists (2..N particles, 1..3 tomograms, exit sites displaced by random vectors, dense clusters forcing merge/prefix/cut) x max_distance x min_distance >= 0; "
                        "the property verbatim: every particle once, per tomogram each chain carries orders 1..k, consecutive exit->entry distance in (min,max] and equal to the recorded value, no chain spans tomograms. "
                        "distinct = (case, size, tomograms)",
                   bound=f"{n} cases, <= {25 if ck.tier == 'quick' else 60} particles")
    ns = 200 if ck.tier == "quick" else 4000
    ck.bounded_run("rare_branches", r.gen_scenario_cases(ck.seed, ns), r.run_case, ref="rtc.c19:run_case",
                   rule="role-based arrangements that reach the rare branches of add_chain_suffix / add_chain_prefix / trace_chains (head stolen by a closer exit site, loose chain end re-used, tail cut by a closer "
                        "entry site, connection on both sides with and without head cut, all combined), random distances / directions / clutter / index order, 1..3 tomograms, two max_distance and three min_distance values; "
                        "same property check. distinct = (case, kind)",
                   bound=f"{ns} arrangements, <= 14 particles per tomogram")
