"""C19 -- chain tracing.  Deductive: ribana.get_nn_dist (nearest admissible candidate of a radius query), add_chain_suffix and
add_chain_prefix (chain invariant over position-function tables).  The main loop of trace_chains is out of deductive reach: bounded."""
import z3
from vfw import sym
from vfw.sym import SV, SB, ctx, Unsupported
from vfw.engine import Contract
from vfw.interp import Interp
from vfw.models import kernels
from . import common
from .common import zr


class GetNNDist(Contract):
    prop = "C19"
    module = "ribana"
    qual = "get_nn_dist"
    configs = [{"min": "zero"}, {"min": "positive"}]

    def cfg_name(self, cfg):
        return f"min_distance={cfg['min']}"

    def bind(self, cx, cfg):
        g = common.base_globals()
        it = Interp("ribana", g)
        tree = kernels.RadiusTree("tree")
        act = kernels.ActiveArr("active")
        dmax = SV(z3.Real("dist_max"))
        dmin = 0 if cfg["min"] == "zero" else SV(z3.Real("dist_min"))
        cx.assume(dmax.t > 0)
        if cfg["min"] == "positive":
            cx.assume(z3.And(dmin.t > 0, dmin.t < dmax.t))
        test = SB(z3.Bool("test_value"))
        f = it.function("get_nn_dist")
        return (lambda: f(tree, "query_point", dmax, dmin, act, test)), {"tree": tree, "act": act, "dmax": dmax.t, "dmin": (z3.RealVal(0) if cfg["min"] == "zero" else dmin.t), "test": test.t}

    def post(self, cx, cfg, inp, res):
        tree, act = inp["tree"], inp["act"]
        idx, d = res
        p = z3.Int("p!any")
        adm = lambda q: z3.And(q >= 0, q < tree.n_points, act.f(q) == inp["test"], tree.true_dist(q) > inp["dmin"], tree.true_dist(q) <= inp["dmax"])
        if isinstance(idx, int) and idx == -1:
            return [("minus_one_only_when_no_admissible_candidate", z3.Not(adm(p)), ())]
        it, dt = sym.to_z3(idx), zr(d)
        return [("returned_candidate_is_admissible_with_its_distance", z3.And(adm(it), dt == tree.true_dist(it)), ()),
                ("returned_candidate_is_the_nearest_admissible_one", z3.Implies(adm(p), dt <= tree.true_dist(p)), ())]

    def replay(self, clause, model, cfg):
        from rtc import c19 as r
        return r.replay_zero_distance()


from vfw.models import ptable

TCOLS = ["subtomo_id", "object_id", "geom2", "geom4"]


class _MotlStub:
    """motl.df.loc[motl.df.index[k], "subtomo_id"]: the subtomogram number of the k-th particle of the tomogram's list"""

    def __init__(self, pid):
        self.pid = pid
        self.df = self

    @property
    def index(self):
        return self

    def __getitem__(self, k):
        return ("label", k)

    @property
    def loc(self):
        stub = self

        class L:
            def __getitem__(self, key):
                if isinstance(key, tuple) and key[1] == "subtomo_id" and isinstance(key[0], tuple) and key[0][0] == "label":
                    return stub.pid
                raise Unsupported("motl.df.loc form")
        return L()


def _chain_tables(cx, fresh_chain=True):
    """pre-state of a merge step: the table T of chains traced so far satisfies the chain invariant, the new chain C (class c_new, not
    used in T) carries orders 1..m in row order, the particle the new chain connects to is a row of T, subtomogram numbers are unique"""
    T = ptable.PTable(TCOLS, "T_", int_cols=("subtomo_id", "object_id", "geom2"))
    C = ptable.PTable(TCOLS, "C_", int_cols=("subtomo_id", "object_id", "geom2"))
    N, m = sym.to_z3(T.n), sym.to_z3(C.n)
    cnew, pid = z3.Int("c_new"), z3.Int("particle_id")
    i, j = z3.Ints("i!pre j!pre")
    tc, to, ts = T.fn["object_id"], T.fn["geom2"], T.fn["subtomo_id"]
    cc, co = C.fn["object_id"], C.fn["geom2"]
    pred = z3.Function("pred_row", z3.IntSort(), z3.IntSort())
    p0 = z3.Int("particle_row")
    cx.assume(z3.And(m >= 1, N >= 1))
    cx.assume(z3.ForAll([i], z3.Implies(z3.And(i >= 0, i < N), z3.And(to(i) >= 1, tc(i) != cnew, tc(i) >= 1))))  # object numbers are positive (trace_chains counts from 1)
    cx.assume(cnew >= 1)
    cx.assume(z3.ForAll([i, j], z3.Implies(z3.And(i >= 0, i < N, j >= 0, j < N, i != j), z3.And(ts(i) != ts(j), z3.Implies(tc(i) == tc(j), to(i) != to(j))))))
    cx.assume(z3.ForAll([i], z3.Implies(z3.And(i >= 0, i < N, to(i) > 1), z3.And(pred(i) >= 0, pred(i) < N, tc(pred(i)) == tc(i), to(pred(i)) == to(i) - 1))))
    if fresh_chain:
        cx.assume(z3.ForAll([j], z3.Implies(z3.And(j >= 0, j < m), z3.And(cc(j) == cnew, co(j) == j + 1))))
    cx.assume(z3.And(p0 >= 0, p0 < N, ts(p0) == pid))
    return T, C, {"pred": pred, "N": N, "m": m, "cnew": cnew, "pid": pid, "p0": p0, "tc": tc, "to": to, "ts": ts, "td": T.fn["geom4"], "cc": cc, "co": co, "cd": C.fn["geom4"]}


def _chain_invariant(tables, witnesses):
    """the chain invariant over the union of the given tables [(class fn, order fn, size)]: orders >= 1, no two rows of one chain
    share an order number, every row with order > 1 has a predecessor in its chain -- i.e. every chain carries exactly 1..k.
    witnesses[a](i) lists candidate predecessor rows (table index, row term) of row i of table a (the existential is proved by exhibiting one)"""
    out = []
    for a, (ca, oa, na) in enumerate(tables):
        i = z3.Int(f"i!inv{a}")
        out.append((f"orders_start_at_one[{a}]", z3.ForAll([i], z3.Implies(z3.And(i >= 0, i < na), oa(i) >= 1))))
        for b, (cb, ob, nb) in enumerate(tables):
            j = z3.Int(f"j!inv{a}{b}")
            if b >= a:
                distinct = z3.And(i >= 0, i < na, j >= 0, j < nb, ca(i) == cb(j)) if a != b else z3.And(i >= 0, i < na, j >= 0, j < nb, i != j, ca(i) == cb(j))
                out.append((f"no_two_members_of_a_chain_share_an_order_number[{a}{b}]", z3.ForAll([i, j], z3.Implies(distinct, oa(i) != ob(j)))))
        ex = []
        for b, w in witnesses[a](i):
            cb, ob, nb = tables[b]
            ex.append(z3.And(w >= 0, w < nb, cb(w) == ca(i), ob(w) == oa(i) - 1))
        out.append((f"every_member_beyond_the_first_has_a_predecessor[{a}]", z3.ForAll([i], z3.Implies(z3.And(i >= 0, i < na, oa(i) > 1), z3.Or(*ex)))))
    return out


class AddChainSuffix(Contract):
    """add_chain_suffix: attach the new chain behind a particle of an existing chain (cutting that chain's tail off when the new link is shorter)"""
    prop = "C19"
    module = "ribana"
    qual = "add_chain_suffix"

    def bind(self, cx, cfg):
        it = Interp("ribana", common.base_globals())
        T, C, v = _chain_tables(cx)
        dist = SV(z3.Real("current_dist"))
        f = it.function("add_chain_suffix")
        return (lambda: f(C, _MotlStub(SV(v["pid"])), T, SV(z3.Int("k")), dist)), {"T": T, "C": C, "v": v, "dist": dist.t}

    def post(self, cx, cfg, inp, res):
        T, C, v, d = inp["T"], inp["C"], inp["v"], inp["dist"]
        N, m, p0 = v["N"], v["m"], v["p0"]
        temp, oid, prev = sym.real(v["tc"](p0)), sym.real(v["to"](p0)), v["td"](p0)
        i, j = z3.Ints("i!post j!post")
        inT = lambda x: z3.And(x >= 0, x < N)
        last = z3.ForAll([i], z3.Implies(z3.And(inT(i), v["tc"](i) == v["tc"](p0)), v["to"](i) <= v["to"](p0)))  # the particle is the last of its chain
        if res is False or (isinstance(res, bool) and not res):
            unchanged = all(not T.changed(c) for c in TCOLS) and all(not C.changed(c) for c in TCOLS)
            return [("no_change_only_when_the_existing_link_is_at_least_as_short", z3.And(z3.Not(last), prev <= d), ()),
                    ("nothing_changed", z3.BoolVal(bool(unchanged)))]
        tc2, to2, td2, ts2 = T.cols["object_id"], T.cols["geom2"], T.cols["geom4"], T.cols["subtomo_id"]
        cc2, co2 = C.cols["object_id"], C.cols["geom2"]
        tail = lambda x: z3.And(z3.Not(last), sym.real(v["tc"](x)) == temp, sym.real(v["to"](x)) > oid)
        cl = [("returns_true", z3.BoolVal(res is True)),
              ("change_only_when_last_or_new_link_not_longer", z3.Or(last, prev >= d), ()),  # at equal distances either choice satisfies the property
              ("new_chain_follows_the_particle_immediately", z3.ForAll([j], z3.Implies(z3.And(j >= 0, j < m), z3.And(cc2(j) == temp, co2(j) == oid + j + 1))), ()),
              ("link_distance_recorded_at_the_particle", td2(p0) == d, ()),
              ("cut_off_tail_keeps_its_internal_order_under_the_new_chains_number", z3.ForAll([i], z3.Implies(z3.And(inT(i), tail(i)), z3.And(tc2(i) == v["cnew"], to2(i) == sym.real(v["to"](i)) - oid))), ()),
              ("all_other_rows_unchanged", z3.ForAll([i], z3.Implies(z3.And(inT(i), z3.Not(tail(i))), z3.And(tc2(i) == sym.real(v["tc"](i)), to2(i) == sym.real(v["to"](i)), z3.Or(i == p0, td2(i) == v["td"](i))))), ()),
              ("subtomogram_numbers_and_other_distances_untouched", z3.ForAll([i], z3.Implies(inT(i), z3.And(ts2(i) == sym.real(v["ts"](i)), z3.Implies(i != p0, td2(i) == v["td"](i))))), ()),
              ("new_chain_keeps_its_own_distances", z3.BoolVal(not C.changed("geom4") and not C.changed("subtomo_id")))]
        wit = {0: lambda x: [(0, v["pred"](x))], 1: lambda x: [(1, x - 1), (0, p0)]}
        cl += [(n, g, ()) for n, g in _chain_invariant([(tc2, to2, N), (cc2, co2, m)], wit)]
        return cl

    def cross(self, cfg, paths):
        kinds = [out[1] for cx, inputs, out in paths if out[0] == "return"]
        return [("all_three_outcomes_reachable", [], z3.BoolVal(kinds.count(False) >= 1 and kinds.count(True) >= 2))]

    def replay(self, clause, model, cfg):
        from rtc import c19 as r
        return r.replay_scenarios()


class AddChainPrefix(Contract):
    """add_chain_prefix: attach the new chain in front of a particle Q of an existing chain (cutting that chain's head off when Q is not its
    first member and the new link is shorter).  Two call forms: the new chain only (class_max None) and the chain that has just been attached
    behind another chain P by add_chain_suffix (class_max = (its last order number, an unused object number))"""
    prop = "C19"
    module = "ribana"
    qual = "add_chain_prefix"
    configs = [{"form": "append_only"}, {"form": "both_sides"}]

    def cfg_name(self, cfg):
        return cfg["form"]

    def bind(self, cx, cfg):
        it = Interp("ribana", common.base_globals())
        T, C, v = _chain_tables(cx, fresh_chain=(cfg["form"] == "append_only"))
        dist = SV(z3.Real("current_dist"))
        f = it.function("add_chain_prefix")
        kw = {}
        if cfg["form"] == "both_sides":
            # C was attached behind the last member (order `base`) of chain cP: its rows carry cP and the orders base+1..base+m
            N, m = v["N"], v["m"]
            cP, base, fresh, pP = z3.Int("class_P"), z3.Int("base"), z3.Int("fresh_class"), z3.Int("row_P")
            i, j = z3.Ints("i!b j!b")
            cx.assume(z3.And(base >= 1, pP >= 0, pP < N, v["tc"](pP) == cP, v["to"](pP) == base, fresh != cP, fresh >= 1, v["tc"](v["p0"]) != cP))
            cx.assume(z3.ForAll([i], z3.Implies(z3.And(i >= 0, i < N), z3.And(v["tc"](i) != fresh, z3.Implies(v["tc"](i) == cP, v["to"](i) <= base)))))
            cx.assume(z3.ForAll([j], z3.Implies(z3.And(j >= 0, j < m), z3.And(v["cc"](j) == cP, v["co"](j) == base + j + 1))))
            v.update(cP=cP, base=base, fresh=fresh, pP=pP)
            kw["class_max"] = (SV(base + m), SV(fresh))
        return (lambda: f(C, _MotlStub(SV(v["pid"])), T, SV(z3.Int("k")), dist, **kw)), {"T": T, "C": C, "v": v, "dist": dist.t}

    def post(self, cx, cfg, inp, res):
        T, C, v, d = inp["T"], inp["C"], inp["v"], inp["dist"]
        N, m, q0 = v["N"], v["m"], v["p0"]
        both = cfg["form"] == "both_sides"
        ctc, oid = sym.real(v["tc"](q0)), sym.real(v["to"](q0))
        i, j = z3.Ints("i!post j!post")
        inT = lambda x: z3.And(x >= 0, x < N)
        pq = v["pred"](q0)
        first = v["to"](q0) == 1
        if isinstance(res, int) and res == -1:
            unchanged = all(not T.changed(c) for c in TCOLS) and all(not C.changed(c) for c in TCOLS)
            return [("no_change_only_when_the_existing_link_is_at_least_as_short", z3.And(z3.Not(first), v["td"](pq) <= d), ()),
                    ("nothing_changed", z3.BoolVal(bool(unchanged)))]
        tc2, to2, td2, ts2 = T.cols["object_id"], T.cols["geom2"], T.cols["geom4"], T.cols["subtomo_id"]
        cc2, co2, cd2 = C.cols["object_id"], C.cols["geom2"], C.cols["geom4"]
        count_facts = [cnt.t == v["to"](q0) - 1 for mk, cnt in T.counts]  # counting lemma (assumed): a chain carrying exactly 1..k has t-1 members below t
        head = lambda x: z3.And(z3.Not(first), sym.real(v["tc"](x)) == ctc, sym.real(v["to"](x)) < oid)
        rest = lambda x: z3.And(sym.real(v["tc"](x)) == ctc, sym.real(v["to"](x)) >= oid)
        clast = sym.real(v["co"](m - 1))                       # order of the new chain's last member (unchanged by the call)
        newcls = sym.real(v["cP"]) if both else ctc               # the merged chain's number
        headcls = sym.real(v["fresh"]) if both else sym.real(v["cnew"])
        cl = [("returns_none", z3.BoolVal(res is None)),
              ("change_only_when_first_or_new_link_not_longer", z3.Or(first, v["td"](pq) >= d), ()),
              ("link_distance_recorded_at_the_new_chains_last_member", cd2(m - 1) == d, ()),
              ("new_chain_keeps_its_orders_and_takes_the_merged_chains_number", z3.ForAll([j], z3.Implies(z3.And(j >= 0, j < m), z3.And(co2(j) == sym.real(v["co"](j)), cc2(j) == newcls))), ()),
              ("Q_and_its_successors_follow_the_new_chain_immediately_in_order", z3.ForAll([i], z3.Implies(z3.And(inT(i), rest(i)), z3.And(tc2(i) == newcls, to2(i) == sym.real(v["to"](i)) - oid + clast + 1))), (), count_facts),
              ("cut_off_head_keeps_its_orders_under_an_unused_number", z3.ForAll([i], z3.Implies(z3.And(inT(i), head(i)), z3.And(tc2(i) == headcls, to2(i) == sym.real(v["to"](i))))), (), count_facts),
              ("all_other_rows_unchanged", z3.ForAll([i], z3.Implies(z3.And(inT(i), sym.real(v["tc"](i)) != ctc), z3.And(tc2(i) == sym.real(v["tc"](i)), to2(i) == sym.real(v["to"](i))))), (), count_facts),
              ("subtomogram_numbers_and_recorded_distances_of_the_table_untouched", z3.BoolVal(not T.changed("subtomo_id") and not T.changed("geom4"))),
              ("other_distances_of_the_new_chain_untouched", z3.ForAll([j], z3.Implies(z3.And(j >= 0, j < m - 1), cd2(j) == v["cd"](j))), ())]
        # predecessor witnesses: T rows keep their old predecessor, except Q whose predecessor is the new chain's last member; C rows: previous row, row P for the first one
        wit = {0: lambda x: [(0, v["pred"](x)), (1, m - 1)], 1: lambda x: [(1, x - 1)] + ([(0, v["pP"])] if both else [])}
        cl += [(n, g, (), count_facts) for n, g in _chain_invariant([(tc2, to2, N), (cc2, co2, m)], wit)]
        return cl

    def cross(self, cfg, paths):
        kinds = [out[1] for cx, inputs, out in paths if out[0] == "return"]
        return [("all_outcomes_reachable", [], z3.BoolVal(kinds.count(-1) >= 1 and kinds.count(None) >= 2))]

    def replay(self, clause, model, cfg):
        from rtc import c19 as r
        return r.replay_scenarios()


CONTRACTS = [GetNNDist, AddChainSuffix, AddChainPrefix]
LEVEL = "other"
EXPLANATION = ("get_nn_dist is proved (quantified obligations over the sorted radius-query contract and the boolean-mask selection contract) to return the nearest candidate with the requested activity flag and "
               "distance in (dist_min, dist_max], with that distance, or -1 when none exists. add_chain_suffix and add_chain_prefix (both call forms) are proved on position-function tables to preserve the chain "
               "invariant over the union of the traced table and the new chain (orders >= 1, no order number twice in a chain, every member beyond the first has a predecessor, i.e. every chain carries exactly 1..k), "
               "to place the attached chain immediately behind / in front of the particle it connects to, to record the link distance, to keep the internal order of a cut-off tail / head under an unused object "
               "number, and to leave every other cell unchanged; the no-change outcome occurs only when the existing link is at least as short. The main loop of trace_chains (which candidate is looked up, "
               "which object numbers are unused at the two call sites, the assembly per tomogram) is checked only by the bounded run-time contract (the property verbatim) on random dense clusters and on "
               "role-based arrangements that reach every branch; that part is labelled bounded and never counted as proved.")
ASSUMPTIONS = ["sklearn KDTree.query_radius(sort_results=True) contract; numpy boolean-mask selection keeps order",
               "pandas semantics of the position-function table model (vfw/models/ptable.py): .loc[mask, cols] = v writes exactly the masked cells, .values[0] is the first masked row, np.max is attained and dominates, "
               ".shape[0] counts the masked rows (as the cardinality of the set of masked rows); the counting fact 'a chain carrying exactly the orders 1..k has t-1 members with order < t' is proved in Lean (lean/Counting.lean) and instantiated for the call's count",
               "requires of add_chain_suffix / add_chain_prefix (established by trace_chains, not proved there): the traced table satisfies the chain invariant, subtomogram numbers are unique, the particle is a row of it, "
               "object numbers are positive, the new chain's number (and class_max[1]) is not used in the table, the two chains of a two-sided connection differ",
               "trace_chains main loop: no contract within reach (data-dependent merging over pandas state) -- bounded only"]


def run(ck):
    for C in CONTRACTS:
        ck.run_contract(C())
    # the counting fact used by add_chain_prefix's contract (cut_off_size = order_id - 1) is a theorem about finite sets of naturals
    ck.external_lemma("members_below_t_of_a_downward_closed_chain_number_t_minus_1", "lean lean/Counting.lean", "lean-4.33.0+mathlib",
                      note="lean/Counting.lean: count_below (a finite set of naturals >= 1 that contains x-1 with every x > 1 has exactly t-1 elements below any of its elements t)", timeout=600)
    from rtc import c19 as r
    n = 300 if ck.tier == "quick" else 5000
    ck.bounded_run("trace_chains", r.gen_cases(ck.seed, n, 25 if ck.tier == "quick" else 60), r.run_case, ref="rtc.c19:run_case",
                   rule="paired entry/exit lists (2..N particles, 1..3 tomograms, exit sites displaced by random vectors, dense clusters forcing merge/prefix/cut) x max_distance x min_distance >= 0; "
                        "the property verbatim: every particle once, per tomogram each chain carries orders 1..k, consecutive exit->entry distance in (min,max] and equal to the recorded value, no chain spans tomograms. "
                        "the requires of the proved callee contracts (add_chain_suffix / add_chain_prefix: chain invariant of the traced table, unused object numbers, ...) are checked at their call sites on every real call. "
                        "distinct = (case, size, tomograms)",
                   bound=f"{n} cases, <= {25 if ck.tier == 'quick' else 60} particles")
    ns = 200 if ck.tier == "quick" else 4000
    ck.bounded_run("rare_branches", r.gen_scenario_cases(ck.seed, ns), r.run_case, ref="rtc.c19:run_case",
                   rule="role-based arrangements that reach the rare branches of add_chain_suffix / add_chain_prefix / trace_chains (head stolen by a closer exit site, loose chain end re-used, tail cut by a closer "
                        "entry site, connection on both sides with and without head cut, all combined), random distances / directions / clutter / index order, 1..3 tomograms, two max_distance and three min_distance values; "
                        "same property check. distinct = (case, kind)",
                   bound=f"{ns} arrangements, <= 14 particles per tomogram")
