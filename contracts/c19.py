"""C19 -- chain tracing.  Deductive: ribana.get_nn_dist (nearest admissible candidate of a radius query), add_chain_suffix and
add_chain_prefix (chain invariant over position-function tables), and the connection step of trace_chains against the two callee contracts
(requires at the call sites, unused object numbers).  The rest of trace_chains' main loop is out of deductive reach: bounded."""
import z3
from vfw import sym
from vfw.sym import SV, SB, ctx, Unsupported
from vfw.engine import Contract
from vfw.interp import Interp
from vfw.models import kernels
from . import common
from .common import zr


class GetNNDist(Contract):
    prop = "C19"
    module = "ribana"
    qual = "get_nn_dist"
    configs = [{"min": "zero"}, {"min": "positive"}]

    def cfg_name(self, cfg):
        return f"min_distance={cfg['min']}"

    def bind(self, cx, cfg):
        g = common.base_globals()
        it = Interp("ribana", g)
        tree = kernels.RadiusTree("tree")
        act = kernels.ActiveArr("active")
        dmax = SV(z3.Real("dist_max"))
        dmin = 0 if cfg["min"] == "zero" else SV(z3.Real("dist_min"))
        cx.assume(dmax.t > 0)
        if cfg["min"] == "positive":
            cx.assume(z3.And(dmin.t > 0, dmin.t < dmax.t))
        test = SB(z3.Bool("test_value"))
        f = it.function("get_nn_dist")
        return (lambda: f(tree, "query_point", dmax, dmin, act, test)), {"tree": tree, "act": act, "dmax": dmax.t, "dmin": (z3.RealVal(0) if cfg["min"] == "zero" else dmin.t), "test": test.t}

    def post(self, cx, cfg, inp, res):
        tree, act = inp["tree"], inp["act"]
        idx, d = res
        p = z3.Int("p!any")
        adm = lambda q: z3.And(q >= 0, q < tree.n_points, act.f(q) == inp["test"], tree.true_dist(q) > inp["dmin"], tree.true_dist(q) <= inp["dmax"])
        if isinstance(idx, int) and idx == -1:
            return [("minus_one_only_when_no_admissible_candidate", z3.Not(adm(p)), ())]
        it, dt = sym.to_z3(idx), zr(d)
        return [("returned_candidate_is_admissible_with_its_distance", z3.And(adm(it), dt == tree.true_dist(it)), ()),
                ("returned_candidate_is_the_nearest_admissible_one", z3.Implies(adm(p), dt <= tree.true_dist(p)), ())]

    def replay(self, clause, model, cfg):
        from rtc import c19 as r
        return r.replay_zero_distance()


from vfw.models import ptable

TCOLS = ["subtomo_id", "object_id", "geom2", "geom4"]


class _MotlStub:
    """motl.df.loc[motl.df.index[k], "subtomo_id"]: the subtomogram number of the k-th particle of the tomogram's list"""

    def __init__(self, pid):
        self.pid = pid
        self.df = self

    @property
    def index(self):
        return self

    def __getitem__(self, k):
        return ("label", k)

    @property
    def loc(self):
        stub = self

        class L:
            def __getitem__(self, key):
                if isinstance(key, tuple) and key[1] == "subtomo_id" and isinstance(key[0], tuple) and key[0][0] == "label":
                    return stub.pid
                raise Unsupported("motl.df.loc form")
        return L()


def _chain_tables(cx, form="fresh"):
    """pre-state of a merge step (assumed = the REQUIRES, see chain_requires): the table T of chains traced so far satisfies the chain invariant,
    the new chain C carries an unused number and the orders 1..m (or continues chain P, form 'both'), the particle the new chain connects to is a row
    of T, subtomogram numbers are unique"""
    T = ptable.PTable(TCOLS, "T_", int_cols=("subtomo_id", "object_id", "geom2"))
    C = ptable.PTable(TCOLS, "C_", int_cols=("subtomo_id", "object_id", "geom2"))
    N, m = sym.to_z3(T.n), sym.to_z3(C.n)
    v = {"pred": z3.Function("pred_row", z3.IntSort(), z3.IntSort()), "N": N, "m": m, "cnew": z3.Int("c_new"), "pid": z3.Int("particle_id"), "p0": z3.Int("particle_row"),
         "tc": T.fn["object_id"], "to": T.fn["geom2"], "ts": T.fn["subtomo_id"], "td": T.fn["geom4"], "cc": C.fn["object_id"], "co": C.fn["geom2"], "cd": C.fn["geom4"], "cs": C.fn["subtomo_id"]}
    if form == "both":
        v.update(cP=z3.Int("class_P"), base=z3.Int("base"), fresh=z3.Int("fresh_class"), pP=z3.Int("row_P"))
    for nm, fml in chain_requires(v, form):
        cx.assume(fml)
    return T, C, v


def _chain_invariant(tables, witnesses):
    """the chain invariant over the union of the given tables [(class fn, order fn, size)]: orders >= 1, no two rows of one chain
    share an order number, every row with order > 1 has a predecessor in its chain -- i.e. every chain carries exactly 1..k.
    witnesses[a](i) lists candidate predecessor rows (table index, row term) of row i of table a (the existential is proved by exhibiting one)"""
    out = []
    for a, (ca, oa, na) in enumerate(tables):
        i = z3.Int(f"i!inv{a}")
        out.append((f"orders_start_at_one[{a}]", z3.ForAll([i], z3.Implies(z3.And(i >= 0, i < na), oa(i) >= 1))))
        for b, (cb, ob, nb) in enumerate(tables):
            j = z3.Int(f"j!inv{a}{b}")
            if b >= a:
                distinct = z3.And(i >= 0, i < na, j >= 0, j < nb, ca(i) == cb(j)) if a != b else z3.And(i >= 0, i < na, j >= 0, j < nb, i != j, ca(i) == cb(j))
                out.append((f"no_two_members_of_a_chain_share_an_order_number[{a}{b}]", z3.ForAll([i, j], z3.Implies(distinct, oa(i) != ob(j)))))
        ex = []
        for b, w in witnesses[a](i):
            cb, ob, nb = tables[b]
            ex.append(z3.And(w >= 0, w < nb, cb(w) == ca(i), ob(w) == oa(i) - 1))
        out.append((f"every_member_beyond_the_first_has_a_predecessor[{a}]", z3.ForAll([i], z3.Implies(z3.And(i >= 0, i < na, oa(i) > 1), z3.Or(*ex)))))
    return out


R = sym.real
COLS_T = ("tc", "to", "td", "ts")
COLS_C = ("cc", "co", "cd", "cs")


def _pre_of(v):
    """pre-state of a merge step as callables (row position -> cell term) and scalars"""
    return dict(v)


def _post_of(T, C):
    return {"tc": T.cols["object_id"], "to": T.cols["geom2"], "td": T.cols["geom4"], "ts": T.cols["subtomo_id"],
            "cc": C.cols["object_id"], "co": C.cols["geom2"], "cd": C.cols["geom4"], "cs": C.cols["subtomo_id"]}


def _same(pre, post, keys, n, tag):
    i = z3.Int(f"i!same{tag}")
    return z3.ForAll([i], z3.Implies(z3.And(i >= 0, i < n), z3.And(*[R(post[k](i)) == R(pre[k](i)) for k in keys])))


def suffix_rel(pre, post, d):
    """relational postcondition of add_chain_suffix(C, ., T, particle, d): (clauses when it returns True, clauses when it returns False).
    The same lists are the obligations of the callee's contract and the assumed summary at its call sites."""
    N, m, p0 = pre["N"], pre["m"], pre["p0"]
    temp, oid, prev = R(pre["tc"](p0)), R(pre["to"](p0)), pre["td"](p0)
    i, j = z3.Ints("i!sx j!sx")
    inT = lambda x: z3.And(x >= 0, x < N)
    last = z3.ForAll([i], z3.Implies(z3.And(inT(i), pre["tc"](i) == pre["tc"](p0)), pre["to"](i) <= pre["to"](p0)))  # the particle is the last of its chain
    tail = lambda x: z3.And(z3.Not(last), R(pre["tc"](x)) == temp, R(pre["to"](x)) > oid)
    wit = {0: lambda x: [(0, pre["pred"](x))], 1: lambda x: [(1, x - 1), (0, p0)]}
    when_true = [
        ("change_only_when_last_or_new_link_not_longer", z3.Or(last, prev >= d)),  # at equal distances either choice satisfies the property
        ("new_chain_follows_the_particle_immediately", z3.ForAll([j], z3.Implies(z3.And(j >= 0, j < m), z3.And(R(post["cc"](j)) == temp, R(post["co"](j)) == oid + j + 1)))),
        ("link_distance_recorded_at_the_particle", post["td"](p0) == d),
        ("cut_off_tail_keeps_its_internal_order_under_the_new_chains_number",
         z3.ForAll([i], z3.Implies(z3.And(inT(i), tail(i)), z3.And(R(post["tc"](i)) == R(pre["cnew"]), R(post["to"](i)) == R(pre["to"](i)) - oid)))),
        ("all_other_rows_unchanged", z3.ForAll([i], z3.Implies(z3.And(inT(i), z3.Not(tail(i))), z3.And(R(post["tc"](i)) == R(pre["tc"](i)), R(post["to"](i)) == R(pre["to"](i)))))),
        ("subtomogram_numbers_and_other_distances_untouched", z3.ForAll([i], z3.Implies(inT(i), z3.And(R(post["ts"](i)) == R(pre["ts"](i)), z3.Implies(i != p0, post["td"](i) == pre["td"](i)))))),
        ("new_chain_keeps_its_own_distances_and_numbers", _same(pre, post, ("cd", "cs"), m, "c")),
    ] + _chain_invariant([(post["tc"], post["to"], N), (post["cc"], post["co"], m)], wit)
    when_false = [("no_change_only_when_the_existing_link_is_at_least_as_short", z3.And(z3.Not(last), prev <= d)),
                  ("table_unchanged", _same(pre, post, COLS_T, N, "t")), ("new_chain_unchanged", _same(pre, post, COLS_C, m, "c"))]
    return when_true, when_false


def prefix_rel(pre, post, d, both, count_is=None):
    """relational postcondition of add_chain_prefix(C, ., T, particle Q, d[, class_max]): (clauses when it attaches, clauses when it returns -1).
    `both`: the form with class_max = (last order of C, unused number) used after add_chain_suffix attached C behind chain cP."""
    N, m, q0 = pre["N"], pre["m"], pre["p0"]
    ctc, oid = R(pre["tc"](q0)), R(pre["to"](q0))
    i, j = z3.Ints("i!px j!px")
    inT = lambda x: z3.And(x >= 0, x < N)
    pq = pre["pred"](q0)
    first = pre["to"](q0) == 1
    head = lambda x: z3.And(z3.Not(first), R(pre["tc"](x)) == ctc, R(pre["to"](x)) < oid)
    rest = lambda x: z3.And(R(pre["tc"](x)) == ctc, R(pre["to"](x)) >= oid)
    clast = R(pre["co"](m - 1))                       # order of the new chain's last member (unchanged by the call)
    newcls = R(pre["cP"]) if both else ctc             # the merged chain's number
    headcls = R(pre["fresh"]) if both else R(pre["cnew"])
    wit = {0: lambda x: [(0, pre["pred"](x)), (1, m - 1)], 1: lambda x: [(1, x - 1)] + ([(0, pre["pP"])] if both else [])}
    attached = [
        ("change_only_when_first_or_new_link_not_longer", z3.Or(first, pre["td"](pq) >= d)),
        ("link_distance_recorded_at_the_new_chains_last_member", post["cd"](m - 1) == d),
        ("new_chain_keeps_its_orders_and_takes_the_merged_chains_number", z3.ForAll([j], z3.Implies(z3.And(j >= 0, j < m), z3.And(R(post["co"](j)) == R(pre["co"](j)), R(post["cc"](j)) == newcls)))),
        ("Q_and_its_successors_follow_the_new_chain_immediately_in_order", z3.ForAll([i], z3.Implies(z3.And(inT(i), rest(i)), z3.And(R(post["tc"](i)) == newcls, R(post["to"](i)) == R(pre["to"](i)) - oid + clast + 1)))),
        ("cut_off_head_keeps_its_orders_under_an_unused_number", z3.ForAll([i], z3.Implies(z3.And(inT(i), head(i)), z3.And(R(post["tc"](i)) == headcls, R(post["to"](i)) == R(pre["to"](i)))))),
        ("all_other_rows_unchanged", z3.ForAll([i], z3.Implies(z3.And(inT(i), R(pre["tc"](i)) != ctc), z3.And(R(post["tc"](i)) == R(pre["tc"](i)), R(post["to"](i)) == R(pre["to"](i)))))),
        ("subtomogram_numbers_and_recorded_distances_of_the_table_untouched", _same(pre, post, ("ts", "td"), N, "t")),
        ("other_distances_and_the_numbers_of_the_new_chain_untouched", z3.ForAll([j], z3.Implies(z3.And(j >= 0, j < m), z3.And(R(post["cs"](j)) == R(pre["cs"](j)), z3.Implies(j < m - 1, post["cd"](j) == pre["cd"](j)))))),
    ] + _chain_invariant([(post["tc"], post["to"], N), (post["cc"], post["co"], m)], wit)
    declined = [("no_change_only_when_the_existing_link_is_at_least_as_short", z3.And(z3.Not(first), pre["td"](pq) <= d)),
                ("table_unchanged", _same(pre, post, COLS_T, N, "t")), ("new_chain_unchanged", _same(pre, post, COLS_C, m, "c"))]
    return attached, declined


def chain_requires(pre, form):
    """the REQUIRES of add_chain_suffix / add_chain_prefix as formulas over the state before the call (callables), for the three call forms
    'fresh' (the new chain carries an unused number and the orders 1..m) and 'both' (prefix after suffix, see prefix_rel)"""
    N, m, p0 = pre["N"], pre["m"], pre["p0"]
    tc, to, ts, cc, co, pred = pre["tc"], pre["to"], pre["ts"], pre["cc"], pre["co"], pre["pred"]
    i, j = z3.Ints("i!rq j!rq")
    rq = [("at_least_one_row_each", z3.And(m >= 1, N >= 1)),
          ("orders_and_object_numbers_positive", z3.ForAll([i], z3.Implies(z3.And(i >= 0, i < N), z3.And(R(to(i)) >= 1, R(tc(i)) >= 1)))),
          ("subtomogram_numbers_unique_and_no_order_number_twice_in_a_chain",
           z3.ForAll([i, j], z3.Implies(z3.And(i >= 0, i < N, j >= 0, j < N, i != j), z3.And(R(ts(i)) != R(ts(j)), z3.Implies(R(tc(i)) == R(tc(j)), R(to(i)) != R(to(j))))))),
          ("every_member_beyond_the_first_has_a_predecessor",
           z3.ForAll([i], z3.Implies(z3.And(i >= 0, i < N, R(to(i)) > 1), z3.And(pred(i) >= 0, pred(i) < N, R(tc(pred(i))) == R(tc(i)), R(to(pred(i))) == R(to(i)) - 1)))),
          ("the_particle_is_a_row_of_the_table", z3.And(p0 >= 0, p0 < N, R(ts(p0)) == R(pre["pid"])))]
    if form == "fresh":
        rq += [("new_chains_number_is_positive_and_unused", z3.And(R(pre["cnew"]) >= 1, z3.ForAll([i], z3.Implies(z3.And(i >= 0, i < N), R(tc(i)) != R(pre["cnew"]))))),
               ("new_chain_carries_its_number_and_the_orders_1_to_m", z3.ForAll([j], z3.Implies(z3.And(j >= 0, j < m), z3.And(R(cc(j)) == R(pre["cnew"]), R(co(j)) == j + 1))))]
    else:
        cP, base, fresh, pP = pre["cP"], pre["base"], pre["fresh"], pre["pP"]
        rq += [("the_new_chain_continues_chain_P_behind_its_last_member", z3.And(R(base) >= 1, pP >= 0, pP < N, R(tc(pP)) == R(cP), R(to(pP)) == R(base),
                                                                               z3.ForAll([j], z3.Implies(z3.And(j >= 0, j < m), z3.And(R(cc(j)) == R(cP), R(co(j)) == R(base) + j + 1))),
                                                                               z3.ForAll([i], z3.Implies(z3.And(i >= 0, i < N, R(tc(i)) == R(cP)), R(to(i)) <= R(base))))),
               ("the_number_for_a_cut_off_head_is_positive_and_unused", z3.And(R(fresh) != R(cP), R(fresh) >= 1, z3.ForAll([i], z3.Implies(z3.And(i >= 0, i < N), R(tc(i)) != R(fresh))))),
               ("the_two_chains_of_a_two_sided_connection_differ", R(tc(p0)) != R(cP))]
    return rq


class AddChainSuffix(Contract):
    """add_chain_suffix: attach the new chain behind a particle of an existing chain (cutting that chain's tail off when the new link is shorter)"""
    prop = "C19"
    module = "ribana"
    qual = "add_chain_suffix"

    def bind(self, cx, cfg):
        it = Interp("ribana", common.base_globals())
        T, C, v = _chain_tables(cx)
        dist = SV(z3.Real("current_dist"))
        f = it.function("add_chain_suffix")
        return (lambda: f(C, _MotlStub(SV(v["pid"])), T, SV(z3.Int("k")), dist)), {"T": T, "C": C, "v": v, "dist": dist.t}

    def post(self, cx, cfg, inp, res):
        when_true, when_false = suffix_rel(_pre_of(inp["v"]), _post_of(inp["T"], inp["C"]), inp["dist"])
        if res is True:
            return [("returns_true", z3.BoolVal(True))] + [(n, g, ()) for n, g in when_true]
        if res is False:
            return [(n, g, ()) for n, g in when_false]
        return [("returns_a_bool", z3.BoolVal(False))]

    def cross(self, cfg, paths):
        kinds = [out[1] for cx, inputs, out in paths if out[0] == "return"]
        return [("all_three_outcomes_reachable", [], z3.BoolVal(kinds.count(False) >= 1 and kinds.count(True) >= 2))]

    def replay(self, clause, model, cfg):
        from rtc import c19 as r
        return r.replay_scenarios()


class AddChainPrefix(Contract):
    """add_chain_prefix: attach the new chain in front of a particle Q of an existing chain (cutting that chain's head off when Q is not its
    first member and the new link is shorter).  Two call forms: the new chain only (class_max None) and the chain that has just been attached
    behind another chain P by add_chain_suffix (class_max = (its last order number, an unused object number))"""
    prop = "C19"
    module = "ribana"
    qual = "add_chain_prefix"
    configs = [{"form": "append_only"}, {"form": "both_sides"}]

    def cfg_name(self, cfg):
        return cfg["form"]

    def bind(self, cx, cfg):
        it = Interp("ribana", common.base_globals())
        T, C, v = _chain_tables(cx, form=("fresh" if cfg["form"] == "append_only" else "both"))
        dist = SV(z3.Real("current_dist"))
        f = it.function("add_chain_prefix")
        kw = {}
        if cfg["form"] == "both_sides":
            kw["class_max"] = (SV(v["base"] + v["m"]), SV(v["fresh"]))
        return (lambda: f(C, _MotlStub(SV(v["pid"])), T, SV(z3.Int("k")), dist, **kw)), {"T": T, "C": C, "v": v, "dist": dist.t}

    def post(self, cx, cfg, inp, res):
        T, v = inp["T"], inp["v"]
        attached, declined = prefix_rel(_pre_of(v), _post_of(T, inp["C"]), inp["dist"], cfg["form"] == "both_sides")
        count_facts = [cnt.t == v["to"](v["p0"]) - 1 for mk, cnt in T.counts]  # counting lemma (lean/Counting.lean): a chain carrying exactly 1..k has t-1 members below t
        if isinstance(res, int) and res == -1:
            return [(n, g, ()) for n, g in declined]
        return [("returns_none", z3.BoolVal(res is None))] + [(n, g, (), count_facts) for n, g in attached]

    def cross(self, cfg, paths):
        kinds = [out[1] for cx, inputs, out in paths if out[0] == "return"]
        return [("all_outcomes_reachable", [], z3.BoolVal(kinds.count(-1) >= 1 and kinds.count(None) >= 2))]

    def replay(self, clause, model, cfg):
        from rtc import c19 as r
        return r.replay_scenarios()


class _StateFns:
    """a state of (traced table T, new chain C) as callables; `havoc` replaces the cell functions that a callee may change by fresh ones"""
    n = 0

    @staticmethod
    def of(T, C, base):
        d = dict(base)
        d.update(_post_of(T, C))
        return d

    @staticmethod
    def havoc(T, C):
        _StateFns.n += 1
        u = _StateFns.n
        for tab, pre_ in ((T, "T"), (C, "C")):
            for c in TCOLS:
                F = z3.Function(f"{pre_}{u}_{c}", z3.IntSort(), z3.IntSort() if c != "geom4" else z3.RealSort())
                tab.cols[c] = (lambda i, F=F: sym.real(F(i)))


class TraceChainsConnect(Contract):
    """trace_chains, the connection step (block from `ch_changed = False` to the call of add_chain_prefix): the two callees are used through their
    contracts (requires = obligations at the call sites, relational postconditions = assumptions).  Proved: every REQUIRES holds at both call sites
    -- in particular the object number handed over for a cut-off head is unused -- the chain invariant holds afterwards and every object number in
    use stays below the counter class_c"""
    prop = "C19"
    module = "ribana"
    qual = "trace_chains"
    configs = [{"first": True, "nm": True}, {"first": True, "nm": False}, {"first": False, "nm": True}]

    def cfg_name(self, cfg):
        return f"block=connect,behind={cfg['first']},in_front={cfg['nm']}"

    def bind(self, cx, cfg):
        T, C, v = _chain_tables(cx, "fresh")
        N, m = v["N"], v["m"]
        cls_c = SV(z3.Int("class_c"))
        i = z3.Int("i!blk")
        # loop invariant of trace_chains at this point: the finished chain carries the number class_c - 1, every number in the table is below it
        cx.assume(z3.And(v["cnew"] == cls_c.t - 1, z3.ForAll([i], z3.Implies(z3.And(i >= 0, i < N), v["tc"](i) < cls_c.t - 1))))
        # the particles the chain may connect to: behind P (row pF, found by its exit site) and in front of Q (row pQ, found by its entry site);
        # when both exist they belong to different chains (the code before the block drops one side otherwise)
        pF, pQ = z3.Int("row_behind"), z3.Int("row_in_front")
        idF, idQ = z3.Int("id_behind"), z3.Int("id_in_front")
        cx.assume(z3.And(pF >= 0, pF < N, v["ts"](pF) == idF, pQ >= 0, pQ < N, v["ts"](pQ) == idQ, v["tc"](pF) != v["tc"](pQ)))
        dF, dQ = SV(z3.Real("first_dist")), SV(z3.Real("nm_dist"))
        rec = {"calls": []}
        st = {"pred": v["pred"]}

        def suffix_stub(chain_df, motl, traced_df, idx, dist, *a, **k):
            pre = _StateFns.of(T, C, dict(v, p0=pF, pid=idF))
            for nm_, fml in chain_requires(pre, "fresh"):
                ctx().oblige(f"pre@add_chain_suffix.{nm_}", fml, kind="pre")
            ok = chain_df is C and traced_df is T and motl == "exit-list" and isinstance(idx, SV) and idx.t.eq(z3.Int("first_idx")) and dist is dF
            ctx().oblige("pre@add_chain_suffix.called_with_the_chain_the_table_and_the_candidate_behind", z3.BoolVal(bool(ok)), kind="pre")
            _StateFns.havoc(T, C)
            post = _StateFns.of(T, C, {})
            chg = ctx().fresh("suffix_changed", "Bool")
            wt, wf = suffix_rel(pre, post, dF.t)
            ctx().axiom("callee contract of add_chain_suffix (proved as AddChainSuffix): relational postcondition for the outcome True", z3.Implies(chg, z3.And(*[g for _, g in wt])))
            ctx().axiom("callee contract of add_chain_suffix (proved as AddChainSuffix): relational postcondition for the outcome False", z3.Implies(z3.Not(chg), z3.And(*[g for _, g in wf])))
            rec["calls"].append(("suffix", pre))
            return sym.SB(chg)

        def prefix_stub(chain_df, motl, traced_df, idx, dist, *a, class_max=None, **k):
            base = dict(v, p0=pQ, pid=idQ)
            form = "fresh"
            if class_max is not None:
                form = "both"
                base.update(cP=sym.to_z3(SV(C.cols["object_id"](z3.IntVal(0)))), base=sym.real(sym.to_z3(class_max[0])) - z3.ToReal(m), fresh=sym.to_z3(class_max[1]), pP=pF)
            pre = _StateFns.of(T, C, base)
            for nm_, fml in chain_requires(pre, form):
                ctx().oblige(f"pre@add_chain_prefix[{form}].{nm_}", fml, kind="pre")
            ok = chain_df is C and traced_df is T and motl == "entry-list" and isinstance(idx, SV) and idx.t.eq(z3.Int("nm_idx")) and dist is dQ
            ctx().oblige(f"pre@add_chain_prefix[{form}].called_with_the_chain_the_table_and_the_candidate_in_front", z3.BoolVal(bool(ok)), kind="pre")
            _StateFns.havoc(T, C)
            post = _StateFns.of(T, C, {})
            att = ctx().fresh("prefix_attached", "Bool")
            wa, wd = prefix_rel(pre, post, dQ.t, form == "both")
            ctx().axiom(f"callee contract of add_chain_prefix (proved as AddChainPrefix, form {form}): relational postcondition when it attaches", z3.Implies(att, z3.And(*[g for _, g in wa])))
            ctx().axiom(f"callee contract of add_chain_prefix (proved as AddChainPrefix, form {form}): relational postcondition when it declines", z3.Implies(z3.Not(att), z3.And(*[g for _, g in wd])))
            rec["calls"].append(("prefix", form))
            return None

        it = Interp("ribana", common.base_globals(), contracts={"add_chain_suffix": suffix_stub, "add_chain_prefix": prefix_stub})
        f = it.block_function("trace_chains", lambda s: s.startswith("ch_changed = False"), lambda s: s.startswith("if nm_idx != -1:"),
                              ["ch_m", "fm_exit", "fm_entry", "nfm_df", "first_idx", "first_dist", "nm_idx", "nm_dist", "class_c", "store_idx1", "store_idx2"], ["class_c"])
        fi = SV(z3.Int("first_idx")) if cfg["first"] else -1
        ni = SV(z3.Int("nm_idx")) if cfg["nm"] else -1
        if cfg["first"]:
            cx.assume(z3.Int("first_idx") >= 0)
        if cfg["nm"]:
            cx.assume(z3.Int("nm_idx") >= 0)

        def thunk():
            rec["calls"] = []
            out = f(C, "exit-list", "entry-list", T, fi, dF, ni, dQ, cls_c, "object_id", "geom2")
            return {"class_c": out[0], "calls": list(rec["calls"])}
        return thunk, {"T": T, "C": C, "v": v, "cls_c": cls_c, "lines": it.block_lines}

    def post(self, cx, cfg, inp, res):
        T, C, v = inp["T"], inp["C"], inp["v"]
        N, m = v["N"], v["m"]
        cc_new = sym.to_z3(res["class_c"])
        i, j = z3.Ints("i!cb j!cb")
        post = _post_of(T, C)
        kinds = [c[0] for c in res["calls"]]
        want = (["suffix"] if cfg["first"] else []) + (["prefix"] if cfg["nm"] else [])
        return [("callees_called_as_the_candidates_demand", z3.BoolVal(kinds == want)),
                ("counter_never_decreases", cc_new >= inp["cls_c"].t, ()),
                ("every_object_number_in_use_is_below_the_counter", z3.And(z3.ForAll([i], z3.Implies(z3.And(i >= 0, i < N), z3.And(R(post["tc"](i)) < R(cc_new), R(post["tc"](i)) >= 1))),
                                                                          z3.ForAll([j], z3.Implies(z3.And(j >= 0, j < m), z3.And(R(post["cc"](j)) < R(cc_new), R(post["cc"](j)) >= 1)))), ())]

    def replay(self, clause, model, cfg):
        from rtc import c19 as r
        return r.replay_scenarios()


class TraceChainsSearch(Contract):
    """trace_chains, the candidate search of a finished chain (block from `first_coord = ...` to `remain_exit[used_idx] = False`, extracted from the
    function's AST on every run).  get_nn_dist is used through its contract (GetNNDist).  Proved at the two call sites: the particle in front is
    searched from the exit site of the chain's last member among the entry sites, the particle behind from the ENTRY SITE OF THE CHAIN'S FIRST MEMBER
    (its stored position plus its shift -- the coordinates every KD-tree of the function is built from) among the exit sites; both with the
    requested interval, among particles that are already traced, with the chain's own members hidden during the search and restored afterwards"""
    prop = "C19"
    module = "ribana"
    qual = "trace_chains"

    def cfg_name(self, cfg):
        return "block=candidate-search"

    def bind(self, cx, cfg):
        C = ptable.PTable(["x", "y", "z", "shift_x", "shift_y", "shift_z", "object_id", "geom2"], "S_")
        cx.assume(sym.to_z3(C.n) >= 1)  # requires: a finished chain has at least one member
        rec = {"calls": [], "flags": {}}

        class Flags:
            """remain_entry / remain_exit: only `arr[used_idx] = value` happens in the block; the marking of the chain's own members is recorded"""
            def __init__(self, name):
                self.name, self.own, self.log = name, "as before the block", []

            def __setitem__(self, k, v):
                if k is not used:
                    raise sym.Unsupported("store into the activity flags at other positions than the chain's own members")
                self.own = v
                self.log.append(v)

        used = object()
        fe, fx = Flags("remain_entry"), Flags("remain_exit")
        dmax, dmin = SV(z3.Real("max_distance")), SV(z3.Real("min_distance"))
        p_coord = object()

        def nn_stub(kdt, query, dist_max, dist_min, active, test_value):
            k = len(rec["calls"])
            rec["calls"].append({"kdt": kdt, "query": query, "max": dist_max, "min": dist_min, "flags": active, "own_marked": getattr(active, "own", None), "test": test_value})
            return SV(z3.Int(f"nn_idx_{k}")), SV(z3.Real(f"nn_dist_{k}"))

        it = Interp("ribana", common.base_globals(), contracts={"get_nn_dist": nn_stub})
        # the block is the beginning of the branch `if nfm_df.size != 0:` (found structurally, so that a renamed local does not lose it)
        import ast
        anchor = next((n.body[0] for n in ast.walk(it.mod.find("trace_chains")) if isinstance(n, ast.If) and ast.unparse(n.test) == "nfm_df.size != 0"), None)
        first_src = ast.unparse(anchor) if anchor is not None else "first_coord = "
        f = it.block_function("trace_chains", lambda s: s == first_src or (anchor is None and s.startswith(first_src)), lambda s: s.startswith("remain_exit[used_idx] = False"),
                              ["ch_m", "used_idx", "remain_entry", "remain_exit", "kdt_entry", "kdt_exit", "p_coord", "max_distance", "min_distance"],
                              ["nm_idx", "nm_dist", "first_idx", "first_dist"])

        def thunk():
            rec["calls"] = []
            fe.own, fe.log, fx.own, fx.log = "as before the block", [], "as before the block", []
            out = f(C, used, fe, fx, "entry-tree", "exit-tree", p_coord, dmax, dmin)
            return {"out": out, "calls": list(rec["calls"]), "logs": (list(fe.log), list(fx.log))}
        return thunk, {"C": C, "fe": fe, "fx": fx, "p_coord": p_coord, "dmax": dmax, "dmin": dmin, "lines": it.block_lines}

    def post(self, cx, cfg, inp, res):
        import numpy as np
        calls, C = res["calls"], inp["C"]
        cl = [("two_searches", z3.BoolVal(len(calls) == 2))]
        if len(calls) != 2:
            return cl
        front, behind = calls
        cl.append(("particle_in_front_searched_from_the_exit_site_of_the_last_member_among_entry_sites",
                   z3.BoolVal(front["kdt"] == "entry-tree" and front["query"] is inp["p_coord"] and front["flags"] is inp["fe"])))
        q = behind["query"]
        shape_ok = isinstance(q, np.ndarray) and q.shape == (1, 3)
        cl.append(("particle_behind_searched_among_exit_sites_with_one_query_point", z3.BoolVal(behind["kdt"] == "exit-tree" and behind["flags"] is inp["fx"] and bool(shape_ok))))
        if shape_ok:
            want = [C.initial[a](z3.IntVal(0)) + C.initial["shift_" + a](z3.IntVal(0)) for a in "xyz"]
            cl.append(("query_point_behind_is_the_entry_site_of_the_chains_first_member", z3.And(*[zr(q[0, k]) == want[k] for k in range(3)]), ()))
        cl.append(("requested_interval_forwarded", z3.BoolVal(all(c["max"] is inp["dmax"] and c["min"] is inp["dmin"] for c in calls))))
        cl.append(("candidates_are_already_traced_particles", z3.BoolVal(all(c["test"] is False for c in calls))))
        cl.append(("own_members_hidden_during_both_searches_and_restored_afterwards",
                   z3.BoolVal(all(c["own_marked"] is True for c in calls) and res["logs"] == ([True, False], [True, False]))))
        o = res["out"]
        ok = (isinstance(o, tuple) and len(o) == 4 and all(isinstance(x, SV) for x in o)
              and o[0].t.eq(z3.Int("nn_idx_0")) and o[1].t.eq(z3.Real("nn_dist_0")) and o[2].t.eq(z3.Int("nn_idx_1")) and o[3].t.eq(z3.Real("nn_dist_1")))
        cl.append(("results_named_for_the_connection_step", z3.BoolVal(bool(ok))))
        return cl

    def replay(self, clause, model, cfg):
        from rtc import c19 as r
        return r.replay_scenarios()


CONTRACTS = [GetNNDist, AddChainSuffix, AddChainPrefix, TraceChainsConnect, TraceChainsSearch]
LEVEL = "other"
EXPLANATION = ("get_nn_dist is proved (quantified obligations over the sorted radius-query contract and the boolean-mask selection contract) to return the nearest candidate with the requested activity flag and "
               "distance in (dist_min, dist_max], with that distance, or -1 when none exists. add_chain_suffix and add_chain_prefix (both call forms) are proved on position-function tables to preserve the chain "
               "invariant over the union of the traced table and the new chain (orders >= 1, no order number twice in a chain, every member beyond the first has a predecessor, i.e. every chain carries exactly 1..k), "
               "to place the attached chain immediately behind / in front of the particle it connects to, to record the link distance, to keep the internal order of a cut-off tail / head under an unused object "
               "number, and to leave every other cell unchanged; the no-change outcome occurs only when the existing link is at least as short. The connection step of trace_chains (block from `ch_changed = False` to the call "
               "of add_chain_prefix, extracted mechanically) is verified against the two callee contracts: every REQUIRES holds at both call sites - in particular the object number handed over for a cut-off head is "
               "unused, also after add_chain_suffix cut off a tail - and every object number in use stays below the counter class_c, under the loop invariant 'the finished chain carries class_c - 1 and every number in the "
               "table is below it'. The candidate search that precedes it (block from `first_coord = ...` to `remain_exit[used_idx] = False`) is verified at its two get_nn_dist call sites: the particle behind is searched "
               "from the entry site (stored position + shift) of the chain's first member among the exit sites, the particle in front from the last member's exit site among the entry sites, with the requested interval, among "
               "already traced particles, the chain's own members hidden during the search and restored afterwards. The rest of the main loop of trace_chains (forward tracing, the tie rules between the two candidates, the assembly per tomogram) is checked only by the bounded run-time contract (the property verbatim) on random dense clusters and on "
               "role-based arrangements that reach every branch; that part is labelled bounded and never counted as proved.")
ASSUMPTIONS = ["sklearn KDTree.query_radius(sort_results=True) contract; numpy boolean-mask selection keeps order",
               "pandas semantics of the position-function table model (vfw/models/ptable.py): .loc[mask, cols] = v writes exactly the masked cells, .values[0] is the first masked row, np.max is attained and dominates, "
               ".shape[0] counts the masked rows (as the cardinality of the set of masked rows); the counting fact 'a chain carrying exactly the orders 1..k has t-1 members with order < t' is proved in Lean (lean/Counting.lean) and instantiated for the call's count",
               "requires of the connection-step block (established by the rest of trace_chains' main loop, not proved there; monitored at every real call in the bounded run): the traced table satisfies the chain invariant, "
               "subtomogram numbers are unique, the candidates are rows of it and belong to different chains, the finished chain carries the number class_c - 1 and the orders 1..m, every number in the table is below class_c - 1",
               "trace_chains main loop: no contract within reach (data-dependent merging over pandas state) -- bounded only"]


def run(ck):
    for C in CONTRACTS:
        ck.run_contract(C())
    # the counting fact used by add_chain_prefix's contract (cut_off_size = order_id - 1) is a theorem about finite sets of naturals
    ck.external_lemma("members_below_t_of_a_downward_closed_chain_number_t_minus_1", "lean lean/Counting.lean", "lean-4.33.0+mathlib",
                      note="lean/Counting.lean: count_below (a finite set of naturals >= 1 that contains x-1 with every x > 1 has exactly t-1 elements below any of its elements t)", timeout=600)
    from rtc import c19 as r
    n = 300 if ck.tier == "quick" else 5000
    ck.bounded_run("trace_chains", r.gen_cases(ck.seed, n, 25 if ck.tier == "quick" else 60), r.run_case, ref="rtc.c19:run_case",
                   rule="paired entry/exit lists (2..N particles, 1..3 tomograms, exit sites displaced by random vectors, dense clusters forcing merge/prefix/cut) x max_distance x min_distance >= 0; "
                        "the property verbatim: every particle once, per tomogram each chain carries orders 1..k, consecutive exit->entry distance in (min,max] and equal to the recorded value, no chain spans tomograms. "
                        "the requires of the proved callee contracts (add_chain_suffix / add_chain_prefix: chain invariant of the traced table, unused object numbers, ...) are checked at their call sites on every real call. "
                        "distinct = (case, size, tomograms)",
                   bound=f"{n} cases, <= {25 if ck.tier == 'quick' else 60} particles")
    ns = 200 if ck.tier == "quick" else 4000
    ck.bounded_run("rare_branches", r.gen_scenario_cases(ck.seed, ns), r.run_case, ref="rtc.c19:run_case",
                   rule="role-based arrangements that reach the rare branches of add_chain_suffix / add_chain_prefix / trace_chains (head stolen by a closer exit site, loose chain end re-used, tail cut by a closer "
                        "entry site, connection on both sides with and without head cut, all combined), random distances / directions / clutter / index order, 1..3 tomograms, two max_distance and three min_distance values; "
                        "same property check. distinct = (case, kind)",
                   bound=f"{ns} arrangements, <= 14 particles per tomogram")
