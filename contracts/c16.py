"""C16 -- dose filtering: frequency grid (double loop), Grant-Grigorieff attenuation term, per-image dose pairing, DC gain, as a
postcondition on the Fourier-space gain of dose_filter for the generic (image, frequency) -- deductive; DFT-level behaviour bounded."""
import z3
from vfw import sym, theory
from vfw.sym import SV, SB, ctx, Unsupported
from vfw.engine import Contract
from vfw.interp import Interp
from vfw.models import voxels, misc
from vfw.models.voxels import V
from . import common
from .common import zr
from .c15 import CryomapStub


class IoStub:
    @staticmethod
    def total_dose_load(d, *a, **k):
        return d


def _interp():
    g = common.base_globals()
    CryomapStub.writes = []
    g.update({"cryomap": CryomapStub, "ioutils": IoStub})
    it = Interp("tiltstack", g)
    it.globals["TiltStack"] = misc.ClassRef(it, "TiltStack")
    return it


def _find_app(e, name):
    stack, seen = [e], set()
    while stack:
        x = stack.pop()
        if x.get_id() in seen:
            continue
        seen.add(x.get_id())
        if z3.is_app(x) and x.decl().name() == name and x.num_args() > 0:
            return x
        stack.extend(x.children())
    return None


class DoseFilter(Contract):
    prop = "C16"
    module = "tiltstack"
    qual = "dose_filter"

    def bind(self, cx, cfg):
        it = _interp()
        n, h, w = SV(z3.Int("N")), SV(z3.Int("H")), SV(z3.Int("W"))
        for s in (n, h, w):
            cx.assume(s.t >= 1)
        x = voxels.input_array("stack", [n, h, w], "float32")
        dose = voxels.input_array("dose", [n])
        px = SV(z3.Real("pixel_size"))
        cx.assume(px.t > 0)
        cx.assume(dose.elem.t >= 0)
        f = it.function("dose_filter")
        return (lambda: f(x, px, dose, input_order="zyx", output_order="zyx")), {"x": x, "orig": x.elem.t, "dose": dose, "px": px, "nhw": (n, h, w)}

    def post(self, cx, cfg, inp, res):
        n, h, w = inp["nhw"]
        flt = getattr(res, "filtered", None)
        cl = [("every_image_is_filtered_in_fourier_space_with_one_real_gain", z3.BoolVal(flt is not None and len(flt["gains"]) == 1 and flt["source_elem"].t.eq(inp["orig"])))]
        if flt is None or len(flt["gains"]) != 1:
            return cl
        roll = flt.get("spectrum_roll")
        cl.append(("spectrum_is_back_in_natural_layout_at_the_inverse_transform", z3.And(*[r == 0 for r in roll]) if roll else z3.BoolVal(True), ("local",)))
        G = flt["gains"][0]
        hy = [V(0) >= 0, V(0) < n.t, V(1) >= 0, V(1) < h.t, V(2) >= 0, V(2) < w.t]
        cl.append(("all_images_and_all_frequencies_covered", flt["cond"], (), hy))
        # signed integer frequencies of DFT index (V1, V2) and the spatial frequency in cycles per Angstrom
        ky = z3.If(V(1) < (h.t + 1) / 2, V(1), V(1) - h.t)
        kx = z3.If(V(2) < (w.t + 1) / 2, V(2), V(2) - w.t)
        p = inp["px"].t
        rx, ry = 1 / (z3.ToReal(w.t) * p), 1 / (z3.ToReal(h.t) * p)
        # The proof is split into solver-sized steps (each is an obligation):
        #  1 structure   : gain == exp(arg(Q)) with Q the code's own frequency value at the ifftshift-ed index (EUF)
        #  2 freq value  : Q >= 0 and Q^2 == DX^2 rx^2 + DY^2 ry^2, DX/DY = shifted index minus centre (instance of the sqrt fact)
        #  3 index       : DX == kx, DY == ky, the signed integer frequencies (linear integer arithmetic)
        #  4 conclusion  : Q equals the statement's f (non-negative roots of equal squares), hence gain == exp(-dose/(2(0.245 f^-1.665 + 2.81)))
        powf = z3.Function("pow", z3.RealSort(), z3.RealSort(), z3.RealSort())
        expf = z3.Function("exp", z3.RealSort(), z3.RealSort())
        qterm = _find_app(G.elem.t, "pow")
        cl.append(("attenuation_uses_a_power_of_the_frequency", z3.BoolVal(qterm is not None)))
        if qterm is None:
            return cl
        Q, DX, DY, KX, KY, F = z3.Reals("Q_code DX DY KX KY F_spec")
        S1 = z3.If(V(1) + h.t / 2 >= h.t, V(1) + h.t / 2 - h.t, V(1) + h.t / 2)
        S2 = z3.If(V(2) + w.t / 2 >= w.t, V(2) + w.t / 2 - w.t, V(2) + w.t / 2)
        defs = [Q == qterm.arg(0), DX == z3.ToReal(S2) - z3.ToReal(w.t / 2), DY == z3.ToReal(S1) - z3.ToReal(h.t / 2), KX == z3.ToReal(kx), KY == z3.ToReal(ky)]
        d = inp["dose"].fn(V(0))
        from fractions import Fraction
        A, B, C = (z3.RealVal(Fraction(x)) for x in (0.245, -1.665, 2.81))  # the statement's constants, identified with their nearest doubles
        arg = lambda q: z3.If(q == 0, z3.RealVal(0), -d / (2 * (A * powf(q, B) + C)))
        fq = lambda a_, b_: a_ * a_ * rx * rx + b_ * b_ * ry * ry
        cl.append(("step1_gain_is_exp_of_grant_grigorieff_term_of_own_dose", zr(G.elem) == expf(arg(Q)), (), hy + defs))
        cl.append(("step2_frequency_value_is_root_of_scaled_offsets", z3.And(Q >= 0, Q * Q == fq(DX, DY)), (), hy + defs))
        cl.append(("step3_shifted_offset_is_signed_frequency", z3.And(DX == KX, DY == KY), (), hy + defs))
        concl = [Q >= 0, Q * Q == fq(DX, DY), DX == KX, DY == KY, F >= 0, F * F == fq(KX, KY)]
        cl.append(("gain_is_grant_grigorieff_attenuation_of_the_images_own_dose", z3.And(Q == F, expf(arg(Q)) == expf(arg(F))), (), concl))
        cl.append(("zero_frequency_value", z3.Implies(z3.And(V(1) == 0, V(2) == 0), Q == 0), (), hy + defs + [Q * Q == fq(DX, DY), DX == KX, DY == KY]))
        cl.append(("zero_frequency_unchanged", z3.Implies(Q == 0, zr(G.elem) == 1), (), hy + defs + [zr(G.elem) == expf(arg(Q)), expf(z3.RealVal(0)) == 1]))
        cl.append(("frame.input_not_mutated", z3.BoolVal(bool(inp["x"].elem.t.eq(inp["orig"])))))
        return cl

    def replay(self, clause, model, cfg):
        from rtc import c16 as r
        return r.replay_formula()


CONTRACTS = [DoseFilter]
LEVEL = "proof"
EXPLANATION = ("dose_filter's result is, per image z, Re ifft2(fft2(image_z) * G_z) where the gain at the generic DFT index equals exp(-dose_z / (2 (0.245 f^-1.665 + 2.81))) with f the spatial "
               "frequency in cycles per Angstrom built from the pixel size and EACH image dimension (non-square), image z is paired with dose z, every image and frequency is covered, and the "
               "zero-frequency gain is 1 (numpy's 0**negative = inf modelled explicitly). Consequences (identity at zero dose, linearity, no gain, monotone in dose, additivity) are lemmas over exp. "
               "DFT-level comparison on the real code: bounded.")
ASSUMPTIONS = ["decimal constants 0.245, -1.665, 2.81 are identified with their nearest IEEE doubles", "exp and pow are uninterpreted (term equality with the statement's formula); exp(0)=1, exp positive and increasing; pow(b,e)>0 for b>0; numpy gives 0.0**negative = +inf and x/inf = 0",
               "numpy.fft contract incl. fftshift/ifftshift being mutually inverse index maps; dose >= 0, pixel size > 0",
               "ioutils.total_dose_load returns an array input unchanged (bounded stand-in)"]


def lemmas(ck):
    e = z3.Function("exp", z3.RealSort(), z3.RealSort())
    a, b, K = z3.Reals("d1 d2 K")
    x, y = -a / K, -b / K
    ck.lemma("zero_dose_is_identity", [K > 0, e(z3.RealVal(0)) == 1], e(-z3.RealVal(0) / K) == 1, tactics=())
    ck.lemma("gain_at_most_one", [K > 0, a >= 0, z3.Implies(x <= 0, e(x) <= e(z3.RealVal(0))), e(z3.RealVal(0)) == 1], e(x) <= 1, tactics=(), note="instance of: exp increasing, exp(0) = 1")
    ck.lemma("more_dose_attenuates_more", [K > 0, a <= b, z3.Implies(y <= x, e(y) <= e(x))], e(y) <= e(x), tactics=(), note="instance of: exp increasing")
    ck.lemma("doses_add", [K > 0, e(x + y) == e(x) * e(y), x + y == -(a + b) / K], e(x) * e(y) == e(-(a + b) / K), tactics=(), note="instance of exp(s+t) = exp(s) exp(t); -d1/K - d2/K = -(d1+d2)/K")
    ck.lemma("sum_of_quotients", [K > 0], -a / K + -b / K == -(a + b) / K, tactics=())


def run(ck):
    for C in CONTRACTS:
        ck.run_contract(C())
    lemmas(ck)
    from rtc import c16 as r
    n = 40 if ck.tier == "quick" else 600
    ck.bounded_run("dose_filter_dft", r.gen_cases(ck.seed, n, 24 if ck.tier == "quick" else 64), r.run_case, ref="rtc.c16:run_case",
                   rule="stacks of 1..10 images with independent even/odd sizes 4..N, pixel sizes 0.5..10, doses 0..300 in any order, random images and plane waves, all order combinations; "
                        "2-D DFT of the output compared with the formula x DFT of the input; consequences checked numerically. distinct = (case, shape, orders)",
                   bound=f"{n} cases, sizes <= {24 if ck.tier == 'quick' else 64}")
