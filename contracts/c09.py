"""C09 -- spatial filters: contracts on Motl.remove_out_of_bounds_particles, Motl.adapt_to_trimming (deductive, generic row) and
Motl.clean_by_distance_to_points (arbitrary group x arbitrary reference point, ball-query contract) and Motl.clean_by_tomo_mask (one arbitrary
tomogram of its loop: which subtomogram numbers are handed to remove_feature; index safety of the mask lookup)."""
import z3
from vfw import sym
from vfw.sym import SV, SB, ctx
from vfw.engine import Contract
from vfw.models import frames
from . import common
from .common import MOTL_COLS, zr
from .c05 import IoutilsStub, _frame_unchanged

XYZ = ("x", "y", "z")


def _interp():
    return common.motl_interp(extra={"ioutils": IoutilsStub})


class RemoveOutOfBounds(Contract):
    prop = "C09"
    module = "cryomotl"
    qual = "Motl.remove_out_of_bounds_particles"
    # labels=other: the list carries row labels that differ from the row positions (what remove_feature / adapt_to_trimming leave behind)
    configs = [{"boundary_type": "center"}, {"boundary_type": "whole"}, {"boundary_type": "whole", "box": "missing"}, {"boundary_type": "other"},
               {"boundary_type": "center", "labels": "other"}]
    # the pinned test suite asserts the missing lower-bound check (tests/test_cryomotl.py::test_remove_out_of_bounds_particles),
    # so this defect is recorded as a known finding rather than repaired
    findings = {"C09-lower-bound-not-checked": {
        "clauses": ["post.kept_implies_inside"],
        "witness": lambda o: _lower_violation(o)}}

    def cfg_name(self, cfg):
        return cfg["boundary_type"] + ("-nobox" if cfg.get("box") else "") + (",labels-differ-from-positions" if cfg.get("labels") else "")

    def bind(self, cx, cfg):
        it = _interp()
        df = common.fresh_motl_frame()
        if cfg.get("labels"):
            df.space.label_id = -1 - df.space.pos_id
        me = common.motl_obj(it, df)
        dims = frames.KeyedTable("dims", "tomo_id", ["x", "y", "z"])
        cx.assume(dims.has(z3.Real("tomo_id")))  # requires: the particle's own tomogram is listed
        for a in XYZ:
            cx.assume(dims.fn[a](z3.Real("tomo_id")) >= 1)
        if cfg["boundary_type"] == "whole" and not cfg.get("box"):
            box = SV(z3.Int("box"))
            cx.assume(box.t >= 1)
        else:
            box = None
        f = it.function("Motl.remove_out_of_bounds_particles").bind(me)
        return (lambda: f(dims, boundary_type=cfg["boundary_type"], box_size=box)), {"me": me, "old": common.old_row(), "dims": dims, "box": box}

    def _inside(self, cfg, inp):
        old, d = inp["old"], inp["dims"]
        b = z3.RealVal(0) if cfg["boundary_type"] == "center" else z3.ToReal(-z3.ToInt(-(z3.ToReal(inp["box"].t) / 2)))  # ceil(box/2)
        t = old["tomo_id"]
        return z3.And(*[z3.And(old[a] + old["shift_" + a] - b >= 0, old[a] + old["shift_" + a] + b < d.fn[a](t)) for a in XYZ])

    def post(self, cx, cfg, inp, res):
        if cfg["boundary_type"] == "other" or cfg.get("box"):
            return [("bad_arguments_rejected", z3.BoolVal(False))]
        out, old = inp["me"].df, inp["old"]
        inside = self._inside(cfg, inp)
        return [("kept_implies_inside", z3.Implies(out.present, inside), ()),
                ("inside_implies_kept", z3.Implies(inside, out.present), ()),
                ("frame.survivors_unchanged", _frame_unchanged(out, old, MOTL_COLS), ()),
                ("frame.columns", z3.BoolVal(list(out.cols) == MOTL_COLS))]

    def raises(self, cx, cfg, inp, exc):
        if (cfg["boundary_type"] == "other" or cfg.get("box")) and exc.exc_type == "UserInputError":
            return z3.BoolVal(True)
        return z3.BoolVal(False)

    def replay(self, clause, model, cfg):
        from rtc import c09 as r
        return r.replay_oob(model, cfg["boundary_type"], clause)


def _lower_violation(o):
    """witness class of the known finding: the box (or centre) leaves the volume through a lower face"""
    old = common.old_row()
    box = z3.Int("box")
    b = z3.RealVal(0) if "[center" in o.name else z3.ToReal(-z3.ToInt(-(z3.ToReal(box) / 2)))
    return z3.Or(*[old[a] + old["shift_" + a] - b < 0 for a in XYZ])


class AdaptToTrimming(Contract):
    prop = "C09"
    module = "cryomotl"
    qual = "Motl.adapt_to_trimming"

    def bind(self, cx, cfg):
        it = _interp()
        df = common.fresh_motl_frame()
        me = common.motl_obj(it, df)
        ts = [SV(z3.Real(f"ts{i}")) for i in range(3)]
        te = [SV(z3.Real(f"te{i}")) for i in range(3)]
        f = it.function("Motl.adapt_to_trimming").bind(me)
        return (lambda: f(list(ts), list(te))), {"me": me, "old": common.old_row(), "ts": ts, "te": te}

    def post(self, cx, cfg, inp, res):
        out, old = inp["me"].df, inp["old"]
        ts, te = [x.t for x in inp["ts"]], [x.t for x in inp["te"]]
        inside = z3.And(*[z3.And(old[a] >= ts[i], old[a] <= te[i]) for i, a in enumerate(XYZ)])
        cl = [("kept_iff_inside", out.present == inside, ())]
        for i, a in enumerate(XYZ):
            cl.append((f"offset_{a}", zr(out.row[a]) == old[a] - (ts[i] - 1), ()))
        cl.append(("frame.other_fields", _frame_unchanged(out, old, [c for c in MOTL_COLS if c not in XYZ]), ()))
        cl.append(("frame.columns", z3.BoolVal(list(out.cols) == MOTL_COLS)))
        return cl

    def replay(self, clause, model, cfg):
        from rtc import c09 as r
        return r.replay_trim(model)


# ---------------------------------------------------------------------------------------------------------------------------------
# clean_by_distance_to_points: outer loop over groups = arbitrary iteration; inner loop over the reference points of the group = arbitrary
# iteration whose ball-query result is added to a set; the set's membership is the existential closure over the inner loop's point


class _RefPoints(frames._Generic):
    """points.loc[points[feature] == f, ["x", "y", "z"]].values: the reference points of group f, one row per point (position functions of j)"""

    def __init__(self, owner, f):
        self.owner, self.f = owner, f

    @property
    def shape(self):
        """(number of reference points of the group, 3).  The number is characterised by: 0 <= n <= M; n = 0 iff no row of the table has the group's
        value (a Skolem witness for n >= 1)"""
        o = self.owner
        n, w, q = z3.Int("n_ref_points_of_group"), z3.Int("ref_point_witness"), z3.Int("q_ref")
        fz = sym.real(sym.to_z3(self.f))
        ctx().assume(z3.And(n >= 0, n <= o.M))
        ctx().assume(z3.Implies(n >= 1, z3.And(w >= 0, w < o.M, o.feat(w) == fz)))
        ctx().assume(z3.ForAll([q], z3.Implies(z3.And(q >= 0, q < o.M, o.feat(q) == fz), n >= 1)))
        return (SV(n), 3)

    def __sym_len__(self):
        return self.shape[0]

    def __generic_for__(self, interp, st, env):
        from vfw.models import kernels, npm
        o = self.owner
        j = z3.Int("ref_point_index")
        o.loop_var = j

        def bind(e):
            e.vars[st.target.id] = _RefPoint(o, j)
            return [z3.And(j >= 0, j < o.M, o.feat(j) == sym.real(sym.to_z3(self.f)))]
        kernels.generic_body(interp, st, env, bind)


class _RefPoint:
    def __init__(self, owner, j):
        self.owner, self.j = owner, j

    def coords(self):
        return [self.owner.Q[a](self.j) for a in range(3)]


class _PointsTable:
    """the table of reference points: columns <feature>, x, y, z; row j = (feat(j), Q0(j), Q1(j), Q2(j))"""

    def __init__(self, feature):
        self.feature = feature
        self.M = z3.Int("n_ref_points")
        self.feat = z3.Function("ref_feature", z3.IntSort(), z3.RealSort())
        self.Q = [z3.Function(f"ref_{a}", z3.IntSort(), z3.RealSort()) for a in XYZ]
        self.selected = []
        self.loop_var = None

    def __getitem__(self, c):
        if c != self.feature:
            raise sym.Unsupported("reference points: column other than the grouping field")
        owner = self

        class Col:
            def __eq__(self, v):
                return ("feature-equals", v)
            __hash__ = None
        return Col()

    @property
    def loc(self):
        owner = self

        class L:
            def __getitem__(self, k):
                if isinstance(k, tuple) and isinstance(k[0], tuple) and k[0][0] == "feature-equals" and list(k[1]) == list(XYZ):
                    owner.selected.append(k[0][1])

                    class Sel:
                        values = _RefPoints(owner, k[0][1])
                    return Sel()
                raise sym.Unsupported("reference points: loc form")
        return L()


class _BallTree:
    """assumed contract of scipy.spatial.KDTree(P).query_ball_point(q, r): exactly the row positions i of P with |P_i - q| <= r"""

    def __init__(self, pts):
        self.pts = pts

    def query_ball_point(self, q, r=None, **k):
        if not isinstance(q, _RefPoint) or r is None:
            raise sym.Unsupported("ball query form")
        return ("ball", self, q, r)


class _RemoveSet(frames._Generic):
    """indices_to_remove: a set of row positions filled by .update(ball) inside the loop over the reference points"""

    def __init__(self):
        self.sites = []

    def update(self, ball):
        if not (isinstance(ball, tuple) and ball[0] == "ball"):
            raise sym.Unsupported("set.update with something else than a ball-query result")
        cx = ctx()
        self.sites.append({"tree": ball[1], "q": ball[2], "r": ball[3], "pc": [e[0] for e in cx.pc[getattr(cx, "_outer_loop_pc", 0):]]})


class _GroupDF:
    def __init__(self, group):
        self.group, self.dropped = group, None
        self.shape = (group.space.n, 20)
        self.row = group.df.row  # the group's table (position functions); only drop() is modelled beyond that

    def drop(self, index=None, **k):
        if not (isinstance(index, tuple) and index[0] == "sorted" and isinstance(index[1], _RemoveSet)) or k:
            raise sym.Unsupported("drop form")
        self.dropped = index[1]
        return ("piece", self.group, index[1])


class CleanByDistanceToPoints(Contract):
    """Motl.clean_by_distance_to_points: for an arbitrary group the appended piece holds exactly the group's particles that have no reference
    point of the same group within the radius (complete positions, distance <= radius)"""
    prop = "C09"
    module = "cryomotl"
    qual = "Motl.clean_by_distance_to_points"
    configs = [{"feature": "tomo_id", "inplace": True}, {"feature": "object_id", "inplace": False}]

    def cfg_name(self, cfg):
        return f"group={cfg['feature']},inplace={cfg['inplace']}"

    def bind(self, cx, cfg):
        from .c07 import Group, Accum, PDStub, PosArr
        from .c18 import FeatureKeys
        it = _interp()
        df = common.fresh_motl_frame(angles=False)
        me = common.motl_obj(it, df)
        pts = _PointsTable(cfg["feature"])
        cx.assume(pts.M >= 0)
        R = SV(z3.Real("radius"))
        cx.assume(R.t >= 0)
        rec = {"groups": [], "sets": [], "trees": [], "motl": []}

        def mk_group(self_, f, feature_id="tomo_id", reset_index=False, **k):
            g = Group(it, "grp_", f, feature_id)
            g.reset = reset_index
            g.df = _GroupDF(g)
            rec["groups"].append(g)
            return g

        def mkset(*a):
            if a:
                return set(*a)
            s = _RemoveSet()
            rec["sets"].append(s)
            return s

        def mktree(p):
            t = _BallTree(p)
            rec["trees"].append(t)
            return t

        class Result:
            def __init__(self, d):
                self.df = d
                rec["motl"].append(self)

        it.contracts["Motl.get_motl_subset"] = mk_group
        it.contracts["Motl.get_unique_values"] = lambda self_, fid: (rec.__setitem__("unique_of", fid), FeatureKeys())[1]
        it.globals.update({"set": mkset, "KDTree": mktree, "sorted": lambda s: ("sorted", s), "pd": PDStub(it.globals["pd"]), "Motl": Result})
        f = it.function("Motl.clean_by_distance_to_points").bind(me)

        def thunk():
            for k in ("groups", "sets", "trees", "motl"):
                rec[k] = []
            r = f(pts, R, feature_id=cfg["feature"], inplace=cfg["inplace"])
            return dict(rec, ret=r, out=me.df, pts=pts)
        return thunk, {"me": me, "df": df, "R": R, "pts": pts}

    def post(self, cx, cfg, inp, res):
        from .c07 import Accum, PosArr
        R, pts = inp["R"].t, inp["pts"]
        acc = res["out"] if cfg["inplace"] else getattr(res["ret"], "df", None)
        cl = [("groups_are_the_values_of_the_grouping_field", z3.BoolVal(res.get("unique_of") == cfg["feature"])),
              ("result_delivered_as_requested", z3.BoolVal((res["ret"] is None and cfg["inplace"]) or (not cfg["inplace"] and res["ret"] is not None and res["out"] is inp["df"])))]
        ok = isinstance(acc, Accum) and len(acc.pieces) == 1 and len(res["groups"]) == 1 and len(res["sets"]) == 1 and len(res["trees"]) == 1
        cl.append(("one_piece_per_group_from_one_tree_and_one_removal_set", z3.BoolVal(bool(ok))))
        if not ok:
            return cl
        g, rs, tree = res["groups"][0], res["sets"][0], res["trees"][0]
        piece, ign = acc.pieces[0]
        cl.append(("group_selected_by_the_grouping_field_with_index_reset", z3.BoolVal(g.feature == cfg["feature"] and g.reset is True and bool(ign))))
        cl.append(("piece_is_the_group_minus_the_collected_positions", z3.BoolVal(isinstance(piece, tuple) and piece[0] == "piece" and piece[1] is g and piece[2] is rs)))
        cl.append(("tree_holds_the_groups_complete_positions", z3.BoolVal(isinstance(tree.pts, PosArr) and tree.pts is g.pos)))
        cl.append(("reference_points_are_those_of_the_same_group", z3.BoolVal(len(pts.selected) == 1 and pts.selected[0] is g.f)))
        one = len(rs.sites) == 1 and rs.sites[0]["tree"] is tree
        cl.append(("every_reference_point_of_the_group_is_queried_once", z3.BoolVal(bool(one))))
        if not one:
            return cl
        s = rs.sites[0]
        # membership of row position i in the removal set = exists j (loop facts of j) with |P_i - Q_j| <= r   (assumed ball-query contract)
        i, j = z3.Int("i!rm"), z3.Int("j!rm")
        jv = pts.loop_var
        pv = frames.RowPos(g.space).val.t
        P = [sym.real(sym.to_z3(v)) for v in g.pos.vals]
        Pi = [z3.substitute(p, (pv, i)) for p in P]
        d2 = lambda jj: sum(((Pi[a] - pts.Q[a](jj)) * (Pi[a] - pts.Q[a](jj)) for a in range(3)), z3.RealVal(0))
        loop_facts = z3.And(*[z3.substitute(c, (jv, j)) for c in s["pc"]]) if s["pc"] else z3.BoolVal(True)
        r_used = sym.real(sym.to_z3(s["r"]))
        member = z3.Exists([j], z3.And(loop_facts, d2(j) <= r_used * r_used))
        # independent statement: removed iff some reference point of the same group lies within the radius of the complete position
        x = {a: z3.Function(f"grp_{a}", z3.IntSort(), z3.RealSort()) for a in ("x", "y", "z", "shift_x", "shift_y", "shift_z")}
        pos_i = [x[a](i) + x["shift_" + a](i) for a in XYZ]
        spec = z3.Exists([j], z3.And(j >= 0, j < pts.M, pts.feat(j) == sym.real(sym.to_z3(g.f)), sum(((pos_i[a] - pts.Q[a](j)) ** 2 for a in range(3)), z3.RealVal(0)) <= R * R))
        cl.append(("removed_iff_a_reference_point_of_the_same_group_is_within_the_radius", z3.ForAll([i], z3.Implies(z3.And(i >= 0, i < sym.to_z3(g.space.n)), member == spec)), ()))
        cl.append(("query_point_is_the_reference_point_itself", z3.BoolVal(isinstance(s["q"], _RefPoint) and s["q"].j.eq(jv))))
        return cl

    def replay(self, clause, model, cfg):
        from rtc import c09 as r
        return r.replay_kind("points")


# ---------------------------------------------------------------------------------------------------------------------------------
# clean_by_tomo_mask: effect of one arbitrary iteration of the loop over the tomograms: which subtomogram numbers are handed to remove_feature


class _TomoList(frames._Generic):
    """ioutils.tlt_load(tomo_list): the tomogram numbers; iterating (with enumerate) binds an arbitrary one"""

    def __init__(self):
        self.n = SV(z3.Int("n_tomos"))
        self.i = SV(z3.Int("tomo_index"))
        self.t = SV(z3.Real("tomo_value"))

    def __sym_len__(self):
        return self.n

    def __generic_enumerate__(self):
        return self

    def __generic_for__(self, interp, st, env):
        import ast
        from vfw.models import kernels
        if not (isinstance(st.target, ast.Tuple) and len(st.target.elts) == 2):
            raise sym.Unsupported("tomogram loop must be `for i, t in enumerate(tomos)`")
        a, b = st.target.elts[0].id, st.target.elts[1].id

        def bind(e):
            e.vars[a], e.vars[b] = self.i, self.t
            return [z3.And(self.i.t >= 0, self.i.t < self.n.t)]
        kernels.generic_body(interp, st, env, bind)


class _MaskList:
    """a list with one mask per tomogram (same length as the tomogram list)"""

    def __init__(self, tomos, mask):
        self.tomos, self.mask, self.asked = tomos, mask, []

    def __sym_isinstance__(self, ts):
        return list in ts

    def __sym_len__(self):
        return self.tomos.n

    def __getitem__(self, k):
        self.asked.append(k)
        return self.mask


class _Cleaned:
    """Motl.load(self): the list that particles are removed from (remove_feature is used through its contract, C08)"""

    def __init__(self):
        self.removed = []
        self.df = self
        self.reset = False

    def remove_feature(self, field, values):
        self.removed.append((field, values))

    def reset_index(self, inplace=False, drop=False, **k):
        self.reset = bool(inplace and drop)


class CleanByTomoMask(Contract):
    """Motl.clean_by_tomo_mask, one arbitrary tomogram of the loop: the subtomogram numbers handed to remove_feature are exactly those of the
    tomogram's particles whose truncated complete position lies inside the mask volume on a zero voxel; indexing the mask is safe"""
    prop = "C09"
    module = "cryomotl"
    qual = "Motl.clean_by_tomo_mask"
    configs = [{"masks": "one"}, {"masks": "list"}]

    def cfg_name(self, cfg):
        return f"masks={cfg['masks']}"

    def bind(self, cx, cfg):
        from .c07 import Group
        from vfw.models import voxels
        df = common.fresh_motl_frame(angles=False)
        tomos = _TomoList()
        ms = [SV(z3.Int(n)) for n in ("MX", "MY", "MZ")]
        for s in ms:
            cx.assume(s.t >= 1)
        mask = voxels.input_array("mask", list(ms))
        rec = {}

        class Ioutils:
            @staticmethod
            def tlt_load(x):
                rec["tlt_arg"] = x
                return tomos

        class CryomapStub:
            """assumed contract of cryomap.binarize: a 0/1 array of the input's shape, 0 exactly where the input is not above the threshold"""
            @staticmethod
            def binarize(m, *a, **k):
                rec.setdefault("binarized", []).append(m)
                return mask

        it = common.motl_interp(extra={"ioutils": Ioutils, "cryomap": CryomapStub})
        me = common.motl_obj(it, df)

        def mk_group(self_, f, feature_id="tomo_id", reset_index=False, **k):
            g = Group(it, "grp_", f, feature_id)
            g.reset = reset_index
            rec.setdefault("groups", []).append(g)
            return g

        cleaned = []

        class MotlRef:
            @staticmethod
            def load(x):
                c = _Cleaned()
                c.source = x
                cleaned.append(c)
                return c
        it.contracts["Motl.get_motl_subset"] = mk_group
        it.globals["Motl"] = MotlRef
        masks = mask if cfg["masks"] == "one" else _MaskList(tomos, mask)
        f = it.function("Motl.clean_by_tomo_mask").bind(me)

        def thunk():
            rec.clear(); cleaned.clear()
            r = f("tomo_list", masks, inplace=True)
            return dict(rec, ret=r, out=me.df, cleaned=list(cleaned), masks=masks)
        return thunk, {"me": me, "df": df, "tomos": tomos, "mask": mask, "ms": ms}

    def post(self, cx, cfg, inp, res):
        tomos, mask, ms = inp["tomos"], inp["mask"], inp["ms"]
        cl = [("tomogram_numbers_loaded_from_the_given_list", z3.BoolVal(res.get("tlt_arg") == "tomo_list"))]
        ok = len(res.get("cleaned", [])) == 1 and len(res.get("groups", [])) == 1 and len(res["cleaned"][0].removed) == 1
        cl.append(("one_removal_per_tomogram_from_a_copy_of_the_list", z3.BoolVal(bool(ok) and res["cleaned"][0].source is inp["me"])))
        if not ok:
            return cl
        c, g = res["cleaned"][0], res["groups"][0]
        field, ids = c.removed[0]
        cl.append(("result_is_the_cleaned_list_with_index_reset", z3.BoolVal(res["out"] is c and c.reset and res["ret"] is None)))
        cl.append(("group_is_the_tomograms_particles_with_index_reset", z3.BoolVal(g.feature == "tomo_id" and g.reset is True and g.f is tomos.t)))
        cl.append(("mask_of_the_same_tomogram", z3.BoolVal(res["binarized"] == ([res["masks"]] if cfg["masks"] == "one" else [mask]) and (cfg["masks"] == "one" or (len(res["masks"].asked) == 1 and res["masks"].asked[0] is tomos.i)))))
        cl.append(("removed_by_subtomogram_number", z3.BoolVal(field == "subtomo_id" and isinstance(ids, frames.GVec))))
        if not isinstance(ids, frames.GVec):
            return cl
        r = g.df.row
        pos = [zr(r[a]) + zr(r["shift_" + a]) for a in XYZ]
        tr = [z3.If(p >= 0, z3.ToInt(p), -z3.ToInt(-p)) for p in pos]  # int(): truncation toward zero
        inside = z3.And(*[z3.And(tr[a] >= 0, tr[a] < ms[a].t) for a in range(3)])
        zero = mask.fn(*tr) == 0
        cl.append(("numbers_removed_are_those_of_the_particles_inside_the_mask_volume_on_a_zero_voxel", sym.to_bool(ids.present) == z3.And(inside, zero), ()))
        cl.append(("number_is_the_particles_own_subtomogram_number", z3.Implies(sym.to_bool(ids.present), zr(ids.val) == zr(r["subtomo_id"])), ()))
        return cl

    def replay(self, clause, model, cfg):
        from rtc import c09 as r
        return r.replay_kind("mask")


CONTRACTS = [RemoveOutOfBounds, AdaptToTrimming, CleanByDistanceToPoints, CleanByTomoMask]
LEVEL = "proof"
EXPLANATION = ("Inside-predicates of remove_out_of_bounds_particles (both boundary types, per-tomogram dimension lookup, Python truthiness of "
               "`all(...) >= 0` encoded faithfully) and adapt_to_trimming proved on the generic row of the real AST; clean_by_distance_to_points: for an arbitrary group the "
               "appended piece is the group minus exactly the particles with a reference point of the same group within the radius of their complete position (loop over the reference points as an "
               "arbitrary iteration, KD-tree ball-query contract, index reset); clean_by_tomo_mask: in an arbitrary iteration of the loop over the tomograms the subtomogram numbers handed to remove_feature (contract in C08) are "
               "exactly those of the tomogram's particles whose truncated complete position lies inside the mask volume on a zero voxel, the mask of the same tomogram is used, and every mask "
               "index is within bounds (no negative wrap-around). End-to-end runs of all four filters: bounded stand-in.")
ASSUMPTIONS = ["conventions where the statement is silent: inside means 0 <= c-b and c+b < dim with b = 0 ('center') or ceil(box/2) ('whole'); trimming keeps start <= x,y,z <= end on extraction positions; mask voxel of a particle is trunc(pos); within the radius is <=",
               "ioutils.dimensions_load returns a table with one row per tomogram (assumed; exercised by the bounded stand-in)",
               "scipy KDTree.query_ball_point returns exactly the indices within distance <= r (bounded stand-in compares with brute force)",
               "the number of reference points of a group (`.shape[0]` of the selection) is characterised by: 0 <= n <= M and n = 0 iff no row carries the group's value",
               "the particle table carries the default row labels 0..n-1 (requires of the table model; tables with other labels are exercised by the bounded run only)",
               "cryomap.binarize returns a 0/1 array of the mask's shape; Motl.get_motl_subset / remove_feature / get_unique_values are used through their contracts (C08); numpy boolean-mask selection and np.where(mask)[0] keep the masked rows in order"]


def run(ck):
    for C in CONTRACTS:
        ck.run_contract(C())
    from rtc import c09 as r
    n = 60 if ck.tier == "quick" else 2000
    ck.bounded_run("filters", r.gen_cases(ck.seed, n), r.run_case, ref="rtc.c09:run_case", classify=r.classify,
                   rule="seeded lists on 1..4 tomograms with different dims; positions inside, on the faces (0, dim-1, dim, dim+1) and beyond (negative), non-zero shifts; "
                        "both boundary types x box sizes; random trim boxes; reference point sets and radii; binary masks. distinct = (case index, filter kind, size)",
                   bound=f"{n} cases, <= 120 particles")
