"""C09 -- spatial filters: contracts on Motl.remove_out_of_bounds_particles, Motl.adapt_to_trimming (deductive, generic row) and
Motl.clean_by_distance_to_points (arbitrary group x arbitrary reference point, ball-query contract); clean_by_tomo_mask is decided by the
bounded stand-in only."""
import z3
from vfw import sym
from vfw.sym import SV, SB, ctx
from vfw.engine import Contract
from vfw.models import frames
from . import common
from .common import MOTL_COLS, zr
from .c05 import IoutilsStub, _frame_unchanged

XYZ = ("x", "y", "z")


def _interp():
    return common.motl_interp(extra={"ioutils": IoutilsStub})


class RemoveOutOfBounds(Contract):
    prop = "C09"
    module = "cryomotl"
    qual = "Motl.remove_out_of_bounds_particles"
    configs = [{"boundary_type": "center"}, {"boundary_type": "whole"}, {"boundary_type": "whole", "box": "missing"}, {"boundary_type": "other"}]
    # the pinned test suite asserts the missing lower-bound check (tests/test_cryomotl.py::test_remove_out_of_bounds_particles),
    # so this defect is recorded as a known finding rather than repaired
    findings = {"C09-lower-bound-not-checked": {
        "clauses": ["post.kept_implies_inside"],
        "witness": lambda o: _lower_violation(o)}}

    def cfg_name(self, cfg):
        return cfg["boundary_type"] + ("-nobox" if cfg.get("box") else "")

    def bind(self, cx, cfg):
        it = _interp()
        df = common.fresh_motl_frame()
        me = common.motl_obj(it, df)
        dims = frames.KeyedTable("dims", "tomo_id", ["x", "y", "z"])
        cx.assume(dims.has(z3.Real("tomo_id")))  # requires: the particle's own tomogram is listed
        for a in XYZ:
            cx.assume(dims.fn[a](z3.Real("tomo_id")) >= 1)
        if cfg["boundary_type"] == "whole" and not cfg.get("box"):
            box = SV(z3.Int("box"))
            cx.assume(box.t >= 1)
        else:
            box = None
        f = it.function("Motl.remove_out_of_bounds_particles").bind(me)
        return (lambda: f(dims, boundary_type=cfg["boundary_type"], box_size=box)), {"me": me, "old": common.old_row(), "dims": dims, "box": box}

    def _inside(self, cfg, inp):
        old, d = inp["old"], inp["dims"]
        b = z3.RealVal(0) if cfg["boundary_type"] == "center" else z3.ToReal(-z3.ToInt(-(z3.ToReal(inp["box"].t) / 2)))  # ceil(box/2)
        t = old["tomo_id"]
        return z3.And(*[z3.And(old[a] + old["shift_" + a] - b >= 0, old[a] + old["shift_" + a] + b < d.fn[a](t)) for a in XYZ])

    def post(self, cx, cfg, inp, res):
        if cfg["boundary_type"] == "other" or cfg.get("box"):
            return [("bad_arguments_rejected", z3.BoolVal(False))]
        out, old = inp["me"].df, inp["old"]
        inside = self._inside(cfg, inp)
        return [("kept_implies_inside", z3.Implies(out.present, inside), ()),
                ("inside_implies_kept", z3.Implies(inside, out.present), ()),
                ("frame.survivors_unchanged", _frame_unchanged(out, old, MOTL_COLS), ()),
                ("frame.columns", z3.BoolVal(list(out.cols) == MOTL_COLS))]

    def raises(self, cx, cfg, inp, exc):
        if (cfg["boundary_type"] == "other" or cfg.get("box")) and exc.exc_type == "UserInputError":
            return z3.BoolVal(True)
        return z3.BoolVal(False)

    def replay(self, clause, model, cfg):
        from rtc import c09 as r
        return r.replay_oob(model, cfg["boundary_type"], clause)


def _lower_violation(o):
    """witness class of the known finding: the box (or centre) leaves the volume through a lower face"""
    old = common.old_row()
    box = z3.Int("box")
    b = z3.RealVal(0) if "[center]" in o.name else z3.ToReal(-z3.ToInt(-(z3.ToReal(box) / 2)))
    return z3.Or(*[old[a] + old["shift_" + a] - b < 0 for a in XYZ])


class AdaptToTrimming(Contract):
    prop = "C09"
    module = "cryomotl"
    qual = "Motl.adapt_to_trimming"

    def bind(self, cx, cfg):
        it = _interp()
        df = common.fresh_motl_frame()
        me = common.motl_obj(it, df)
        ts = [SV(z3.Real(f"ts{i}")) for i in range(3)]
        te = [SV(z3.Real(f"te{i}")) for i in range(3)]
        f = it.function("Motl.adapt_to_trimming").bind(me)
        return (lambda: f(list(ts), list(te))), {"me": me, "old": common.old_row(), "ts": ts, "te": te}

    def post(self, cx, cfg, inp, res):
        out, old = inp["me"].df, inp["old"]
        ts, te = [x.t for x in inp["ts"]], [x.t for x in inp["te"]]
        inside = z3.And(*[z3.And(old[a] >= ts[i], old[a] <= te[i]) for i, a in enumerate(XYZ)])
        cl = [("kept_iff_inside", out.present == inside, ())]
        for i, a in enumerate(XYZ):
            cl.append((f"offset_{a}", zr(out.row[a]) == old[a] - (ts[i] - 1), ()))
        cl.append(("frame.other_fields", _frame_unchanged(out, old, [c for c in MOTL_COLS if c not in XYZ]), ()))
        cl.append(("frame.columns", z3.BoolVal(list(out.cols) == MOTL_COLS)))
        return cl

    def replay(self, clause, model, cfg):
        from rtc import c09 as r
        return r.replay_trim(model)


# ---------------------------------------------------------------------------------------------------------------------------------
# clean_by_distance_to_points: outer loop over groups = arbitrary iteration; inner loop over the reference points of the group = arbitrary
# iteration whose ball-query result is added to a set; the set's membership is the existential closure over the inner loop's point


class _RefPoints(frames._Generic):
    """points.loc[points[feature] == f, ["x", "y", "z"]].values: the reference points of group f, one row per point (position functions of j)"""

    def __init__(self, owner, f):
        self.owner, self.f = owner, f

    def __generic_for__(self, interp, st, env):
        from vfw.models import kernels, npm
        o = self.owner
        j = z3.Int("ref_point_index")
        o.loop_var = j

        def bind(e):
            e.vars[st.target.id] = _RefPoint(o, j)
            return [z3.And(j >= 0, j < o.M, o.feat(j) == sym.real(sym.to_z3(self.f)))]
        kernels.generic_body(interp, st, env, bind)


class _RefPoint:
    def __init__(self, owner, j):
        self.owner, self.j = owner, j

    def coords(self):
        return [self.owner.Q[a](self.j) for a in range(3)]


class _PointsTable:
    """the table of reference points: columns <feature>, x, y, z; row j = (feat(j), Q0(j), Q1(j), Q2(j))"""

    def __init__(self, feature):
        self.feature = feature
        self.M = z3.Int("n_ref_points")
        self.feat = z3.Function("ref_feature", z3.IntSort(), z3.RealSort())
        self.Q = [z3.Function(f"ref_{a}", z3.IntSort(), z3.RealSort()) for a in XYZ]
        self.selected = []
        self.loop_var = None

    def __getitem__(self, c):
        if c != self.feature:
            raise sym.Unsupported("reference points: column other than the grouping field")
        owner = self

        class Col:
            def __eq__(self, v):
                return ("feature-equals", v)
            __hash__ = None
        return Col()

    @property
    def loc(self):
        owner = self

        class L:
            def __getitem__(self, k):
                if isinstance(k, tuple) and isinstance(k[0], tuple) and k[0][0] == "feature-equals" and list(k[1]) == list(XYZ):
                    owner.selected.append(k[0][1])

                    class Sel:
                        values = _RefPoints(owner, k[0][1])
                    return Sel()
                raise sym.Unsupported("reference points: loc form")
        return L()


class _BallTree:
    """assumed contract of scipy.spatial.KDTree(P).query_ball_point(q, r): exactly the row positions i of P with |P_i - q| <= r"""

    def __init__(self, pts):
        self.pts = pts

    def query_ball_point(self, q, r=None, **k):
        if not isinstance(q, _RefPoint) or r is None:
            raise sym.Unsupported("ball query form")
        return ("ball", self, q, r)


class _RemoveSet(frames._Generic):
    """indices_to_remove: a set of row positions filled by .update(ball) inside the loop over the reference points"""

    def __init__(self):
        self.sites = []

    def update(self, ball):
        if not (isinstance(ball, tuple) and ball[0] == "ball"):
            raise sym.Unsupported("set.update with something else than a ball-query result")
        cx = ctx()
        self.sites.append({"tree": ball[1], "q": ball[2], "r": ball[3], "pc": [e[0] for e in cx.pc[getattr(cx, "_outer_loop_pc", 0):]]})


class _GroupDF:
    def __init__(self, group):
        self.group, self.dropped = group, None
        self.shape = (group.space.n, 20)
        self.row = group.df.row  # the group's table (position functions); only drop() is modelled beyond that

    def drop(self, index=None, **k):
        if not (isinstance(index, tuple) and index[0] == "sorted" and isinstance(index[1], _RemoveSet)) or k:
            raise sym.Unsupported("drop form")
        self.dropped = index[1]
        return ("piece", self.group, index[1])


class CleanByDistanceToPoints(Contract):
    """Motl.clean_by_distance_to_points: for an arbitrary group the appended piece holds exactly the group's particles that have no reference
    point of the same group within the radius (complete positions, distance <= radius)"""
    prop = "C09"
    module = "cryomotl"
    qual = "Motl.clean_by_distance_to_points"
    configs = [{"feature": "tomo_id", "inplace": True}, {"feature": "object_id", "inplace": False}]

    def cfg_name(self, cfg):
        return f"group={cfg['feature']},inplace={cfg['inplace']}"

    def bind(self, cx, cfg):
        from .c07 import Group, Accum, PDStub, PosArr
        from .c18 import FeatureKeys
        it = _interp()
        df = common.fresh_motl_frame(angles=False)
        me = common.motl_obj(it, df)
        pts = _PointsTable(cfg["feature"])
        cx.assume(pts.M >= 0)
        R = SV(z3.Real("radius"))
        cx.assume(R.t >= 0)
        rec = {"groups": [], "sets": [], "trees": [], "motl": []}

        def mk_group(self_, f, feature_id="tomo_id", reset_index=False, **k):
            g = Group(it, "grp_", f, feature_id)
            g.reset = reset_index
            g.df = _GroupDF(g)
            rec["groups"].append(g)
            return g

        def mkset(*a):
            if a:
                return set(*a)
            s = _RemoveSet()
            rec["sets"].append(s)
            return s

        def mktree(p):
            t = _BallTree(p)
            rec["trees"].append(t)
            return t

        class Result:
            def __init__(self, d):
                self.df = d
                rec["motl"].append(self)

        it.contracts["Motl.get_motl_subset"] = mk_group
        it.contracts["Motl.get_unique_values"] = lambda self_, fid: (rec.__setitem__("unique_of", fid), FeatureKeys())[1]
        it.globals.update({"set": mkset, "KDTree": mktree, "sorted": lambda s: ("sorted", s), "pd": PDStub(it.globals["pd"]), "Motl": Result})
        f = it.function("Motl.clean_by_distance_to_points").bind(me)

        def thunk():
            for k in ("groups", "sets", "trees", "motl"):
                rec[k] = []
            r = f(pts, R, feature_id=cfg["feature"], inplace=cfg["inplace"])
            return dict(rec, ret=r, out=me.df, pts=pts)
        return thunk, {"me": me, "df": df, "R": R, "pts": pts}

    def post(self, cx, cfg, inp, res):
        from .c07 import Accum, PosArr
        R, pts = inp["R"].t, inp["pts"]
        acc = res["out"] if cfg["inplace"] else getattr(res["ret"], "df", None)
        cl = [("groups_are_the_values_of_the_grouping_field", z3.BoolVal(res.get("unique_of") == cfg["feature"])),
              ("result_delivered_as_requested", z3.BoolVal((res["ret"] is None and cfg["inplace"]) or (not cfg["inplace"] and res["ret"] is not None and res["out"] is inp["df"])))]
        ok = isinstance(acc, Accum) and len(acc.pieces) == 1 and len(res["groups"]) == 1 and len(res["sets"]) == 1 and len(res["trees"]) == 1
        cl.append(("one_piece_per_group_from_one_tree_and_one_removal_set", z3.BoolVal(bool(ok))))
        if not ok:
            return cl
        g, rs, tree = res["groups"][0], res["sets"][0], res["trees"][0]
        piece, ign = acc.pieces[0]
        cl.append(("group_selected_by_the_grouping_field_with_index_reset", z3.BoolVal(g.feature == cfg["feature"] and g.reset is True and bool(ign))))
        cl.append(("piece_is_the_group_minus_the_collected_positions", z3.BoolVal(isinstance(piece, tuple) and piece[0] == "piece" and piece[1] is g and piece[2] is rs)))
        cl.append(("tree_holds_the_groups_complete_positions", z3.BoolVal(isinstance(tree.pts, PosArr) and tree.pts is g.pos)))
        cl.append(("reference_points_are_those_of_the_same_group", z3.BoolVal(len(pts.selected) == 1 and pts.selected[0] is g.f)))
        one = len(rs.sites) == 1 and rs.sites[0]["tree"] is tree
        cl.append(("every_reference_point_of_the_group_is_queried_once", z3.BoolVal(bool(one))))
        if not one:
            return cl
        s = rs.sites[0]
        # membership of row position i in the removal set = exists j (loop facts of j) with |P_i - Q_j| <= r   (assumed ball-query contract)
        i, j = z3.Int("i!rm"), z3.Int("j!rm")
        jv = pts.loop_var
        pv = frames.RowPos(g.space).val.t
        P = [sym.real(sym.to_z3(v)) for v in g.pos.vals]
        Pi = [z3.substitute(p, (pv, i)) for p in P]
        d2 = lambda jj: sum(((Pi[a] - pts.Q[a](jj)) * (Pi[a] - pts.Q[a](jj)) for a in range(3)), z3.RealVal(0))
        loop_facts = z3.And(*[z3.substitute(c, (jv, j)) for c in s["pc"]]) if s["pc"] else z3.BoolVal(True)
        r_used = sym.real(sym.to_z3(s["r"]))
        member = z3.Exists([j], z3.And(loop_facts, d2(j) <= r_used * r_used))
        # independent statement: removed iff some reference point of the same group lies within the radius of the complete position
        x = {a: z3.Function(f"grp_{a}", z3.IntSort(), z3.RealSort()) for a in ("x", "y", "z", "shift_x", "shift_y", "shift_z")}
        pos_i = [x[a](i) + x["shift_" + a](i) for a in XYZ]
        spec = z3.Exists([j], z3.And(j >= 0, j < pts.M, pts.feat(j) == sym.real(sym.to_z3(g.f)), sum(((pos_i[a] - pts.Q[a](j)) ** 2 for a in range(3)), z3.RealVal(0)) <= R * R))
        cl.append(("removed_iff_a_reference_point_of_the_same_group_is_within_the_radius", z3.ForAll([i], z3.Implies(z3.And(i >= 0, i < sym.to_z3(g.space.n)), member == spec)), ()))
        cl.append(("query_point_is_the_reference_point_itself", z3.BoolVal(isinstance(s["q"], _RefPoint) and s["q"].j.eq(jv))))
        return cl

    def replay(self, clause, model, cfg):
        from rtc import c09 as r
        return r.replay_kind("points")


CONTRACTS = [RemoveOutOfBounds, AdaptToTrimming, CleanByDistanceToPoints]
LEVEL = "proof"
EXPLANATION = ("Inside-predicates of remove_out_of_bounds_particles (both boundary types, per-tomogram dimension lookup, Python truthiness of "
               "`all(...) >= 0` encoded faithfully) and adapt_to_trimming proved on the generic row of the real AST; clean_by_distance_to_points: for an arbitrary group the "
               "appended piece is the group minus exactly the particles with a reference point of the same group within the radius of their complete position (loop over the reference points as an "
               "arbitrary iteration, KD-tree ball-query contract, index reset); clean_by_tomo_mask is out of deductive reach (fancy indexing of the mask, in-place removal across iterations) and is "
               "decided by the bounded stand-in only.")
ASSUMPTIONS = ["conventions where the statement is silent: inside means 0 <= c-b and c+b < dim with b = 0 ('center') or ceil(box/2) ('whole'); trimming keeps start <= x,y,z <= end on extraction positions; mask voxel of a particle is trunc(pos); within the radius is <=",
               "ioutils.dimensions_load returns a table with one row per tomogram (assumed; exercised by the bounded stand-in)",
               "scipy KDTree.query_ball_point returns exactly the indices within distance <= r (bounded stand-in compares with brute force)"]


def run(ck):
    for C in CONTRACTS:
        ck.run_contract(C())
    from rtc import c09 as r
    n = 60 if ck.tier == "quick" else 2000
    ck.bounded_run("filters", r.gen_cases(ck.seed, n), r.run_case, ref="rtc.c09:run_case", classify=r.classify,
                   rule="seeded lists on 1..4 tomograms with different dims; positions inside, on the faces (0, dim-1, dim, dim+1) and beyond (negative), non-zero shifts; "
                        "both boundary types x box sizes; random trim boxes; reference point sets and radii; binary masks. distinct = (case index, filter kind, size)",
                   bound=f"{n} cases, <= 120 particles")
