"""C09 -- spatial filters: contracts on Motl.remove_out_of_bounds_particles and Motl.adapt_to_trimming (deductive,
generic row); clean_by_distance_to_points and clean_by_tomo_mask are decided by the bounded stand-in only."""
import z3
from vfw import sym
from vfw.sym import SV, SB, ctx
from vfw.engine import Contract
from vfw.models import frames
from . import common
from .common import MOTL_COLS, zr
from .c05 import IoutilsStub, _frame_unchanged

XYZ = ("x", "y", "z")


def _interp():
    return common.motl_interp(extra={"ioutils": IoutilsStub})


class RemoveOutOfBounds(Contract):
    prop = "C09"
    module = "cryomotl"
    qual = "Motl.remove_out_of_bounds_particles"
    configs = [{"boundary_type": "center"}, {"boundary_type": "whole"}, {"boundary_type": "whole", "box": "missing"}, {"boundary_type": "other"}]
    # the pinned test suite asserts the missing lower-bound check (tests/test_cryomotl.py::test_remove_out_of_bounds_particles),
    # so this defect is recorded as a known finding rather than repaired
    findings = {"C09-lower-bound-not-checked": {
        "clauses": ["post.kept_implies_inside"],
        "witness": lambda o: _lower_violation(o)}}

    def cfg_name(self, cfg):
        return cfg["boundary_type"] + ("-nobox" if cfg.get("box") else "")

    def bind(self, cx, cfg):
        it = _interp()
        df = common.fresh_motl_frame()
        me = common.motl_obj(it, df)
        dims = frames.KeyedTable("dims", "tomo_id", ["x", "y", "z"])
        cx.assume(dims.has(z3.Real("tomo_id")))  # requires: the particle's own tomogram is listed
        for a in XYZ:
            cx.assume(dims.fn[a](z3.Real("tomo_id")) >= 1)
        if cfg["boundary_type"] == "whole" and not cfg.get("box"):
            box = SV(z3.Int("box"))
            cx.assume(box.t >= 1)
        else:
            box = None
        f = it.function("Motl.remove_out_of_bounds_particles").bind(me)
        return (lambda: f(dims, boundary_type=cfg["boundary_type"], box_size=box)), {"me": me, "old": common.old_row(), "dims": dims, "box": box}

    def _inside(self, cfg, inp):
        old, d = inp["old"], inp["dims"]
        b = z3.RealVal(0) if cfg["boundary_type"] == "center" else z3.ToReal(-z3.ToInt(-(z3.ToReal(inp["box"].t) / 2)))  # ceil(box/2)
        t = old["tomo_id"]
        return z3.And(*[z3.And(old[a] + old["shift_" + a] - b >= 0, old[a] + old["shift_" + a] + b < d.fn[a](t)) for a in XYZ])

    def post(self, cx, cfg, inp, res):
        if cfg["boundary_type"] == "other" or cfg.get("box"):
            return [("bad_arguments_rejected", z3.BoolVal(False))]
        out, old = inp["me"].df, inp["old"]
        inside = self._inside(cfg, inp)
        return [("kept_implies_inside", z3.Implies(out.present, inside), ()),
                ("inside_implies_kept", z3.Implies(inside, out.present), ()),
                ("frame.survivors_unchanged", _frame_unchanged(out, old, MOTL_COLS), ()),
                ("frame.columns", z3.BoolVal(list(out.cols) == MOTL_COLS))]

    def raises(self, cx, cfg, inp, exc):
        if (cfg["boundary_type"] == "other" or cfg.get("box")) and exc.exc_type == "UserInputError":
            return z3.BoolVal(True)
        return z3.BoolVal(False)

    def replay(self, clause, model, cfg):
        from rtc import c09 as r
        return r.replay_oob(model, cfg["boundary_type"], clause)


def _lower_violation(o):
    """witness class of the known finding: the box (or centre) leaves the volume through a lower face"""
    old = common.old_row()
    box = z3.Int("box")
    b = z3.RealVal(0) if "[center]" in o.name else z3.ToReal(-z3.ToInt(-(z3.ToReal(box) / 2)))
    return z3.Or(*[old[a] + old["shift_" + a] - b < 0 for a in XYZ])


class AdaptToTrimming(Contract):
    prop = "C09"
    module = "cryomotl"
    qual = "Motl.adapt_to_trimming"

    def bind(self, cx, cfg):
        it = _interp()
        df = common.fresh_motl_frame()
        me = common.motl_obj(it, df)
        ts = [SV(z3.Real(f"ts{i}")) for i in range(3)]
        te = [SV(z3.Real(f"te{i}")) for i in range(3)]
        f = it.function("Motl.adapt_to_trimming").bind(me)
        return (lambda: f(list(ts), list(te))), {"me": me, "old": common.old_row(), "ts": ts, "te": te}

    def post(self, cx, cfg, inp, res):
        out, old = inp["me"].df, inp["old"]
        ts, te = [x.t for x in inp["ts"]], [x.t for x in inp["te"]]
        inside = z3.And(*[z3.And(old[a] >= ts[i], old[a] <= te[i]) for i, a in enumerate(XYZ)])
        cl = [("kept_iff_inside", out.present == inside, ())]
        for i, a in enumerate(XYZ):
            cl.append((f"offset_{a}", zr(out.row[a]) == old[a] - (ts[i] - 1), ()))
        cl.append(("frame.other_fields", _frame_unchanged(out, old, [c for c in MOTL_COLS if c not in XYZ]), ()))
        cl.append(("frame.columns", z3.BoolVal(list(out.cols) == MOTL_COLS)))
        return cl

    def replay(self, clause, model, cfg):
        from rtc import c09 as r
        return r.replay_trim(model)


CONTRACTS = [RemoveOutOfBounds, AdaptToTrimming]
LEVEL = "proof"
EXPLANATION = ("Inside-predicates of remove_out_of_bounds_particles (both boundary types, per-tomogram dimension lookup, Python truthiness of "
               "`all(...) >= 0` encoded faithfully) and adapt_to_trimming proved on the generic row of the real AST; clean_by_distance_to_points and "
               "clean_by_tomo_mask are out of deductive reach (KD-tree ball query, fancy indexing) and are decided by the bounded stand-in only.")
ASSUMPTIONS = ["conventions where the statement is silent: inside means 0 <= c-b and c+b < dim with b = 0 ('center') or ceil(box/2) ('whole'); trimming keeps start <= x,y,z <= end on extraction positions; mask voxel of a particle is trunc(pos); within the radius is <=",
               "ioutils.dimensions_load returns a table with one row per tomogram (assumed; exercised by the bounded stand-in)",
               "scipy KDTree.query_ball_point returns exactly the indices within distance <= r (bounded stand-in compares with brute force)"]


def run(ck):
    for C in CONTRACTS:
        ck.run_contract(C())
    from rtc import c09 as r
    n = 60 if ck.tier == "quick" else 2000
    ck.bounded_run("filters", r.gen_cases(ck.seed, n), r.run_case, ref="rtc.c09:run_case", classify=r.classify,
                   rule="seeded lists on 1..4 tomograms with different dims; positions inside, on the faces (0, dim-1, dim, dim+1) and beyond (negative), non-zero shifts; "
                        "both boundary types x box sizes; random trim boxes; reference point sets and radii; binary masks. distinct = (case index, filter kind, size)",
                   bound=f"{n} cases, <= 120 particles")
