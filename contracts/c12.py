"""C12 -- Fourier filters: resolution<->pixel mapping, filter-radius dispatch, and the Fourier-space gain of lowpass / highpass /
bandpass for hard edges as a function of the integer frequency (deductive, generic DFT index, fftshift index model, callee
contract of cryomask.spherical_mask from C13); linear/real/shift-commuting consequences as lemmas over the FFT contract;
soft edges and the DFT-level behaviour bounded."""
import z3
from vfw import sym
from vfw.sym import SV, SB, ctx, Unsupported
from vfw.engine import Contract
from vfw.interp import Interp
from vfw.models import voxels, npm
from vfw.models.voxels import V
from . import common
from .common import zr


class CryomaskContract:
    """callee contract of cryomask.spherical_mask (proved in C13, configs radius=given / radius=given+default centre):
    requires radius >= 0; ensures mask[i] = 1 iff |i - c|^2 <= radius^2 (c = size//2 by default), 0 otherwise, for gaussian == 0"""
    calls = []

    @staticmethod
    def spherical_mask(mask_size, radius=None, center=None, gaussian=0.0, gaussian_outwards=True, output_name=None):
        cx = ctx()
        size = list(mask_size)
        if len(size) != 3 or radius is None:
            raise Unsupported("spherical_mask call form outside the callee contract")
        cx.oblige("pre@spherical_mask.radius-nonnegative", sym.to_z3(radius) >= 0, kind="pre")
        cen = [sym.to_z3(s) / 2 for s in size] if center is None else [sym.to_z3(c) for c in center]
        r = sym.real(sym.to_z3(radius))
        if not (isinstance(gaussian, (int, float)) and gaussian == 0):
            # soft edge: the value is an unspecified function of (radius, sigma, direction, offset from the centre) with values in [0,1]
            # (assumed callee contract; the Gaussian profile itself is only checked by the bounded stand-in)
            off = [z3.ToReal(V(a)) - z3.ToReal(cen[a]) for a in range(3)]
            val = SOFT(r, sym.real(sym.to_z3(gaussian)), z3.IntVal(1 if gaussian_outwards else 0), *off)
            CryomaskContract.calls.append((size, radius))
            return voxels.VArr(size, SV(val))
        d2 = sum(((z3.ToReal(V(a)) - z3.ToReal(cen[a])) * (z3.ToReal(V(a)) - z3.ToReal(cen[a])) for a in range(3)), z3.RealVal(0))
        CryomaskContract.calls.append((size, radius))
        return voxels.VArr(size, SV(z3.If(d2 <= r * r, z3.RealVal(1), z3.RealVal(0))))


SOFT = z3.Function("soft_sphere", z3.RealSort(), z3.RealSort(), z3.IntSort(), z3.RealSort(), z3.RealSort(), z3.RealSort(), z3.RealSort())


def _soft_range(cx):
    r, s, d0, d1, d2 = z3.Reals("r!s s!s d0!s d1!s d2!s")
    o = z3.Int("o!s")
    cx.axiom("spherical_mask(gaussian>0) callee contract: values in [0,1]", z3.ForAll([r, s, o, d0, d1, d2], z3.And(SOFT(r, s, o, d0, d1, d2) >= 0, SOFT(r, s, o, d0, d1, d2) <= 1)))


def _interp():
    g = common.base_globals()
    g.update({"fft": voxels.FFT, "cryomask": CryomaskContract})
    it = Interp("cryomap", g, contracts={"write": lambda *a, **k: None})
    return it


def _freq(size):
    """signed integer frequency of DFT index V_a:  k = V if V < ceil(N/2) else V - N"""
    ks = []
    for a, n in enumerate(size):
        nt = n.t
        ks.append(z3.If(V(a) < (nt + 1) / 2, V(a), V(a) - nt))
    return ks


def _inb(size):
    return z3.And(*[z3.And(V(a) >= 0, V(a) < s.t) for a, s in enumerate(size)])


class _Filter(Contract):
    prop = "C12"
    module = "cryomap"
    configs = [{"cutoff": "pixels"}, {"cutoff": "resolution"}, {"cutoff": "pixels", "soft": True}]

    def cfg_name(self, cfg):
        return cfg["cutoff"] + (",soft-edge" if cfg.get("soft") else "")

    def _sig(self, cx, cfg, n):
        """gaussian widths: 0 (hard edge) or symbolic positive widths (soft edge, callee contract of the soft mask)"""
        if not cfg.get("soft"):
            return [0] * n
        _soft_range(cx)
        sg = [SV(z3.Real(f"sigma{j}")) for j in range(n)]
        for s in sg:
            cx.assume(s.t > 0)
        return sg

    def _args(self, cx, cfg, n_cut):
        size = [SV(z3.Int(n)) for n in ("X", "Y", "Z")]
        for s in size:
            cx.assume(s.t >= 2)
        x = voxels.input_array("map", list(size))
        cuts = []
        for j in range(n_cut):
            if cfg["cutoff"] == "pixels":
                c = SV(z3.Int(f"cut{j}"))
                cx.assume(c.t >= 0)
                cuts.append({"fourier_pixels": c, "radius": c.t})
            else:
                res, px = SV(z3.Real(f"res{j}")), SV(z3.Real("pixel_size"))
                cx.assume(z3.And(res.t > 0, px.t > 0))
                q = z3.ToReal(size[0].t) * px.t / res.t
                f = z3.ToInt(q + z3.RealVal("1/2"))
                rad = z3.If(z3.And(z3.ToReal(f) == q + z3.RealVal("1/2"), f % 2 != 0), f - 1, f)  # round half to even, as Python's round()
                cuts.append({"target_resolution": res, "pixel_size": px, "radius": rad})
        return size, x, cuts

    def _check(self, inp, res, gain_of, soft=False):
        size, x = inp["size"], inp["x"]
        cl = [("result_is_filtered_input", z3.BoolVal(isinstance(res, voxels.FilteredMap) and res.source is not None and res.source.elem.t.eq(x.elem.t) and len(res.gains) == 1)),
              ("result_is_real_part", z3.BoolVal(isinstance(res, voxels.FilteredMap) and res.real))]
        if not isinstance(res, voxels.FilteredMap) or len(res.gains) != 1:
            return cl
        cl.append(("spectrum_is_back_in_natural_layout_at_the_inverse_transform", z3.And(*[r == 0 for r in res.spectrum_roll]) if res.spectrum_roll else z3.BoolVal(True), ("local",)))
        G = res.gains[0]
        k = _freq(size)
        hy = [_inb(size)]
        cl.append(("gain_shape", z3.And(*[voxels._size_t(a) == b.t for a, b in zip(G.shape_, size)]), (), hy))
        # The gain at DFT index V is the mask value at the ifftshift-ed index S(V); the proof is split so that each step is within the
        # solver's reach:  (i) G == gain_of(sum (S_a - c_a)^2) [structure],  (ii) per axis S_a - c_a == k_a, the signed integer
        # frequency [linear integer arithmetic],  (iii) substitutivity: equal arguments give equal gains [EUF].
        S = [z3.If(V(a) + n.t / 2 >= n.t, V(a) + n.t / 2 - n.t, V(a) + n.t / 2) for a, n in enumerate(size)]
        D = [z3.ToReal(S[a]) - z3.ToReal(size[a].t / 2) for a in range(3)]
        cl.append(("gain_is_mask_value_at_shifted_index", zr(G.elem) == (gain_of(D) if soft else gain_of(sum((d * d for d in D), z3.RealVal(0)))), (), hy))
        for a in range(3):
            cl.append((f"shifted_index_minus_centre_is_signed_frequency_axis{a}", S[a] - size[a].t / 2 == k[a], (), hy))
        F = z3.Function("gain_expr", z3.RealSort(), z3.RealSort(), z3.RealSort(), z3.RealSort())
        cl.append(("gain_is_documented_function_of_frequency_radius", F(*D) == F(*[z3.ToReal(t) for t in k]), (), hy + [D[a] == z3.ToReal(k[a]) for a in range(3)]))
        cl.append(("gain_in_0_1", z3.And(zr(G.elem) >= 0, zr(G.elem) <= 1), (), hy))
        cl.append(("gain_independent_of_the_map", z3.BoolVal("map" not in G.elem.t.sexpr())))
        cl.append(("frame.input_not_mutated", z3.BoolVal(bool(x.elem.t.eq(inp["orig"])))))
        return cl

    def replay(self, clause, model, cfg):
        from rtc import c12 as r
        return r.replay_gain(self.qual, model)


def _ind(c):
    return z3.If(c, z3.RealVal(1), z3.RealVal(0))


class Lowpass(_Filter):
    qual = "lowpass"

    def bind(self, cx, cfg):
        it = _interp()
        size, x, cuts = self._args(cx, cfg, 1)
        kw = {k: v for k, v in cuts[0].items() if k != "radius"}
        sg = self._sig(cx, cfg, 1)
        return (lambda: it.function("lowpass")(x, gaussian=sg[0], **kw)), {"size": size, "x": x, "orig": x.elem.t, "r": [c["radius"] for c in cuts], "sg": sg}

    def post(self, cx, cfg, inp, res):
        r = z3.ToReal(inp["r"][0])
        if cfg.get("soft"):
            return self._check(inp, res, lambda D: SOFT(r, inp["sg"][0].t, 0, *D), soft=True)
        return self._check(inp, res, lambda k2: _ind(k2 <= r * r))


class Highpass(_Filter):
    qual = "highpass"

    def bind(self, cx, cfg):
        it = _interp()
        size, x, cuts = self._args(cx, cfg, 1)
        kw = {k: v for k, v in cuts[0].items() if k != "radius"}
        sg = self._sig(cx, cfg, 1)
        return (lambda: it.function("highpass")(x, gaussian=sg[0], **kw)), {"size": size, "x": x, "orig": x.elem.t, "r": [c["radius"] for c in cuts], "sg": sg}

    def post(self, cx, cfg, inp, res):
        r = z3.ToReal(inp["r"][0])
        if cfg.get("soft"):
            return self._check(inp, res, lambda D: 1 - SOFT(r, inp["sg"][0].t, 0, *D), soft=True)  # exact complement of the low-pass gain
        return self._check(inp, res, lambda k2: 1 - _ind(k2 <= r * r))


class Bandpass(_Filter):
    qual = "bandpass"

    def bind(self, cx, cfg):
        it = _interp()
        size, x, cuts = self._args(cx, cfg, 2)
        if cfg["cutoff"] == "pixels":
            kw = {"lp_fourier_pixels": cuts[0]["fourier_pixels"], "hp_fourier_pixels": cuts[1]["fourier_pixels"]}
            cx.assume(cuts[0]["radius"] >= cuts[1]["radius"])
        else:
            kw = {"lp_target_resolution": cuts[0]["target_resolution"], "hp_target_resolution": cuts[1]["target_resolution"], "pixel_size": cuts[0]["pixel_size"]}
            cx.assume(cuts[0]["target_resolution"].t <= cuts[1]["target_resolution"].t)
        sg = self._sig(cx, cfg, 2)
        return (lambda: it.function("bandpass")(x, lp_gaussian=sg[0], hp_gaussian=sg[1], **kw)), {"size": size, "x": x, "orig": x.elem.t, "r": [c["radius"] for c in cuts], "sg": sg}

    def post(self, cx, cfg, inp, res):
        rl, rh = z3.ToReal(inp["r"][0]), z3.ToReal(inp["r"][1])
        if cfg.get("soft"):
            # difference of the two low-pass gains (which may be negative where the soft edges overlap)
            cl = self._check(inp, res, lambda D: SOFT(rl, inp["sg"][0].t, 0, *D) - SOFT(rh, inp["sg"][1].t, 0, *D), soft=True)
            return [c for c in cl if c[0] != "gain_in_0_1"]
        return self._check(inp, res, lambda k2: _ind(k2 <= rl * rl) - _ind(k2 <= rh * rh))


class FilterRadius(Contract):
    prop = "C12"
    module = "cryomap"
    qual = "get_filter_radius"
    configs = [{"form": "pixels"}, {"form": "pixels+pixel_size"}, {"form": "resolution"}, {"form": "nothing"}, {"form": "resolution-without-pixel-size"}]

    def cfg_name(self, cfg):
        return cfg["form"]

    def bind(self, cx, cfg):
        it = _interp()
        edge, fp, res, px = SV(z3.Int("edge")), SV(z3.Int("fourier_pixels")), SV(z3.Real("resolution")), SV(z3.Real("pixel_size"))
        cx.assume(z3.And(edge.t >= 1, fp.t >= 1, res.t > 0, px.t > 0))
        f = it.function("get_filter_radius")
        a = {"pixels": (edge, fp, None, None), "pixels+pixel_size": (edge, fp, None, px), "resolution": (edge, None, res, px), "nothing": (edge, None, None, None),
             "resolution-without-pixel-size": (edge, None, res, None)}[cfg["form"]]
        return (lambda: f(*a)), {"edge": edge, "fp": fp, "res": res, "px": px}

    def post(self, cx, cfg, inp, res):
        if cfg["form"] in ("nothing", "resolution-without-pixel-size"):
            return [("missing_cutoff_rejected", z3.BoolVal(False))]
        if cfg["form"].startswith("pixels"):
            return [("radius_is_fourier_pixels", sym.to_z3(res) == inp["fp"].t, ())]
        q = z3.ToReal(inp["edge"].t) * inp["px"].t / inp["res"].t
        f = z3.ToInt(q + z3.RealVal("1/2"))
        exp = z3.If(z3.And(z3.ToReal(f) == q + z3.RealVal("1/2"), f % 2 != 0), f - 1, f)
        return [("radius_is_round_box_times_pixel_over_resolution", sym.to_z3(res) == exp, ())]

    def raises(self, cx, cfg, inp, exc):
        return z3.BoolVal(cfg["form"] in ("nothing", "resolution-without-pixel-size") and exc.exc_type == "ValueError")


CONTRACTS = [FilterRadius, Lowpass, Highpass, Bandpass]
LEVEL = "proof"
EXPLANATION = ("For hard edges (gaussian = 0) the result of lowpass/highpass/bandpass is Re ifftn(fftn(x) * G) with a gain array G that does not depend on x and whose value at the generic DFT "
               "index equals the documented function of the integer frequency radius: 1 up to the cutoff (inclusive) and 0 beyond; high-pass = 1 - low-pass; band-pass = difference of the two "
               "low-passes; non-cubic boxes and both ways of giving the cutoff (Fourier pixels, resolution + pixel size with Python's round). Proved over the fftshift index model and the callee "
               "contract of cryomask.spherical_mask (C13). For soft edges (gaussian > 0) the mask is an opaque callee value in [0,1] and the same structure is proved: low-pass gain = soft mask at the shifted index, high-pass = 1 - it, band-pass = difference of the two low-pass gains (not clipped). Linearity, realness, shift commutation follow from the FFT contract (lemmas). The Gaussian profile itself and DFT-level checks: bounded.")
ASSUMPTIONS = ["numpy.fft contract: fftn/ifftn mutually inverse linear maps diagonalising circular shifts; ifftshift(a)[i] = a[(i + n//2) mod n]",
               "callee contract of cryomask.spherical_mask (proved in C13); cutoff inclusive; resolution maps with Python's round() (half to even) using the first axis as box size"]


def lemmas(ck):
    # consequences of 'output = Re ifftn(fftn(x) * G), G real and independent of x' under the assumed FFT contract:
    a, b, G, s, t = z3.Reals("Xa Xb G s t")
    ck.lemma("linear_in_fourier_space", [], (s * a + t * b) * G == s * (a * G) + t * (b * G), tactics=("poly",), note="per Fourier component; fftn/ifftn linear (assumed) => the filter is linear")
    ph, Xr, Xi = z3.Reals("ph_r Xr Xi")
    ck.lemma("commutes_with_circular_shift", [], (Xr * ph) * G == (Xr * G) * ph, tactics=("poly",), note="a circular shift multiplies every Fourier component by a phase; a component-wise real gain commutes with it")
    l, h = z3.Reals("lp hp")
    ck.lemma("band_is_difference_and_high_is_complement", [], z3.And(Xr * (l - h) == Xr * l - Xr * h, Xr * (1 - l) == Xr - Xr * l), tactics=("poly",))


def run(ck):
    for C in CONTRACTS:
        ck.run_contract(C())
    lemmas(ck)
    from rtc import c12 as r
    n = 40 if ck.tier == "quick" else 600
    ck.bounded_run("fourier_gain", r.gen_cases(ck.seed, n, 20 if ck.tier == "quick" else 48), r.run_case, ref="rtc.c12:run_case",
                   rule="real maps of size 8..N per axis (cubic and non-cubic), random fields and plane waves at integer frequencies, cutoffs 1..N/2 as Fourier pixels or resolution+pixel size, Gaussian widths 0..4; "
                        "DFT of the real output compared with gain x DFT of the input; gain profile, linearity, shift commutation, complementarity. distinct = (case, filter, box, sigma)",
                   bound=f"{n} cases, box <= {20 if ck.tier == 'quick' else 48}")
