"""C13 -- masks: hard-edged sphere / cylinder / spherical shell membership per generic voxel, voxel-wise set algebra with
no input mutation, preprocess_params (deductive); ellipsoid grid, soft edges and the name-based generator (bounded)."""
import z3
from vfw import sym
from vfw.sym import SV, SB, ctx
from vfw.engine import Contract
from vfw.models import voxels, npm
from vfw.models.voxels import V
from . import common
from .common import zr


class CryomapStub:
    """assumed contract of cryomap.read for array input: returns a NEW array with the same voxels (np.array(..., copy=True)).
    (cryomap.read itself is under contract in C11.)"""
    reads = []

    @staticmethod
    def read(m, *a, **k):
        if isinstance(m, voxels.VArr):
            c = m.copy()
            return c
        raise sym.Unsupported("cryomap.read of a file in this binding")

    @staticmethod
    def write(*a, **k):
        return None

    @staticmethod
    def rotate(*a, **k):
        raise sym.Unsupported("mask rotation (cryomap.rotate) is outside this contract")


def _interp():
    return common.mask_interp(extra={"cryomap": CryomapStub})


def _box(cx):
    size = [SV(z3.Int(n)) for n in ("X", "Y", "Z")]
    cen = [SV(z3.Int(n)) for n in ("cx", "cy", "cz")]
    for s, c in zip(size, cen):
        cx.assume(z3.And(s.t >= 1, c.t >= 0, c.t < s.t))
    return size, cen


def _inb(size):
    return z3.And(*[z3.And(V(a) >= 0, V(a) < size[a].t) for a in range(len(size))])


def _d2(cen, axes=(0, 1, 2)):
    return sum(((z3.ToReal(V(a)) - z3.ToReal(cen[a].t)) * (z3.ToReal(V(a)) - z3.ToReal(cen[a].t)) for a in axes), z3.RealVal(0))


class Sphere(Contract):
    prop = "C13"
    module = "cryomask"
    qual = "spherical_mask"
    configs = [{"radius": "given"}, {"radius": "given-default-centre"}, {"radius": "default"}]

    def cfg_name(self, cfg):
        return f"radius={cfg['radius']}"

    def bind(self, cx, cfg):
        it = _interp()
        size, cen = _box(cx)
        r = SV(z3.Real("radius"))
        cx.assume(r.t >= 0)
        seen = {}
        # the radius and centre actually used are observed where the function hands them on (preprocess_params / get_correct_format
        # are interpreted as usual; the wrappers only record their results)
        real_pp = it.function("preprocess_params")
        real_gcf = it.function("get_correct_format")

        def pp(radius, gaussian, outwards):
            out = real_pp(radius, gaussian, outwards)
            seen["radius"] = out
            return out

        def gcf(value, reference_size=None):
            out = real_gcf(value, reference_size=reference_size)
            if reference_size is not None:
                seen["center"] = out
            return out

        it.contracts["preprocess_params"] = pp
        it.contracts["get_correct_format"] = gcf
        f = it.function("spherical_mask")
        if cfg["radius"] == "given":
            return (lambda: f(list(size), radius=r, center=list(cen))), {"size": size, "cen": cen, "r": r.t, "seen": seen}
        if cfg["radius"] == "given-default-centre":
            return (lambda: f(list(size), r, gaussian=0, gaussian_outwards=False)), {"size": size, "cen": None, "r": r.t, "seen": seen}
        return (lambda: f(list(size))), {"size": size, "cen": None, "r": None, "seen": seen}

    def post(self, cx, cfg, inp, res):
        size, seen = inp["size"], inp["seen"]
        hy = [_inb(size)]
        cl = [("shape_matches_box", z3.And(*[voxels._size_t(a) == b.t for a, b in zip(res.shape_, size)]), (), hy)]
        if "radius" not in seen or "center" not in seen:
            return cl + [("radius_and_centre_observed", z3.BoolVal(False))]
        r_used = sym.real(sym.to_z3(seen["radius"]))
        c_used = [SV(sym.to_z3(x)) for x in seen["center"]]
        # 1. the parameters used are the given ones, or the documented defaults radius = min(size)//2, centre = size//2
        if inp["r"] is not None:
            cl.append(("radius_used_is_the_given_radius", r_used == inp["r"], (), hy))
        else:
            m = z3.Int("min_size")
            mdef = [m <= size[0].t, m <= size[1].t, m <= size[2].t, z3.Or(m == size[0].t, m == size[1].t, m == size[2].t)]
            cl.append(("default_radius_is_half_the_smallest_edge", r_used == z3.ToReal(m / 2), (), hy + mdef))
        if inp["cen"] is not None:
            cl.append(("centre_used_is_the_given_centre", z3.And(*[a.t == b.t for a, b in zip(c_used, inp["cen"])]), (), hy))
        else:
            cl.append(("default_centre_is_half_the_box", z3.And(*[a.t == s.t / 2 for a, s in zip(c_used, size)]), (), hy))
        # 2. membership of the generic voxel w.r.t. the parameters used (the used radius/centre terms are abstracted to variables:
        #    substitution of equals, so that the solver does not have to case-split the default expressions)
        RU = z3.Real("radius_used")
        CU = [z3.Int(f"centre_used_{a}") for a in range(3)]
        pairs = [(r_used, RU)] + [(cu.t, v) for cu, v in zip(c_used, CU)]
        elem = z3.substitute(zr(res.elem), *pairs)
        inside = _d2([SV(v) for v in CU]) <= RU * RU
        bounds = [z3.And(v >= 0, v < s.t) for v, s in zip(CU, size)]
        cl.append(("used_centre_lies_in_the_box", z3.And(*[z3.And(cu.t >= 0, cu.t < s.t) for cu, s in zip(c_used, size)]), (), hy))
        cl.append(("voxel_is_1_iff_within_radius", elem == z3.If(inside, z3.RealVal(1), z3.RealVal(0)), (), hy + [RU >= 0, RU == r_used] + [v == cu.t for cu, v in zip(c_used, CU)] + bounds))
        return cl

    def replay(self, clause, model, cfg):
        from rtc import c13 as r
        return r.replay_shape("sphere", model)


class Cylinder(Contract):
    prop = "C13"
    module = "cryomask"
    qual = "cylindrical_mask"

    def bind(self, cx, cfg):
        it = _interp()
        size, cen = _box(cx)
        r = SV(z3.Real("radius"))
        h = SV(z3.Int("height"))
        cx.assume(z3.And(r.t >= 0, h.t >= 1))
        f = it.function("cylindrical_mask")
        return (lambda: f(list(size), radius=r, height=h, center=list(cen))), {"size": size, "cen": cen, "r": r.t, "h": h.t}

    def post(self, cx, cfg, inp, res):
        size, cen, r, h = inp["size"], inp["cen"], inp["r"], inp["h"]
        half = h / 2  # floor(h/2) for h >= 1 (z3 integer division)
        inside = z3.And(_d2(cen, (0, 1)) <= r * r, V(2) - cen[2].t <= half, cen[2].t - V(2) <= half)
        hy = [_inb(size)]
        return [("shape_matches_box", z3.And(*[voxels._size_t(a) == b.t for a, b in zip(res.shape_, size)]), (), hy),
                ("voxel_is_1_iff_inside_cylinder", zr(res.elem) == z3.If(inside, z3.RealVal(1), z3.RealVal(0)), (), hy)]

    def replay(self, clause, model, cfg):
        from rtc import c13 as r
        return r.replay_shape("cylinder", model)


class SphericalShell(Contract):
    prop = "C13"
    module = "cryomask"
    qual = "spherical_shell_mask"

    def bind(self, cx, cfg):
        it = _interp()
        size, cen = _box(cx)
        r = SV(z3.Real("radius"))
        t = SV(z3.Real("thickness"))
        cx.assume(z3.And(r.t >= 0, t.t >= 0, t.t <= 2 * r.t))
        f = it.function("spherical_shell_mask")
        return (lambda: f(list(size), t, radius=r, center=list(cen))), {"size": size, "cen": cen, "r": r.t, "t": t.t}

    def post(self, cx, cfg, inp, res):
        size, cen, r, t = inp["size"], inp["cen"], inp["r"], inp["t"]
        d2 = _d2(cen)
        outer = d2 <= (r + t / 2) * (r + t / 2)
        inner = d2 <= (r - t / 2) * (r - t / 2)
        hy = [_inb(size)]
        return [("outer_solid_minus_inner_solid", zr(res.elem) == z3.If(z3.And(outer, z3.Not(inner)), z3.RealVal(1), z3.RealVal(0)), (), hy)]

    def replay(self, clause, model, cfg):
        from rtc import c13 as r
        return r.replay_shape("shell", model)


class _SetOp(Contract):
    prop = "C13"
    module = "cryomask"
    configs = [{"k": 2, "kind": "binary"}, {"k": 3, "kind": "binary"}, {"k": 2, "kind": "soft"}, {"k": 1, "kind": "binary"}]

    def cfg_name(self, cfg):
        return f"{cfg['k']}masks,{cfg['kind']}"

    def bind(self, cx, cfg):
        it = _interp()
        size = [SV(z3.Int(n)) for n in ("X", "Y", "Z")]
        for s in size:
            cx.assume(s.t >= 1)
        ms = [voxels.input_array(f"M{j}", list(size)) for j in range(cfg["k"])]
        for m in ms:
            e = m.elem.t
            cx.assume(z3.Or(e == 0, e == 1) if cfg["kind"] == "binary" else z3.And(e >= 0, e <= 1))
        orig = [m.elem.t for m in ms]
        f = it.function(self.qual)
        return (lambda: f(list(ms))), {"ms": ms, "orig": orig, "size": size}

    def expected(self, vals):
        raise NotImplementedError

    def post(self, cx, cfg, inp, res):
        hy = [_inb(inp["size"])]
        cl = [("range_0_1", z3.And(zr(res.elem) >= 0, zr(res.elem) <= 1), (), hy)]
        if cfg["kind"] == "binary":
            cl.append((self.law, zr(res.elem) == z3.If(self.expected([o == 1 for o in inp["orig"]]), z3.RealVal(1), z3.RealVal(0)), (), hy))
        for j, (m, o) in enumerate(zip(inp["ms"], inp["orig"])):
            cl.append((f"frame.input_{j}_not_mutated", z3.BoolVal(bool(m.elem.t.eq(o)))))
        cl.append(("frame.result_is_new_array", z3.BoolVal(all(res is not m for m in inp["ms"]))))
        return cl

    def replay(self, clause, model, cfg):
        from rtc import c13 as r
        return r.replay_setop(self.qual, clause)


class Union(_SetOp):
    qual, law = "union", "voxelwise_OR"

    def expected(self, v):
        return z3.Or(*v)


class Intersection(_SetOp):
    qual, law = "intersection", "voxelwise_AND"

    def expected(self, v):
        return z3.And(*v)


class Subtraction(_SetOp):
    qual, law = "subtraction", "voxelwise_AND_NOT"

    def expected(self, v):
        return z3.And(v[0], *[z3.Not(x) for x in v[1:]])


class Difference(_SetOp):
    qual, law = "difference", "voxelwise_XOR_(in_some_but_not_all)"

    def expected(self, v):
        return z3.And(z3.Or(*v), z3.Not(z3.And(*v)))


class PreprocessParams(Contract):
    prop = "C13"
    module = "cryomask"
    qual = "preprocess_params"
    configs = [{"outwards": True}, {"outwards": False}]

    def bind(self, cx, cfg):
        it = _interp()
        r, g = SV(z3.Real("radius")), SV(z3.Real("gaussian"))
        cx.assume(z3.And(r.t >= 0, g.t >= 0))
        return (lambda: it.function("preprocess_params")(r, g, cfg["outwards"])), {"r": r.t, "g": g.t}

    def post(self, cx, cfg, inp, res):
        r, g = inp["r"], inp["g"]
        grown = z3.ToReal(-z3.ToInt(-(r + 5 * g)))
        exp = z3.If(z3.And(g != 0, z3.BoolVal(cfg["outwards"])), grown, r)
        return [("radius_grows_by_ceil_5_sigma_iff_blurred_outwards", zr(res) == exp, ())]


CONTRACTS = [Sphere, Cylinder, SphericalShell, Union, Intersection, Subtraction, Difference, PreprocessParams]
LEVEL = "proof"
EXPLANATION = ("Hard-edged sphere, cylinder and spherical shell: membership of the generic voxel (symbolic box sizes, centre, radius/height) equals the analytic inequality; "
               "slice/index safety of the cylinder's z-range for heights and centres reaching beyond the box; union/intersection/subtraction/difference = voxel-wise OR/AND/AND-NOT/XOR, "
               "values in [0,1], inputs never mutated (aliasing tracked through cryomap.read's copy contract). Ellipsoid grid (linspace/meshgrid/reshape), Gaussian edges and the "
               "name-based generator are outside deductive reach and decided by the bounded stand-in.")
ASSUMPTIONS = ["cutoff conventions named by the property: sphere distance <= r, cylinder |k-cz| <= floor(h/2), centre voxel always inside; centres lie inside the box; shell thickness <= 2r",
               "cryomap.read returns a new array for array input (assumed here, its own contract is in C11); numpy slice assignment / tile / mgrid semantics as modelled in vfw/models/voxels.py",
               "sqrt characterised by r>=0, r*r=x"]


def run(ck):
    for C in CONTRACTS:
        ck.run_contract(C())
    from rtc import c13 as r
    n = 120 if ck.tier == "quick" else 2500
    ck.bounded_run("mask_shapes", r.gen_cases(ck.seed, n, 20 if ck.tier == "quick" else 48), r.run_case, ref="rtc.c13:run_case",
                   rule="box sizes 6..N per axis (non-cubic; even for ellipsoids), centres anywhere in the box, radii/heights from 1 to beyond the box, Gaussian widths 0..3 both edge modes, "
                        "name-based generator, lists of 1..5 binary or soft masks; every voxel compared with the analytic inequality. distinct = (case, shape kind, box)",
                   bound=f"{n} cases, box sizes <= {20 if ck.tier == 'quick' else 48}")
