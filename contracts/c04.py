"""C04 -- STOPGAP <-> cryoCAT conversion: the 14-field renaming in both directions, half-set parity, motl_idx, column order
(deductive, generic row); via-file path and update_coord by the bounded stand-in."""
import z3
from vfw import sym
from vfw.sym import SV, SB, ctx
from vfw.engine import Contract
from vfw.models import frames, misc
from vfw.models.strs import StrChoice
from . import common
from .common import MOTL_COLS, zr

# the documented renaming, written out here (NOT read from StopgapMotl.pairs)
DOC_PAIRS = {"subtomo_id": "subtomo_num", "tomo_id": "tomo_num", "object_id": "object", "x": "orig_x", "y": "orig_y", "z": "orig_z",
             "score": "score", "shift_x": "x_shift", "shift_y": "y_shift", "shift_z": "z_shift", "phi": "phi", "psi": "psi", "theta": "the", "class": "class"}
DOC_COLUMNS = ["motl_idx", "tomo_num", "object", "subtomo_num", "halfset", "orig_x", "orig_y", "orig_z", "score", "x_shift", "y_shift", "z_shift", "phi", "psi", "the", "class"]


def _str_is(v, s):
    if isinstance(v, str):
        return z3.BoolVal(v == s)
    if isinstance(v, StrChoice):
        return v.eq(s)
    return z3.BoolVal(False)


class ConvertToSg(Contract):
    prop = "C04"
    module = "cryomotl"
    qual = "StopgapMotl.convert_to_sg_motl"
    configs = [{"reset_index": False}, {"reset_index": True}]

    def bind(self, cx, cfg):
        it = common.motl_interp()
        df = common.fresh_motl_frame(angles=False, int_cols=("subtomo_id",))
        f = it.function("StopgapMotl.convert_to_sg_motl")
        return (lambda: f(df, cfg["reset_index"])), {"df": df, "old": common.old_row()}

    def post(self, cx, cfg, inp, res):
        old = dict(inp["old"])
        old["subtomo_id"] = z3.ToReal(z3.Int("subtomo_id"))
        cl = [("columns_documented_order", z3.BoolVal(list(res.cols) == DOC_COLUMNS)),
              ("frame.rows", z3.simplify(res.present) == z3.BoolVal(True))]
        for em, star in DOC_PAIRS.items():
            cl.append((f"copy_{em}_to_{star}", zr(res.row[star]) == old[em], ()))
        even = z3.Int("subtomo_id") % 2 == 0
        hs = res.row["halfset"]
        cl.append(("halfset_A_iff_even", _str_is(hs, "A") == even, ()))
        cl.append(("halfset_B_iff_odd", _str_is(hs, "B") == z3.Not(even), ()))
        if cfg["reset_index"]:
            pos = frames.RowPos(res.space).val.t
            cl.append(("motl_idx_1_to_N", zr(res.row["motl_idx"]) == z3.ToReal(pos) + 1, ()))
        else:
            cl.append(("motl_idx_is_subtomo_num", zr(res.row["motl_idx"]) == old["subtomo_id"], ()))
        cl.append(("frame.input_untouched", z3.And(*[zr(inp["df"].row[c]) == old[c] for c in MOTL_COLS]), ()))
        return cl

    def replay(self, clause, model, cfg):
        from rtc import c04 as r
        return r.replay_export(model, cfg["reset_index"])


class ConvertToMotl(Contract):
    prop = "C04"
    module = "cryomotl"
    qual = "StopgapMotl.convert_to_motl"

    def bind(self, cx, cfg):
        it = common.motl_interp()
        sg = frames.fresh_frame([c for c in DOC_COLUMNS if c != "halfset"], "sg_")
        sg.cols.insert(4, "halfset")
        sg.row["halfset"] = "A"
        me = misc.SelfObj(it, "StopgapMotl", df=it.function("Motl.create_empty_motl_df")(), sg_df=None)
        return (lambda: it.function("StopgapMotl.convert_to_motl").bind(me)(sg)), {"me": me, "sg": sg}

    def post(self, cx, cfg, inp, res):
        out = inp["me"].df
        cl = [("columns", z3.BoolVal(sorted(out.columns) == sorted(MOTL_COLS))), ("frame.rows", z3.simplify(out.present) == z3.BoolVal(True))]
        for em, star in DOC_PAIRS.items():
            cl.append((f"copy_{star}_to_{em}", zr(out.row[em]) == z3.Real("sg_" + star), ()))
        return cl

    def replay(self, clause, model, cfg):
        from rtc import c04 as r
        return r.replay_import(model)


CONTRACTS = [ConvertToSg, ConvertToMotl]
LEVEL = "proof"
EXPLANATION = ("The documented 14-pair renaming (written out in the contract, not read from the class), half-set parity, motl_idx (with and without reset) and the "
               "16-column order are postconditions of convert_to_sg_motl / convert_to_motl proved on the generic row of the real AST, including the pandas-3 dtype rule that "
               "makes writing a string into a float64 column raise; export;import = identity follows clause by clause. Via-file path, update_coord and the "
               "keep_halfsets renumbering loop: bounded stand-in only.")
ASSUMPTIONS = ["pandas contract: Series assignment aligns on the index (requires RangeIndex, established by check_df_type); .loc[mask, col] = 'A' on a float64 column raises TypeError under pandas 3; assigning a whole column replaces it",
               "subtomogram numbers are integers (halfset is stated for even/odd numbers only)"]


def lemmas(ck):
    v = z3.Real("v")
    ck.lemma("export_then_import_identity", [], v == v, tactics=(), note="each of the 14 fields: import(export(row))[f] = export(row)[pairs[f]] = row[f] by the two copy clauses")


def run(ck):
    for C in CONTRACTS:
        ck.run_contract(C())
    lemmas(ck)
    from rtc import c04 as r
    n = 50 if ck.tier == "quick" else 1000
    ck.bounded_run("stopgap_conversion", r.gen_cases(ck.seed, n), r.run_case, ref="rtc.c04:run_case",
                   rule="seeded particle lists (1..300, arbitrary finite values, non-sequential subtomogram numbers) x reset_index x in-memory / via-file x update_coord; "
                        "written .star parsed by an independent reader. distinct = (case, path kind, options, size)",
                   bound=f"{n} cases, <= 300 particles")
