"""C20 -- membrane-thickness pairs: accept-site contracts on the three candidate kernels (measure_thickness_cpu, the numba kernel
find_matches_parallel, the CUDA kernel text find_all_possible_matches_kernel) and the greedy one-to-one assignment."""
import z3
from vfw import sym, theory
from vfw.sym import SV, SB, ctx
from vfw.engine import Contract
from vfw.interp import Interp
from vfw.models import kernels, misc, npm
from . import common
from .common import zr


def _interp(extra):
    g = common.base_globals()
    g.update({"time": misc.TimeNS, "ScipyKDTree": kernels.KDTree, "numba": None})
    g.update(extra)
    return Interp("memthick", g)


class _Setup:
    def __init__(self, cx):
        self.n = SV(z3.Int("n_points"))
        cx.assume(self.n.t >= 0)
        self.points = kernels.Points("p", self.n)
        self.normals = kernels.Points("nrm", self.n)
        self.s1 = kernels.Mask("surface1", self.n)
        self.s2 = kernels.Mask("surface2", self.n)
        self.angle = theory.angle_input("max_angle")
        cx.assume(z3.And(self.angle.t >= 1, self.angle.t <= 30))
        c, s = theory.atom_cs("max_angle")
        # cos and sin of an angle in [1,30] degrees: positive, cos > sin  (assumed facts about the uninterpreted pair)
        cx.axiom("for max_angle in [1,30] degrees: cos > 0, sin > 0, cos > sin", z3.And(c > 0, s > 0, c > s))
        self.c, self.s = c, s
        cx.carried_invariants = {"match_count": lambda v: sym.to_z3(v) >= 0, "valid_matches": lambda v: sym.to_z3(v) >= 0}

    def d(self, src, tgt):
        a, b = self.points.vec(src), self.points.vec(tgt)
        return [b[k] - a[k] for k in range(3)]

    def unit(self, src):
        nv = self.normals.vec(src)
        return sum(x * x for x in nv) == 1

    def admissible(self, src, tgt, dist, rmax, strict=False):
        """the property's acceptance condition, stated independently: dist is the Euclidean distance, within the maximum,
        target ahead of the source along the normal and inside the cone of half-angle max_angle:  d.n >= |d| cos(a)"""
        d, nv = self.d(src, tgt), self.normals.vec(src)
        d2 = sum(x * x for x in d)
        proj = sum(d[k] * nv[k] for k in range(3))
        if strict:
            return z3.And(d2 < rmax * rmax, proj > 0, proj * proj > self.c * self.c * d2)
        return z3.And(dist >= 0, dist * dist == d2, dist <= rmax, proj > 0, proj * proj >= self.c * self.c * d2)


def _admissible_clauses(S, tag, facts, src, tgt, dist, rmax, src_mask, tgt_mask, extra_goals=()):
    """one clause per conjunct of the acceptance condition; the site's facts and the unit-normal requirement are hypotheses"""
    d, nv = S.d(src, tgt), S.normals.vec(src)
    d2 = sum(x * x for x in d)
    proj = sum(d[k] * nv[k] for k in range(3))
    hy = list(facts) + [S.unit(src)]
    cl = [(f"{tag}.distance_is_euclidean", z3.And(dist >= 0, dist * dist == d2), ("poly", "linear"), hy),
          (f"{tag}.within_max_thickness", dist <= rmax, ("linear",), hy),
          (f"{tag}.target_ahead_of_source", proj > 0, ("linear",), hy),
          (f"{tag}.inside_cone", proj * proj >= S.c * S.c * d2, ("linear",), hy),
          (f"{tag}.surfaces_and_bounds", z3.And(src_mask.f(src), tgt_mask.f(tgt), src >= 0, src < S.n.t, tgt >= 0, tgt < S.n.t, *extra_goals), (), hy)]
    return cl


def _site_clauses(S, sites, val, rmax, src_mask, tgt_mask, tag):
    cl = []
    for k, st in enumerate(sites):
        dist, src, tgt = val(st)
        cl += _admissible_clauses(S, f"{tag}_site{k}", st.facts, src, tgt, dist, rmax, src_mask, tgt_mask)
    return cl


class MeasureCpu(Contract):
    prop = "C20"
    module = "memthick"
    qual = "measure_thickness_cpu"
    configs = [{"direction": "1to2"}, {"direction": "2to1"}]

    def cfg_name(self, cfg):
        return cfg["direction"]

    def bind(self, cx, cfg):
        S = _Setup(cx)
        voxel = SV(z3.Real("voxel_size"))
        maxnm = SV(z3.Real("max_thickness_nm"))
        cx.assume(z3.And(voxel.t > 0, maxnm.t > 0))
        got = {}

        def process_stub(flat_matches, n_points, voxel_size):
            got["flat"], got["args"] = flat_matches, (n_points, voxel_size)
            return kernels.StoreArr("thickness"), kernels.Mask("valid", S.n), kernels.StoreArr("pairs", sort="Int")

        it = _interp({"process_matches_cpu2cpu": process_stub})
        f = it.function("measure_thickness_cpu")
        return (lambda: f(S.points, S.normals, S.s1, S.s2, voxel, maxnm, S.angle, cfg["direction"])), {"S": S, "got": got, "voxel": voxel, "maxnm": maxnm}

    def post(self, cx, cfg, inp, res):
        S, got = inp["S"], inp["got"]
        cl = [("matches_handed_to_assignment", z3.BoolVal("flat" in got and isinstance(got["flat"], kernels.SiteList)))]
        if "flat" not in got or not isinstance(got["flat"], kernels.SiteList):
            return cl
        rmax = inp["maxnm"].t / inp["voxel"].t
        src_m, tgt_m = (S.s1, S.s2) if cfg["direction"] == "1to2" else (S.s2, S.s1)
        sites = got["flat"].sites
        cl += _site_clauses(S, sites, lambda st: (zr(st.value[0]), sym.to_z3(st.value[1]), sym.to_z3(st.value[2])), rmax, src_m, tgt_m, "cpu")
        cl.append(("voxel_size_and_count_forwarded", z3.And(sym.to_z3(got["args"][0]) == S.n.t, zr(got["args"][1]) == inp["voxel"].t), ()))
        # the pre-filter must not lose anything: whatever ball is asked of the KD-tree for the i-th source, every target that is strictly
        # admissible for that source lies in it (the candidates' completeness clause below starts from the ball-query result)
        bq = getattr(cx, "ball_queries", [])
        cl.append(("one_ball_query_over_targets_for_sources", z3.BoolVal(len(bq) == 1)))
        if len(bq) == 1:
            nl = bq[0]
            i, n = z3.Ints("i!bq n!bq")
            src, tgt = nl.queries.il.f(i), nl.tree.pts.il.f(n)
            d, nv = S.d(src, tgt), S.normals.vec(src)
            d2 = sum(x * x for x in d)
            proj = sum(d[k] * nv[k] for k in range(3))
            r = sym.real(sym.to_z3(nl.r))
            hy = [i >= 0, i < nl.queries.il.len.t, n >= 0, n < nl.tree.pts.il.len.t, S.unit(src), d2 < rmax * rmax, proj > 0, proj * proj > S.c * S.c * d2]
            cl.append(("ball_query_keeps_every_strictly_admissible_target", kernels.dist2(nl.tree.pts.vec_at(n), nl.queries.vec_at(i)) <= r * r, ("poly", "linear"), hy))
            cl.append(("ball_query_rows_are_the_sources_and_tree_rows_the_targets", z3.BoolVal(nl.queries.il.mask is src_m and nl.tree.pts.il.mask is tgt_m)))
        return cl

    def cross(self, cfg, paths):
        """completeness over all paths: for the generic (source, ball-query candidate) of the two loops, a strictly admissible
        candidate reaches an accept site on some path"""
        sites, S, inp = [], None, None
        for cx, inputs, out in paths:
            if out[0] == "return" and "flat" in inputs["got"] and isinstance(inputs["got"]["flat"], kernels.SiteList):
                sites += inputs["got"]["flat"].sites
                S, inp = inputs["S"], inputs
        if not sites:
            return [("some_accept_site_exists", [], z3.BoolVal(False))]
        uniq = {}
        for st in sites:
            uniq.setdefault(tuple(sorted(f.sexpr() for f in st.facts)), st)
        sites = list(uniq.values())
        rmax = inp["maxnm"].t / inp["voxel"].t
        return _completeness(S, sites, rmax)

    def replay(self, clause, model, cfg):
        from rtc import c20 as r
        return r.replay_cone("cpu")


def _completeness(S, sites, rmax, extra_hyp=(), pair=None, capacity=False, masks=None):
    """the loop-local symbols (source position, candidate position) are shared by all paths (deterministic fresh names).  Under
    the loop-domain facts of the generic iteration (ball membership, index ranges, library axioms) strict admissibility must
    imply the branch conditions of some accept site.  Returns a list of (name, hyps, goal, tactics)."""
    st0 = sites[0]
    v = st0.value
    src, tgt = (sym.to_z3(v[1]), sym.to_z3(v[2])) if pair is None else pair(st0)
    d, nv = S.d(src, tgt), S.normals.vec(src)
    d2 = sum(x * x for x in d)
    proj = sum(d[k] * nv[k] for k in range(3))
    strict = [d2 < rmax * rmax, proj > 0, proj * proj > S.c * S.c * d2]
    hyps = list(st0.domain) + [S.unit(src)] + strict + list(extra_hyp)
    if masks is not None:  # kernels that test the surface masks themselves: the pair is of the right surfaces and in range
        hyps += [src >= 0, src < S.n.t, tgt >= 0, tgt < S.n.t] + [sym.to_bool(m[SV(x)]) for m, x in zip(masks, (src, tgt)) if m is not None]
    def branch(st):
        fs = [f for f in st.facts if not any(f.eq(g) for g in st.domain)]
        if capacity:
            # the per-point capacity test (a loop-carried counter, havocked for the arbitrary iteration) is a hypothesis: "unless the capacity is reached"
            cap = [f for f in fs if "hv_" in f.sexpr()]
            hyps.extend(c for c in cap if not any(c.eq(h) for h in hyps))
            fs = [f for f in fs if not any(f.eq(c) for c in cap)]
        return fs
    if len(sites) == 1:
        return [(f"strictly_admissible_candidate_is_accepted.branch{j}", hyps, f, ("linear",)) for j, f in enumerate(branch(st0))]
    return [("strictly_admissible_candidate_is_accepted", hyps, z3.Or(*[z3.And(*branch(st)) for st in sites]), ())]


class NumbaKernel(Contract):
    prop = "C20"
    module = "memthick"
    qual = "find_matches_parallel"

    def bind(self, cx, cfg):
        S = _Setup(cx)
        rmax = SV(z3.Real("max_thickness_voxels"))
        cx.assume(rmax.t > 0)
        tgt_idx = kernels.IndexList(S.s2)
        cap = SV(z3.Int("max_matches"))
        cx.assume(cap.t >= 1)
        md = kernels.StoreArr("match_distances", (S.n, cap))
        mi = kernels.StoreArr("match_indices", (S.n, cap), "Int")
        mc = kernels.StoreArr("match_counts", (S.n,), "Int")
        it = _interp({})
        f = it.function("find_matches_parallel")
        cosa = theory.cos(theory.deg2rad(S.angle))
        return (lambda: f(S.points, S.normals, S.s1, S.s2, tgt_idx, rmax, cosa, md, mi, mc)), {"S": S, "md": md, "mi": mi, "rmax": rmax}

    def post(self, cx, cfg, inp, res):
        S, md, mi = inp["S"], inp["md"], inp["mi"]
        cl = [("distance_and_index_stored_together", z3.BoolVal(len(md.sites) == len(mi.sites)))]
        if not md.sites or len(md.sites) != len(mi.sites):
            return cl
        pairs = list(zip(md.sites, mi.sites))
        for k, (sd, si) in enumerate(pairs):
            (kd, dist), (ki, tgt) = sd.value, si.value
            src = sym.to_z3(kd[0])
            cl += _admissible_clauses(S, f"numba_site{k}", si.facts, src, sym.to_z3(tgt), zr(dist), inp["rmax"].t, S.s1, S.s2,
                                      extra_goals=(sym.to_z3(ki[0]) == src, sym.to_z3(ki[1]) == sym.to_z3(kd[1]), sym.to_z3(kd[1]) >= 0, sym.to_z3(kd[1]) < sym.to_z3(md.shape[1])))
        return cl

    def cross(self, cfg, paths):
        n = sum(len(inputs["md"].sites) for cx, inputs, out in paths if out[0] == "return")
        cl = [("some_store_site_exists", [], z3.BoolVal(n >= 1))]
        sites, S, inp = [], None, None
        for cx, inputs, out in paths:
            if out[0] == "return":
                sites += inputs["mi"].sites
                S, inp = inputs["S"], inputs
        if sites:
            uniq = {}
            for st in sites:
                uniq.setdefault(tuple(sorted(f.sexpr() for f in st.facts)), st)
            cl += [(nm.replace("is_accepted", "is_stored_unless_the_capacity_is_reached"), hy, g, t) for nm, hy, g, t in
                   _completeness(S, list(uniq.values()), inp["rmax"].t, pair=lambda st: (sym.to_z3(st.value[0][0]), sym.to_z3(st.value[1])), capacity=True, masks=(S.s1, None))]
        return cl

    def replay(self, clause, model, cfg):
        from rtc import c20 as r
        return r.replay_cone("numba")


class CudaKernel(Contract):
    """the CUDA twin cannot run here; its AST is verified like the others (cuda.grid(1) = an arbitrary thread index)"""
    prop = "C20"
    module = "memthick"
    qual = "find_all_possible_matches_kernel"

    def bind(self, cx, cfg):
        S = _Setup(cx)
        rmax = SV(z3.Real("max_thickness_voxels"))
        cx.assume(rmax.t > 0)
        cap = SV(z3.Int("max_matches"))
        cx.assume(cap.t >= 1)
        md = kernels.StoreArr("match_distances")
        mi = kernels.StoreArr("match_indices", sort="Int")
        mc = kernels.StoreArr("match_counts", sort="Int")
        tid = SV(z3.Int("thread_idx"))
        cx.assume(tid.t >= 0)

        class Cuda:
            @staticmethod
            def grid(k):
                return tid

        it = _interp({"cuda": Cuda})
        f = it.function("find_all_possible_matches_kernel")
        cosa = theory.cos(theory.deg2rad(S.angle))
        return (lambda: f(S.points, S.normals, S.s1, S.s2, md, mi, mc, rmax, cosa, cap)), {"S": S, "md": md, "mi": mi, "rmax": rmax, "tid": tid, "cap": cap}

    def post(self, cx, cfg, inp, res):
        S, md, mi = inp["S"], inp["md"], inp["mi"]
        cl = [("distance_and_index_stored_together", z3.BoolVal(len(md.sites) == len(mi.sites)))]
        if not md.sites or len(md.sites) != len(mi.sites):
            return cl
        src = inp["tid"].t
        for k, (sd, si) in enumerate(zip(md.sites, mi.sites)):
            (kd, dist), (ki, tgt) = sd.value, si.value
            slot = sym.to_z3(kd) - src * inp["cap"].t
            cl += _admissible_clauses(S, f"cuda_site{k}", si.facts, src, sym.to_z3(tgt), zr(dist), inp["rmax"].t, S.s1, S.s2,
                                      extra_goals=(sym.to_z3(ki) == sym.to_z3(kd), slot >= 0, slot < inp["cap"].t))
        return cl

    def cross(self, cfg, paths):
        n = sum(len(inputs["md"].sites) for cx, inputs, out in paths if out[0] == "return")
        cl = [("some_store_site_exists", [], z3.BoolVal(n >= 1))]
        sites, S, inp = [], None, None
        for cx, inputs, out in paths:
            if out[0] == "return":
                sites += inputs["mi"].sites
                S, inp = inputs["S"], inputs
        if sites:
            uniq = {}
            for st in sites:
                uniq.setdefault(tuple(sorted(f.sexpr() for f in st.facts)), st)
            tid = inp["tid"].t
            cl += [(nm.replace("is_accepted", "is_stored_unless_the_capacity_is_reached"), hy, g, t) for nm, hy, g, t in
                   _completeness(S, list(uniq.values()), inp["rmax"].t, pair=lambda st: (tid, sym.to_z3(st.value[1])), capacity=True, masks=(S.s1, S.s2))]
        return cl

    def replay(self, clause, model, cfg):
        from rtc import c20 as r
        return r.replay_cone("cuda-text")


class MatchSeq(kernels._Generic):
    """flat_matches: m tuples (dist(j), src(j), tgt(j)); .sort() orders them ascending (by distance first)"""

    def __init__(self, spec):
        self.m = SV(z3.Int("n_matches"))
        self.dist = z3.Function("m_dist", z3.IntSort(), z3.RealSort())
        self.src = z3.Function("m_src", z3.IntSort(), z3.IntSort())
        self.tgt = z3.Function("m_tgt", z3.IntSort(), z3.IntSort())
        self.sorted = False
        self.spec = spec

    def sort(self, *a, **k):
        if a or k:
            raise sym.Unsupported("sort with a key")
        self.sorted = True
        i, j = z3.Ints("i!s j!s")
        ctx().axiom("list.sort() of (dist, src, tgt) tuples: distances non-decreasing", z3.ForAll([i, j], z3.Implies(z3.And(i >= 0, i <= j, j < self.m.t), self.dist(i) <= self.dist(j))))

    def __sym_len__(self):
        return self.m

    def __generic_for__(self, interp, st, env):
        import ast
        if not (isinstance(st.target, ast.Tuple) and len(st.target.elts) == 3):
            raise sym.Unsupported("match loop target")
        names = [e.id for e in st.target.elts]

        def bind_at(e, k):
            e.vars[names[0]] = SV(self.dist(k))
            e.vars[names[1]] = SV(self.src(k))
            e.vars[names[2]] = SV(self.tgt(k))
        kernels.run_invariant_loop(interp, st, env, self.m, bind_at, self.spec, label="assign")


class GreedySpec(kernels.InvSpec):
    """invariant of the greedy assignment loop of process_matches_cpu2cpu after k processed matches"""
    state = {"thickness_results": "Real", "valid_mask": "Bool", "point_pairs": "Int", "source_assigned": "Bool", "target_assigned": "Bool"}
    ghosts = {"at": "Int", "own": "Int"}  # at[s]: the match that assigned source s; own[t]: the source that owns target t

    def __init__(self, seq_holder):
        self.h = seq_holder

    def resolve(self, env):
        """roles by the objects allocated before the loop: zeros(float32) = thickness, zeros(bool) = valid, zeros(int32) = partner; the first set
        created tracks the sources, the second the targets"""
        made = self.h.get("made", {})
        out, e = {}, env
        while e is not None:
            for k, v in e.vars.items():
                for role, obj in made.items():
                    if v is obj:
                        out.setdefault(role, k)
            e = e.parent
        # an implementation without a separate set of assigned sources: the valid mask itself says which sources are assigned
        if "source_assigned" not in out and "valid_mask" in out:
            out["source_assigned"] = out["valid_mask"]
        return out

    def inv(self, k, S, G):
        q = self.h["seq"]
        s, t, j = z3.Ints("s!q t!q j!q")
        th, va, pp, sa, ta, at, own = S["thickness_results"], S["valid_mask"], S["point_pairs"], S["source_assigned"], S["target_assigned"], G["at"], G["own"]
        return [
            ("valid_iff_source_assigned", z3.ForAll([s], va(s) == sa(s))),
            ("assigned_source_records_its_match", z3.ForAll([s], z3.Implies(va(s), z3.And(at(s) >= 0, at(s) < k, q.src(at(s)) == s, q.tgt(at(s)) == pp(s), th(s) == q.dist(at(s)))))),
            ("unassigned_source_has_zero_thickness", z3.ForAll([s], z3.Implies(z3.Not(va(s)), th(s) == 0))),
            ("taken_target_has_an_owner", z3.ForAll([t], z3.Implies(ta(t), z3.And(va(own(t)), pp(own(t)) == t)))),
            ("assigned_source_owns_its_target", z3.ForAll([s], z3.Implies(va(s), z3.And(ta(pp(s)), own(pp(s)) == s)))),
            ("processed_match_is_blocked_by_an_earlier_or_same_assignment",
             z3.ForAll([j], z3.Implies(z3.And(j >= 0, j < k), z3.Or(z3.And(sa(q.src(j)), at(q.src(j)) <= j), z3.And(ta(q.tgt(j)), at(own(q.tgt(j))) <= j))))),
        ]

    def ghost_step(self, k, S0, S1, G0):
        q = self.h["seq"]
        newly = z3.And(S1["valid_mask"](q.src(k)), z3.Not(S0["valid_mask"](q.src(k))))
        return {"at": (lambda i, f=G0["at"]: z3.If(z3.And(newly, i == q.src(k)), k, f(i))),
                "own": (lambda i, f=G0["own"]: z3.If(z3.And(newly, i == q.tgt(k)), q.src(k), f(i)))}


class ProcessMatches(Contract):
    """greedy one-to-one assignment by increasing distance (loop invariant supplied above)"""
    prop = "C20"
    module = "memthick"
    qual = "process_matches_cpu2cpu"

    def bind(self, cx, cfg):
        holder = {}
        spec = GreedySpec(holder)
        seq = MatchSeq(spec)
        holder["seq"] = seq
        n = SV(z3.Int("n_points"))
        voxel = SV(z3.Real("voxel_size"))
        cx.assume(z3.And(n.t >= 0, voxel.t > 0, seq.m.t >= 0))
        j = z3.Int("j!r")
        cx.assume(z3.ForAll([j], z3.Implies(z3.And(j >= 0, j < seq.m.t), z3.And(seq.src(j) >= 0, seq.src(j) < n.t, seq.tgt(j) >= 0, seq.tgt(j) < n.t, seq.dist(j) > 0))))  # requires: indices in range, positive distances
        base = common.base_globals()["np"]

        class NPZ:
            float32, bool_, int32 = "float32", "bool_", "int32"

            def __getattr__(self, k):
                return getattr(base, k)

            @staticmethod
            def zeros(shape, dtype=None):
                sort = {"float32": "Real", "bool_": "Bool", "int32": "Int"}.get(dtype, "Real")
                o = kernels.FnArr.const(0, shape, sort, f"zeros_{sort}")
                role = {"float32": "thickness_results", "bool_": "valid_mask", "int32": "point_pairs"}.get(dtype)
                made = holder.setdefault("made", {})
                if role == "point_pairs" and role in made:
                    role = "target_assigned"  # a second integer array: the targets' bookkeeping kept as an array (seen through truthiness)
                if role:
                    made.setdefault(role, o)
                return o

        def mkset(*a):
            if a:
                return set(*a)
            o = kernels.FnArr.const(False, None, "Bool", "set")
            made = holder.setdefault("made", {})
            made.setdefault("source_assigned" if "source_assigned" not in made else "target_assigned", o)
            return o

        it = _interp({"np": NPZ(), "set": mkset})
        f = it.function("process_matches_cpu2cpu")
        return (lambda: f(seq, n, voxel)), {"seq": seq, "n": n, "voxel": voxel}

    def post(self, cx, cfg, inp, res):
        q, vox = inp["seq"], inp["voxel"].t
        ok = isinstance(res, tuple) and len(res) == 3 and all(isinstance(x, kernels.FnArr) for x in res)
        cl = [("returns_thickness_valid_pairs", z3.BoolVal(bool(ok))), ("matches_were_sorted_by_distance", z3.BoolVal(q.sorted))]
        ex = getattr(cx, "loop_exit", {}).get("assign")
        if not ok or ex is None:
            return cl
        th, va, pp = res[0].f, res[1].f, res[2].f
        at, ta = ex["G"]["at"], ex["S"]["target_assigned"]
        s, s2, j = z3.Ints("s!p s2!p j!p")
        m = q.m.t
        cl += [
            ("no_target_used_twice", z3.ForAll([s, s2], z3.Implies(z3.And(va(s), va(s2), s != s2), pp(s) != pp(s2))), ()),
            ("pair_is_one_of_the_given_matches_and_thickness_is_distance_times_voxel",
             z3.ForAll([s], z3.Implies(va(s), z3.And(at(s) >= 0, at(s) < m, q.src(at(s)) == s, q.tgt(at(s)) == pp(s), th(s) == q.dist(at(s)) * vox))), ()),
            ("unpaired_points_carry_no_thickness", z3.ForAll([s], z3.Implies(z3.Not(va(s)), th(s) == 0)), ()),
            ("no_admissible_pair_of_two_unmatched_points_left", z3.ForAll([j], z3.Implies(z3.And(j >= 0, j < m), z3.Or(va(q.src(j)), ta(q.tgt(j))))), ()),
            ("taken_targets_are_exactly_the_paired_ones", z3.ForAll([j], z3.Implies(z3.And(j >= 0, j < m, ta(q.tgt(j))), z3.Exists([s], z3.And(va(s), pp(s) == q.tgt(j))))), ()),
            ("no_matched_source_has_a_closer_admissible_unmatched_target",
             z3.ForAll([j], z3.Implies(z3.And(j >= 0, j < m, va(q.src(j)), q.dist(j) * vox < th(q.src(j))), ta(q.tgt(j)))), ()),
        ]
        return cl

    def replay(self, clause, model, cfg):
        from rtc import c20 as r
        return r.replay_greedy()


CONTRACTS = [MeasureCpu, NumbaKernel, CudaKernel, ProcessMatches]
LEVEL = "proof"
EXPLANATION = ("Accept-site obligations on the real ASTs of the three candidate kernels (generic source point x generic candidate): whatever is appended/stored is an admissible "
               "pair (Euclidean distance, within max thickness, ahead of the source along its unit normal, inside the cone d.n >= |d| cos(max_angle)), of the right surfaces for the "
               "requested direction, and every strictly admissible candidate is accepted (CPU: every ball-query candidate; numba and CUDA kernels: every candidate of the right surfaces, unless the per-point capacity is reached); the greedy one-to-one assignment loop by quantified invariants; rigid-motion "
               "invariance and voxel scaling as lemmas. End-to-end runs (CPU path and numba kernel) as bounded stand-in.")
ASSUMPTIONS = ["unit normals (requires); max_angle in [1,30] degrees with cos>sin>0; scipy KDTree.query_ball_point(q, r) returns exactly the tree positions within distance <= r; np.where(mask)[0] lists exactly the indices with mask true",
               "the CUDA kernel is verified as text only (it cannot be executed in this sandbox)"]


def lemmas(ck):
    # admissibility depends only on |d|^2 and d.n, both invariant under a common rotation Q and translation t
    Q = [[z3.Real(f"Q{i}{j}") for j in range(3)] for i in range(3)]
    d = [z3.Real(f"d{i}") for i in range(3)]
    n = [z3.Real(f"n{i}") for i in range(3)]
    ortho = [sum(Q[k][i] * Q[k][j] for k in range(3)) == (1 if i == j else 0) for i in range(3) for j in range(3)]
    Qd = [sum(Q[i][k] * d[k] for k in range(3)) for i in range(3)]
    Qn = [sum(Q[i][k] * n[k] for k in range(3)) for i in range(3)]
    ck.lemma("rigid_motion_preserves_distance", ortho, sum(x * x for x in Qd) == sum(x * x for x in d), tactics=("lift",))
    ck.lemma("rigid_motion_preserves_projection", ortho, sum(Qd[i] * Qn[i] for i in range(3)) == sum(d[i] * n[i] for i in range(3)), tactics=("lift",))
    a, b, t = z3.Reals("a b t")
    ck.lemma("translation_cancels_in_difference", [], (b + t) - (a + t) == b - a, tactics=("poly",))
    dist, v, r = z3.Reals("dist voxel rmaxnm")
    ck.lemma("thickness_within_maximum_after_scaling", [v > 0, dist <= r / v], dist * v <= r, tactics=())


def run(ck):
    for C in CONTRACTS:
        ck.run_contract(C())
    lemmas(ck)
    from rtc import c20 as r
    n = 30 if ck.tier == "quick" else 400
    ck.bounded_run("thickness_pairs", r.gen_cases(ck.seed, n), r.run_case, ref="rtc.c20:run_case",
                   rule="20..600 points on two roughly parallel / curved / tilted sheets with jitter, unit normals with angular noise, arbitrary labelling; voxel size, max thickness, max_angle 1..30, both directions; "
                        "CPU implementation and numba kernel; every clause checked against a brute-force greedy matcher. distinct = (case, geometry, size, direction)",
                   bound=f"{n} cases, <= 600 points, < 25 candidates per source point")
    na = 400 if ck.tier == "quick" else 8000
    ck.bounded_run("assignment", r.gen_assign_cases(ck.seed, na), r.run_assign_case, ref="rtc.c20:run_assign_case",
                   rule="random candidate lists (1..40 matches over 2..13 points, heavy contention, point index 0 included, distinct distances) handed to process_matches_cpu2cpu, compared with a brute-force greedy matcher. distinct = (case, points, matches)",
                   bound=f"{na} candidate lists")
