"""C05 -- pose bookkeeping: contracts on Motl.update_coordinates, scale_coordinates, shift_positions, apply_rotation,
flip_handedness (cryocat/cryomotl.py), composition lemmas, bounded numeric stand-in."""
import z3
from vfw import sym, theory
from vfw.sym import SV, SB, ctx
from vfw.engine import Contract
from vfw.models import frames, npm, rot as rotm, misc
from . import common
from .common import MOTL_COLS, zr

XYZ = ("x", "y", "z")
HALF = z3.RealVal("1/2")


class IoutilsStub:
    """assumed contract of ioutils.dimensions_load: returns the table it is given when that is already a table model
    (per-tomogram KeyedTable with columns tomo_id,x,y,z, or a 1x3 table with columns x,y,z)"""

    @staticmethod
    def dimensions_load(d, *a, **k):
        return d


def _interp():
    return common.motl_interp(extra={"ioutils": IoutilsStub})


def _frame_unchanged(out, old, cols):
    return z3.And(*[zr(out.row[c]) == old[c] for c in cols])


def _pos(row, a):
    return zr(row[a]) + zr(row["shift_" + a])


class _MotlOp(Contract):
    prop = "C05"
    module = "cryomotl"

    def _setup(self, cx):
        it = _interp()
        df = common.fresh_motl_frame()
        me = common.motl_obj(it, df)
        return it, df, me

    def _structure(self, inputs, out):
        """the result table has the same rows (nothing dropped, same index space size) and the 20 columns"""
        cl = [("frame.rows_kept", z3.simplify(out.present) == z3.BoolVal(True)),
              ("frame.columns", z3.BoolVal(list(out.cols) == MOTL_COLS))]
        return cl


class UpdateCoordinates(_MotlOp):
    qual = "Motl.update_coordinates"

    def bind(self, cx, cfg):
        it, df, me = self._setup(cx)
        return (lambda: it.function("Motl.update_coordinates").bind(me)()), {"me": me, "old": common.old_row()}

    def post(self, cx, cfg, inp, res):
        out, old = inp["me"].df, inp["old"]
        cl = self._structure(inp, out)
        for a in XYZ:
            cl.append((f"pos_invariant_{a}", _pos(out.row, a) == old[a] + old["shift_" + a]))
            cl.append((f"integer_{a}", z3.ToReal(z3.ToInt(zr(out.row[a]))) == zr(out.row[a])))
            cl.append((f"shift_within_half_{a}", z3.And(zr(out.row["shift_" + a]) <= HALF, zr(out.row["shift_" + a]) >= -HALF)))
        cl.append(("frame.other_fields", _frame_unchanged(out, old, [c for c in MOTL_COLS if c not in XYZ and not c.startswith("shift_")])))
        return cl

    def replay(self, clause, model, cfg):
        from rtc import c05 as r
        return r.replay_update(model)


class ScaleCoordinates(_MotlOp):
    qual = "Motl.scale_coordinates"

    def bind(self, cx, cfg):
        it, df, me = self._setup(cx)
        f = SV(z3.Real("factor"))
        cx.assume(f.t > 0)
        return (lambda: it.function("Motl.scale_coordinates").bind(me)(f)), {"me": me, "old": common.old_row(), "f": f}

    def post(self, cx, cfg, inp, res):
        out, old, f = inp["me"].df, inp["old"], inp["f"].t
        cl = self._structure(inp, out)
        for a in XYZ:
            cl.append((f"pos_scaled_{a}", _pos(out.row, a) == f * (old[a] + old["shift_" + a])))
        cl.append(("frame.other_fields", _frame_unchanged(out, old, [c for c in MOTL_COLS if c not in XYZ and not c.startswith("shift_")])))
        return cl

    def replay(self, clause, model, cfg):
        from rtc import c05 as r
        return r.replay_scale(model)


def _R_of(row):
    return common.R_zxz(common.cs_of(row["phi"]), common.cs_of(row["theta"]), common.cs_of(row["psi"]))


class ShiftPositions(_MotlOp):
    qual = "Motl.shift_positions"
    configs = [{"inplace": True}, {"inplace": False}]

    def bind(self, cx, cfg):
        it, df, me = self._setup(cx)
        s = [SV(z3.Real(f"s{i}")) for i in range(3)]
        return (lambda: it.function("Motl.shift_positions").bind(me)(list(s), inplace=cfg["inplace"])), {"me": me, "old": common.old_row(), "s": s, "df0": df}

    def post(self, cx, cfg, inp, res):
        old, s = inp["old"], [x.t for x in inp["s"]]
        me = inp["me"]
        out = me.df if cfg["inplace"] else res.df
        cl = self._structure(inp, out)
        # independent statement: pos' = pos + R(phi,theta,psi) s, with R = Rz(psi) Rx(theta) Rz(phi)
        phi, the, psi = (theory.angle_input(n) for n in ("phi", "theta", "psi"))
        R = common.R_zxz(common.cs_of(phi), common.cs_of(the), common.cs_of(psi))
        for i, a in enumerate(XYZ):
            moved = sum((R[i][k] * s[k] for k in range(3)), z3.RealVal(0))
            cl.append((f"pos_moved_{a}", _pos(out.row, a) == old[a] + old["shift_" + a] + moved))
            cl.append((f"extraction_{a}_unchanged", zr(out.row[a]) == old[a]))
        cl.append(("frame.other_fields", _frame_unchanged(out, old, [c for c in MOTL_COLS if c not in XYZ and not c.startswith("shift_")])))
        if not cfg["inplace"]:
            cl.append(("frame.self_untouched", _frame_unchanged(me.df, old, MOTL_COLS)))
            cl.append(("frame.fresh_copy", z3.BoolVal(res.df is not me.df)))
        else:
            cl.append(("returns_none", z3.BoolVal(res is None)))
        return cl

    def replay(self, clause, model, cfg):
        from rtc import c05 as r
        return r.replay_shift(model, cfg["inplace"])


class ApplyRotation(_MotlOp):
    qual = "Motl.apply_rotation"
    configs = [{"arg": "rotation"}, {"arg": "not-a-rotation"}]

    def bind(self, cx, cfg):
        it, df, me = self._setup(cx)
        if cfg["arg"] == "rotation":
            q = [[z3.Real(f"Q{i}{j}") for j in range(3)] for i in range(3)]
            Q = rotm.Rot([q], "single")
        else:
            q, Q = None, [[1, 0, 0], [0, 1, 0], [0, 0, 1]]
        return (lambda: it.function("Motl.apply_rotation").bind(me)(Q)), {"me": me, "old": common.old_row(), "Q": q}

    def post(self, cx, cfg, inp, res):
        if cfg["arg"] != "rotation":
            return [("non_rotation_rejected", z3.BoolVal(False))]  # must have raised
        out, old, Q = inp["me"].df, inp["old"], inp["Q"]
        cl = self._structure(inp, out)
        phi, the, psi = (theory.angle_input(n) for n in ("phi", "theta", "psi"))
        R = common.R_zxz(common.cs_of(phi), common.cs_of(the), common.cs_of(psi))
        Rn = _R_of(out.row)
        RQ = [[sum((R[i][k] * Q[k][j] for k in range(3)), z3.RealVal(0)) for j in range(3)] for i in range(3)]
        for i in range(3):
            for j in range(3):
                cl.append((f"orientation_RQ_{i}{j}", Rn[i][j] == RQ[i][j]))
        cl.append(("frame.other_fields", _frame_unchanged(out, old, [c for c in MOTL_COLS if c not in common.ANGLE_COLS])))
        return cl

    def cover_hint(self, cfg, inp):
        if inp["Q"] is None:
            return []
        return [inp["Q"][i][j] == (1 if i == j else 0) for i in range(3) for j in range(3)] + [z3.Real(f"cos!{a}") == 1 for a in ("phi", "theta", "psi")]

    def raises(self, cx, cfg, inp, exc):
        if cfg["arg"] != "rotation" and exc.exc_type == "ValueError":
            return z3.BoolVal(True)
        return z3.BoolVal(False)

    def replay(self, clause, model, cfg):
        from rtc import c05 as r
        return r.replay_apply_rotation(model)


class FlipHandedness(_MotlOp):
    qual = "Motl.flip_handedness"
    configs = [{"dims": "none"}, {"dims": "single"}, {"dims": "per_tomo"}]
    findings = {}

    def bind(self, cx, cfg):
        it, df, me = self._setup(cx)
        if cfg["dims"] == "none":
            d = None
        elif cfg["dims"] == "single":
            d = frames._OneRow({a: SV(z3.Real("dim_" + a)) for a in XYZ})
        else:
            d = frames.KeyedTable("dims", "tomo_id", ["x", "y", "z"])
            cx.assume(d.n.t >= 2)  # N x 4 table (a 1 x 4 table is not of shape (1,3) either)
            cx.assume(d.has(z3.Real("tomo_id")))  # requires: the particle's tomogram is listed
        return (lambda: it.function("Motl.flip_handedness").bind(me)(d)), {"me": me, "old": common.old_row(), "d": d}

    def post(self, cx, cfg, inp, res):
        out, old, d = inp["me"].df, inp["old"], inp["d"]
        cl = self._structure(inp, out)
        # orientation -> M R M with M = diag(1,1,-1)
        phi, the, psi = (theory.angle_input(n) for n in ("phi", "theta", "psi"))
        R = common.R_zxz(common.cs_of(phi), common.cs_of(the), common.cs_of(psi))
        sg = [1, 1, -1]
        Rn = _R_of(out.row)
        for i in range(3):
            for j in range(3):
                cl.append((f"orientation_mirror_{i}{j}", Rn[i][j] == sg[i] * sg[j] * R[i][j]))
        for a in ("x", "y"):
            cl.append((f"pos_{a}_unchanged", _pos(out.row, a) == old[a] + old["shift_" + a]))
        if cfg["dims"] == "none":
            cl.append(("pos_z_unchanged", _pos(out.row, "z") == old["z"] + old["shift_z"]))
        else:
            dz = z3.Real("dim_z") if cfg["dims"] == "single" else d.fn["z"](z3.Real("tomo_id"))
            cl.append(("pos_z_mirrored", _pos(out.row, "z") == dz + 1 - (old["z"] + old["shift_z"])))
        cl.append(("frame.other_fields", _frame_unchanged(out, old, [c for c in MOTL_COLS if c not in ("theta", "phi", "psi", "z", "shift_z")])))
        return cl

    def replay(self, clause, model, cfg):
        from rtc import c05 as r
        return r.replay_flip(model, cfg["dims"], clause)


CONTRACTS = [UpdateCoordinates, ScaleCoordinates, ShiftPositions, ApplyRotation, FlipHandedness]

LEVEL = "proof"
EXPLANATION = ("Contracts on the five pose-bookkeeping methods of cryomotl.Motl, obligations generated from the current AST by the "
               "generic-row symbolic executor and discharged by polynomial normal form / linearised LRA / z3; composition laws as "
               "lemmas over the contracts. Bounded numeric stand-in (histories of <= 6 operations on the real code) runs as well and is never counted as proved.")
ASSUMPTIONS = ["scipy Rotation contract (vfw/models/rot.py): from_euler = product of axis rotations, apply = R v, * = matrix product, as_euler inverts from_euler",
               "pandas contract: DataFrame.apply(axis=1) maps rows independently; .loc column get/set; float(one-element Series) raises TypeError under pandas 3",
               "ioutils.dimensions_load returns a table with columns tomo_id,x,y,z (N x 4 input) or x,y,z (single triple) -- assumed, exercised by the bounded stand-in"]


def lemmas(ck):
    R = [[z3.Real(f"R{i}{j}") for j in range(3)] for i in range(3)]
    A = [[z3.Real(f"A{i}{j}") for j in range(3)] for i in range(3)]
    B = [[z3.Real(f"B{i}{j}") for j in range(3)] for i in range(3)]
    s1 = [z3.Real(f"u{i}") for i in range(3)]
    s2 = [z3.Real(f"v{i}") for i in range(3)]
    mm = lambda X, Y: [[sum(X[i][k] * Y[k][j] for k in range(3)) for j in range(3)] for i in range(3)]
    mv = lambda X, v: [sum(X[i][k] * v[k] for k in range(3)) for i in range(3)]
    # shift(s1); shift(s2) == shift(s1+s2): orientation is untouched by shift_positions (frame clause), so both use R
    ck.lemma("shift_compose", [], z3.And(*[mv(R, s1)[i] + mv(R, s2)[i] == mv(R, [s1[k] + s2[k] for k in range(3)])[i] for i in range(3)]))
    # apply(Q1); apply(Q2) == apply(Q1*Q2)
    L, Rr = mm(mm(R, A), B), mm(R, mm(A, B))
    ck.lemma("rotation_compose", [], z3.And(*[L[i][j] == Rr[i][j] for i in range(3) for j in range(3)]))
    # flip; flip == id   (M M = I, and dim+1-(dim+1-z) = z)
    sg = [1, 1, -1]
    z, d = z3.Reals("pz dz")
    ck.lemma("flip_involution", [], z3.And(d + 1 - (d + 1 - z) == z, *[sg[i] * sg[j] * (sg[i] * sg[j] * R[i][j]) == R[i][j] for i in range(3) for j in range(3)]))


def run(ck):
    for C in CONTRACTS:
        ck.run_contract(C())
    lemmas(ck)
    from rtc import c05 as r
    n = 40 if ck.tier == "quick" else 1500
    ck.bounded_run("histories", r.gen_cases(ck.seed, n), r.run_case, ref="rtc.c05:run_case",
                   rule="seeded random particle lists (1..300 rows, half-integer ties, angles in +-720, theta in {0,180}) x histories of 1..6 operations; distinct = (case index, size, operation sequence)",
                   bound=f"{n} histories, <= 300 particles, <= 6 operations")
