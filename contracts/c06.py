"""C06 -- rotation geometry primitives (cryocat/geom.py): contracts on angular_distance, cone_distance, inplane_distance,
euler_angles_to_normals, normals_to_euler_angles; metric lemmas over those contracts."""
import z3
from vfw import sym, theory
from vfw.sym import SV, SB, ctx
from vfw.engine import Contract
from vfw.models import frames, npm, rot as rotm
from . import common
from .common import zr


def _mm(A, B):
    return [[sum(A[i][k] * B[k][j] for k in range(3)) for j in range(3)] for i in range(3)]


def _T(A):
    return [[A[j][i] for j in range(3)] for i in range(3)]


def _trace_rel(M1, M2):
    """trace of M1^T M2 = sum_ij M1_ij M2_ij"""
    return sum(M1[i][j] * M2[i][j] for i in range(3) for j in range(3))


def _cos_of_deg(v):
    """cos of an angle-valued result (SV in degrees carrying an angle form)"""
    return theory.cs_any(v, True)[0]


class AngularDistance(Contract):
    """angle = rotation angle of the relative rotation: cos(angle) = (trace(R1^T R2) - 1)/2 with angle in [0,180]
    (this determines the angle uniquely); symmetric; zero for equal rotations; acos argument within its domain
    also in the float-robust form of the quaternion contract."""
    prop = "C06"
    module = "geom"
    qual = "angular_distance"
    configs = [{"mode": "exact", "args": "two"}, {"mode": "exact", "args": "same"}, {"mode": "exact", "args": "swapped"}, {"mode": "float-robust", "args": "two"}]

    def cfg_name(self, cfg):
        return f"{cfg['mode']},{cfg['args']}"

    def bind(self, cx, cfg):
        it = common.geom_interp()
        rotm.QUAT_TOL[0] = cfg["mode"] == "float-robust"
        r1, m1 = rotm.opaque_rot("A")
        r2, m2 = rotm.opaque_rot("B")
        f = it.function("angular_distance")
        if cfg["args"] == "same":
            thunk = lambda: f(r1, r1)
        elif cfg["args"] == "swapped":
            thunk = lambda: (f(r1, r2), f(r2, r1))
        else:
            thunk = lambda: f(r1, r2)

        def run():
            try:
                return thunk()
            finally:
                rotm.QUAT_TOL[0] = False
        return run, {"m1": m1, "m2": m2}

    def post(self, cx, cfg, inp, res):
        if cfg["mode"] == "float-robust":
            return [("returns", z3.BoolVal(res is not None))]  # only the in-path safe.acos-domain obligation matters here
        if cfg["args"] == "swapped":
            (a12, d12), (a21, d21) = res
            return [("symmetric", zr(a12[0]) == zr(a21[0]), ())]
        angle, dist = res
        a = angle[0]
        cl = [("range_0_180", z3.And(zr(a) >= 0, zr(a) <= 180), ())]
        if cfg["args"] == "same":
            cl.append(("zero_for_equal_rotations", zr(a) == 0, ()))
            return cl
        T = _trace_rel(inp["m1"], inp["m2"])
        cl.append(("is_relative_rotation_angle", _cos_of_deg(a) == (T - 1) / 2, ("poly", "linear")))
        cl.append(("one_value_per_pair", z3.BoolVal(tuple(angle.shape) == (1,))))
        return cl

    def cover_hint(self, cfg, inp):
        I = [[1 if i == j else 0 for j in range(3)] for i in range(3)]
        return [inp["m1"][i][j] == I[i][j] for i in range(3) for j in range(3)] + [inp["m2"][i][j] == I[i][j] for i in range(3) for j in range(3)]

    def replay(self, clause, model, cfg):
        from rtc import c06 as r
        return r.replay_angular(model, clause, cfg)


class ConeDistance(Contract):
    prop = "C06"
    module = "geom"
    qual = "cone_distance"

    def bind(self, cx, cfg):
        it = common.geom_interp()
        r1, m1 = rotm.opaque_rot("A")
        r2, m2 = rotm.opaque_rot("B")
        return (lambda: it.function("cone_distance")(r1, r2)), {"m1": m1, "m2": m2}

    def post(self, cx, cfg, inp, res):
        a = res[0]
        z1 = [inp["m1"][i][2] for i in range(3)]
        z2 = [inp["m2"][i][2] for i in range(3)]
        dot = sum(z1[i] * z2[i] for i in range(3))
        return [("range_0_180", z3.And(zr(a) >= 0, zr(a) <= 180), ()),
                ("angle_between_z_axes", _cos_of_deg(a) == dot, ("poly", "linear"))]

    def cover_hint(self, cfg, inp):
        I = [[1 if i == j else 0 for j in range(3)] for i in range(3)]
        return [inp["m1"][i][j] == I[i][j] for i in range(3) for j in range(3)] + [inp["m2"][i][j] == I[i][j] for i in range(3) for j in range(3)]

    def replay(self, clause, model, cfg):
        from rtc import c06 as r
        return r.replay_cone(model)


class InplaneDistance(Contract):
    prop = "C06"
    module = "geom"
    qual = "inplane_distance"
    configs = [{"args": "two"}, {"args": "same"}]

    def bind(self, cx, cfg):
        it = common.geom_interp()
        r1, m1 = rotm.opaque_rot("A")
        r2, m2 = rotm.opaque_rot("B")
        f = it.function("inplane_distance")
        return (lambda: f(r1, r2 if cfg["args"] == "two" else r1)), {"m1": m1, "m2": m2}

    def post(self, cx, cfg, inp, res):
        a = res[0]
        cl = [("range_0_180", z3.And(zr(a) >= 0, zr(a) <= 180), ())]
        if cfg["args"] == "same":
            cl.append(("zero_for_equal_orientations", zr(a) == 0, ()))
        return cl

    def cover_hint(self, cfg, inp):
        I = [[1 if i == j else 0 for j in range(3)] for i in range(3)]
        return [inp["m1"][i][j] == I[i][j] for i in range(3) for j in range(3)] + [inp["m2"][i][j] == I[i][j] for i in range(3) for j in range(3)]


class EulerToNormals(Contract):
    """for a table of N orientations (generic row): row r of the result is R_r e_z and has unit length"""
    prop = "C06"
    module = "geom"
    qual = "euler_angles_to_normals"
    configs = [{"n": "generic"}, {"n": 1}, {"n": 2}]

    def cfg_name(self, cfg):
        return f"N={cfg['n']}"

    def bind(self, cx, cfg):
        it = common.geom_interp()
        if cfg["n"] == "generic":
            sp = frames.Space(tag="ang")
            cx.assume(sp.n.t >= 1)
            ang = [theory.angle_input(n) for n in ("phi", "theta", "psi")]
            arr = frames.RowArr(ang, sp)
            rows = [ang]
        else:
            rows = [[theory.angle_input(f"{n}{r}") for n in ("phi", "theta", "psi")] for r in range(cfg["n"])]
            arr = npm.obj(rows)
        return (lambda: it.function("euler_angles_to_normals")(arr)), {"rows": rows}

    def post(self, cx, cfg, inp, res):
        cl = []
        for r, ang in enumerate(inp["rows"]):
            R = common.R_zxz(common.cs_of(ang[0]), common.cs_of(ang[1]), common.cs_of(ang[2]))
            vals = res.vals if cfg["n"] == "generic" else [res[r, j] for j in range(3)]
            for j in range(3):
                cl.append((f"row{r}_is_image_of_z_axis_{j}", zr(vals[j]) == R[j][2], ("poly", "linear")))
            cl.append((f"row{r}_unit_length", sum(zr(v) * zr(v) for v in vals) == 1, ("poly", "linear")))
        return cl

    def replay(self, clause, model, cfg):
        from rtc import c06 as r
        return r.replay_normals(model, cfg["n"])


class NormalsToEuler(Contract):
    """the returned orientation's z-axis is the normalised input normal, for both output orders"""
    prop = "C06"
    module = "geom"
    qual = "normals_to_euler_angles"
    configs = [{"order": "zxz"}, {"order": "zzx"}, {"order": "zxz", "input": "table"}]

    def cfg_name(self, cfg):
        return cfg["order"] + (",table-input" if cfg.get("input") else "")

    def bind(self, cx, cfg):
        it = common.geom_interp()
        n = [SV(z3.Real(f"n{a}")) for a in "xyz"]
        cx.assume(n[0].t * n[0].t + n[1].t * n[1].t + n[2].t * n[2].t > 0)
        if cfg.get("input") == "table":
            # a table whose generic row holds the normal in the columns named x, y, z (among other columns, in another order)
            sp = frames.Space(tag="nrm")
            arr = frames.GFrame(["score", "z", "x", "tomo_id", "y"], {"score": SV(z3.Real("score")), "z": n[2], "x": n[0], "tomo_id": SV(z3.Real("tomo_id")), "y": n[1]}, sp)
        else:
            arr = npm.obj([n])
        return (lambda: it.function("normals_to_euler_angles")(arr, cfg["order"])), {"n": n}

    def post(self, cx, cfg, inp, res):
        if cfg.get("input") == "table":
            if not (isinstance(res, frames.RowArr) and res.k == 3):
                return [("one_orientation_per_row", z3.BoolVal(False))]
            row = list(res.vals)
        else:
            row = [res[0, j] for j in range(3)]
        phi, the, psi = (row[0], row[1], row[2]) if cfg["order"] == "zxz" else (row[0], row[2], row[1])
        (ct, st), (cp, sp) = common.cs_of(the), common.cs_of(psi)
        zax = [sp * st, -cp * st, ct]  # R(phi,theta,psi) e_z, independent of phi
        n = [x.t for x in inp["n"]]
        L = theory.sqrt(SV(n[0] * n[0] + n[1] * n[1] + n[2] * n[2])).t
        return [(f"z_axis_is_normalised_normal_{j}", L * zax[j] == n[j], ("poly", "linear")) for j in range(3)] + ([("shape", z3.BoolVal(tuple(res.shape) == (1, 3)))] if not cfg.get("input") else [])

    def replay(self, clause, model, cfg):
        from rtc import c06 as r
        return r.replay_normals_to_euler(model, cfg["order"])


CONTRACTS = [AngularDistance, ConeDistance, InplaneDistance, EulerToNormals, NormalsToEuler]
LEVEL = "proof"
EXPLANATION = ("angular_distance: cos(result) = (trace(R1^T R2)-1)/2 with result in [0,180] (i.e. the rotation angle of the relative rotation), symmetry, zero for equal rotations and the "
               "float-robust acos-domain obligation; cone_distance = angle between z-axes; inplane_distance in [0,180] and 0 for equal orientations; euler_angles_to_normals returns R e_z of unit "
               "length for every row of a table of any length; normals_to_euler_angles returns an orientation whose z-axis is the normalised normal. Invariance under a common rotation, "
               "zero => equal and the triangle inequality are lemmas over the trace form of the contract (polynomial identities / Lagrange identity / Lean).")
ASSUMPTIONS = ["scipy Rotation contract incl. as_quat (unit quaternion with R(q)=R; float-robust form: |q|^2 within 1e-9 of 1) and as_euler ranges",
               "acos/atan2/sqrt characterised by the axiom instances listed in trusted_base",
               "np.random.rand returns numbers in [0,1)"]


def lemmas(ck):
    # invariance: trace((P R1)^T (P R2)) = trace(R1^T R2) and trace((R1 P)^T (R2 P)) = trace(R1^T R2) for orthogonal P.
    # Because the contract pins the result to acos((trace-1)/2) in [0,180], equal traces give equal distances.
    A = [[z3.Real(f"A{i}{j}") for j in range(3)] for i in range(3)]
    B = [[z3.Real(f"B{i}{j}") for j in range(3)] for i in range(3)]
    P = [[z3.Real(f"P{i}{j}") for j in range(3)] for i in range(3)]
    orthoL = [sum(P[k][i] * P[k][j] for k in range(3)) == (1 if i == j else 0) for i in range(3) for j in range(3)]
    orthoR = [sum(P[i][k] * P[j][k] for k in range(3)) == (1 if i == j else 0) for i in range(3) for j in range(3)]
    ck.lemma("invariance_left", orthoL, _trace_rel(_mm(P, A), _mm(P, B)) == _trace_rel(A, B), tactics=("lift",))
    ck.lemma("invariance_right", orthoR, _trace_rel(_mm(A, P), _mm(B, P)) == _trace_rel(A, B), tactics=("lift",))
    # zero exactly for equal rotations: angle = 0 <=> |q1.q2| = 1; for unit quaternions Lagrange's identity
    # |q1|^2|q2|^2 - (q1.q2)^2 = sum_{i<j} (q1_i q2_j - q1_j q2_i)^2 forces q1 = +-q2, hence R(q1) = R(q2)
    q = [z3.Real(f"q{i}") for i in range(4)]
    p = [z3.Real(f"p{i}") for i in range(4)]
    d = sum(q[i] * p[i] for i in range(4))
    nq, np_ = sum(x * x for x in q), sum(x * x for x in p)
    cross = [q[i] * p[j] - q[j] * p[i] for i in range(4) for j in range(i + 1, 4)]
    ck.lemma("lagrange_identity", [], nq * np_ - d * d == sum(c * c for c in cross), tactics=("poly",))
    t = [z3.Real(f"t{k}") for k in range(6)]
    ck.lemma("zero_sum_of_squares", [sum(x * x for x in t) == 0], z3.And(*[x == 0 for x in t]), tactics=())
    D, S = z3.Reals("D S")
    ck.lemma("cauchy_schwarz_range", [S == 1 - D * D, S >= 0], z3.And(D <= 1, D >= -1), tactics=(),
             note="with D = q1.q2 and S = |q1|^2|q2|^2 - D^2 = sum of squares (lagrange_identity) for unit quaternions: -1 <= q1.q2 <= 1, so the acos argument is in its domain over the reals")
    ck.lemma("parallel_unit_quaternions_equal_up_to_sign", [nq == 1, np_ == 1, d == 1] + [c == 0 for c in cross], z3.And(*[q[i] == p[i] for i in range(4)]), tactics=())
    R1, R2 = rotm.quat_matrix(*q), rotm.quat_matrix(*[-x for x in q])
    ck.lemma("rotation_even_in_quaternion", [], z3.And(*[R1[i][j] == R2[i][j] for i in range(3) for j in range(3)]), tactics=("poly",))
    # trace form used by the contract: for unit quaternions trace(R(q)^T R(p)) = 4 (q.p)^2 - 1
    Rq, Rp = rotm.quat_matrix(*q), rotm.quat_matrix(*p)
    if ck.tier == "thorough":
        # triangle inequality: theta = 2 min(alpha, pi - alpha) with alpha the angle between the unit quaternions (trace_is_4d2_minus_1 gives
        # cos theta = 2 d^2 - 1 = cos 2 alpha); the inequality for min(alpha, pi - alpha) in any real inner product space is proved in Lean/Mathlib
        ck.external_lemma("triangle_inequality_of_the_angular_distance", "lean lean/Triangle.lean", "lean-4.33.0+mathlib",
                          note="lean/Triangle.lean: pdist_triangle, pdist_comm, pdist_nonneg, pdist_le_half_pi (thorough tier only, about 70 s)")
    ck.lemma("trace_is_4d2_minus_1", [q[3] * q[3] == 1 - q[0] * q[0] - q[1] * q[1] - q[2] * q[2], p[3] * p[3] == 1 - p[0] * p[0] - p[1] * p[1] - p[2] * p[2]],
             _trace_rel(Rq, Rp) == 4 * d * d - 1, tactics=("poly",))


def run(ck):
    for C in CONTRACTS:
        ck.run_contract(C())
    lemmas(ck)
    from rtc import c06 as r
    n = 80 if ck.tier == "quick" else 2500
    ck.bounded_run("so3_ground_truth", r.gen_cases(ck.seed, n), r.run_case, ref="rtc.c06:run_case",
                   rule="pairs/triples of rotations: random, near-identical, antipodal (180 deg), gimbal lock, the 24 cube rotations, 45-degree Euler lattice; batches 1..500; normals of any length incl. axis aligned and +-z; "
                        "every clause of the property (range, symmetry, identity, invariance, triangle inequality, cone, in-plane, normals both ways) evaluated numerically. distinct = (case, kind, batch size)",
                   bound=f"{n} cases, batches <= 500")
