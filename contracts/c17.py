"""C17 -- tilt-series metadata.  Deductive: defocus loader arithmetic (gctf / ctffind4: Angstrom -> micrometre, mean = (U+V)/2,
astigmatism / phase shift columns), STOPGAP wedge-list row pairing of create_wedge_list_sg for array inputs.  Bounded: mdoc text
round trip and operations, all file-reading paths, batch wedge lists, EM wedge list."""
import z3
from vfw import sym
from vfw.sym import SV, SB, ctx, Unsupported
from vfw.engine import Contract
from vfw.interp import Interp
from vfw.models import frames, misc, npm
from . import common
from .common import zr


def _interp(extra):
    g = common.base_globals()
    g.update(extra)
    return g


class GctfRead(Contract):
    prop = "C17"
    module = "ioutils"
    qual = "gctf_read"
    configs = [{"phase": True}, {"phase": False}]

    def cfg_name(self, cfg):
        return f"phase_column={cfg['phase']}"

    def bind(self, cx, cfg):
        cols = ["rlnMicrographName", "rlnDefocusU", "rlnDefocusV", "rlnDefocusAngle"] + (["rlnPhaseShift"] if cfg["phase"] else []) + ["rlnFinalResolution"]
        fr = frames.fresh_frame(cols, "f_")

        class SF:
            class Starfile:
                @staticmethod
                def read(path, data_id=None):
                    return (fr, "data_", []) if data_id is not None else ([fr], ["data_"], [[]])

        it = Interp("ioutils", _interp({"sf": SF}))
        return (lambda: it.function("gctf_read")("x.star")), {"cfg": cfg}

    def post(self, cx, cfg, inp, res):
        U, Vv, A = z3.Real("f_rlnDefocusU"), z3.Real("f_rlnDefocusV"), z3.Real("f_rlnDefocusAngle")
        ph = z3.Real("f_rlnPhaseShift") if cfg["phase"] else z3.RealVal(0)
        from fractions import Fraction
        k = z3.RealVal(Fraction(1e-4))  # 1e-4 (Angstrom -> micrometre), identified with its nearest double
        return [("columns", z3.BoolVal(list(res.cols) == ["defocus1", "defocus2", "astigmatism", "phase_shift", "defocus_mean"])),
                ("defocus_in_micrometre", z3.And(zr(res.row["defocus1"]) == U * k, zr(res.row["defocus2"]) == Vv * k), ()),
                ("mean_is_half_sum", zr(res.row["defocus_mean"]) == (U * k + Vv * k) / 2, ()),
                ("astigmatism_and_phase_copied", z3.And(zr(res.row["astigmatism"]) == A, zr(res.row["phase_shift"]) == ph), ()),
                ("one_row_per_micrograph", z3.simplify(res.present) == z3.BoolVal(True))]


class Ctffind4Read(Contract):
    prop = "C17"
    module = "ioutils"
    qual = "ctffind4_read"

    def bind(self, cx, cfg):
        fr = frames.fresh_frame([0, 1, 2, 3, 4, 5, 6], "col")
        pdm = misc.PD()

        class PDX:
            def __getattr__(self, k):
                return getattr(pdm, k)

            @staticmethod
            def read_csv(path, **k):
                return fr

        it = Interp("ioutils", _interp({"pd": PDX(), "get_number_of_lines_with_character": lambda *a: 4}))
        it.contracts["get_number_of_lines_with_character"] = lambda *a: 4
        return (lambda: it.function("ctffind4_read")("x.txt")), {}

    def post(self, cx, cfg, inp, res):
        c = [z3.Real(f"col{j}") for j in range(7)]
        from fractions import Fraction
        k = z3.RealVal(Fraction(1e-4))  # 1e-4 (Angstrom -> micrometre), identified with its nearest double
        return [("columns", z3.BoolVal(list(res.cols) == ["defocus1", "defocus2", "astigmatism", "phase_shift", "defocus_mean"])),
                ("columns_2_3_are_defocus_in_micrometre", z3.And(zr(res.row["defocus1"]) == c[1] * k, zr(res.row["defocus2"]) == c[2] * k), ()),
                ("columns_4_5_are_astigmatism_and_phase", z3.And(zr(res.row["astigmatism"]) == c[3], zr(res.row["phase_shift"]) == c[4]), ()),
                ("mean_is_half_sum", zr(res.row["defocus_mean"]) == (c[1] * k + c[2] * k) / 2, ())]


class WedgeListSg(Contract):
    """one row per tilt: (tomogram, pixel size, dims, z-shift, tilt_i, defocus_i, exposure_i, voltage, amplitude contrast, cs)"""
    prop = "C17"
    module = "wedgeutils"
    qual = "create_wedge_list_sg"
    configs = [{"ctf": True, "dose": True, "mismatch": None}, {"ctf": False, "dose": True, "mismatch": None}, {"ctf": True, "dose": False, "mismatch": None},
               {"ctf": True, "dose": True, "mismatch": "dose"}, {"ctf": True, "dose": True, "mismatch": "ctf"}]

    def cfg_name(self, cfg):
        return f"ctf={cfg['ctf']},dose={cfg['dose']},mismatch={cfg['mismatch']}"

    def bind(self, cx, cfg):
        sp = frames.Space(tag="tilts")
        cx.assume(sp.n.t >= 1)

        def series(name, space):
            F = z3.Function(name, z3.IntSort(), z3.RealSort())
            return frames.GVec(SV(F(frames.RowPos(space).val.t)), space)

        sp_d = frames.Space(tag="dose") if cfg["mismatch"] == "dose" else frames.Space(n=sp.n, tag="dose")
        sp_c = frames.Space(tag="ctf") if cfg["mismatch"] == "ctf" else frames.Space(n=sp.n, tag="ctf")
        if cfg["mismatch"] == "dose":
            cx.assume(sp_d.n.t != sp.n.t)
        if cfg["mismatch"] == "ctf":
            cx.assume(sp_c.n.t != sp.n.t)
        tilts, dose, defo = series("tilt", sp), series("dose", sp_d), series("defocus_mean", sp_c)
        dims = frames._OneRow({a: SV(z3.Real("dim_" + a)) for a in "xyz"})
        zs = frames._OneRow({"z_shift": SV(z3.Real("zshift"))})

        class Io:
            tlt_load = staticmethod(lambda x, **k: x)
            total_dose_load = staticmethod(lambda x, **k: x)
            dimensions_load = staticmethod(lambda x, **k: dims)
            z_shift_load = staticmethod(lambda x, **k: zs)

            @staticmethod
            def defocus_load(x, ft="gctf"):
                class D:
                    def __getitem__(self, k):
                        if k != "defocus_mean":
                            raise Unsupported("defocus column")
                        return x
                return D()

        it = Interp("wedgeutils", _interp({"ioutils": Io, "starfileio": None}))
        tid, px = SV(z3.Real("tomo_id")), SV(z3.Real("pixel_size"))
        volt, amp, cs = SV(z3.Real("voltage")), SV(z3.Real("amp_contrast")), SV(z3.Real("cs"))
        f = it.function("create_wedge_list_sg")
        return (lambda: f(tid, "dims", px, tilts, z_shift="zs", ctf_file=(defo if cfg["ctf"] else None), dose_file=(dose if cfg["dose"] else None), voltage=volt, amp_contrast=amp, cs=cs)), {"sp": sp}

    def post(self, cx, cfg, inp, res):
        if cfg["mismatch"]:
            return [("length_mismatch_rejected", z3.BoolVal(False))]
        pos = frames.RowPos(res.space).val.t
        F = lambda n: z3.Function(n, z3.IntSort(), z3.RealSort())(pos)
        want = ["tomo_num", "pixelsize", "tomo_x", "tomo_y", "tomo_z", "z_shift", "tilt_angle"] + (["defocus"] if cfg["ctf"] else []) + (["exposure"] if cfg["dose"] else []) + ["voltage", "amp_contrast", "cs"]
        cl = [("columns", z3.BoolVal(list(res.cols) == want)), ("one_row_per_tilt", res.space.n.t == inp["sp"].n.t, ())]
        if list(res.cols) != want:
            return cl
        r = res.row
        cl.append(("tilt_i", zr(r["tilt_angle"]) == F("tilt"), ()))
        if cfg["ctf"]:
            cl.append(("defocus_i", zr(r["defocus"]) == F("defocus_mean"), ()))
        if cfg["dose"]:
            cl.append(("exposure_i", zr(r["exposure"]) == F("dose"), ()))
        cl.append(("tomogram_constants", z3.And(zr(r["tomo_num"]) == z3.Real("tomo_id"), zr(r["pixelsize"]) == z3.Real("pixel_size"), zr(r["tomo_x"]) == z3.Real("dim_x"), zr(r["tomo_y"]) == z3.Real("dim_y"),
                                                zr(r["tomo_z"]) == z3.Real("dim_z"), zr(r["z_shift"]) == z3.Real("zshift"), zr(r["voltage"]) == z3.Real("voltage"), zr(r["amp_contrast"]) == z3.Real("amp_contrast"), zr(r["cs"]) == z3.Real("cs")), ()))
        return cl

    def raises(self, cx, cfg, inp, exc):
        return z3.BoolVal(cfg["mismatch"] is not None and exc.exc_type == "ValueError")


class _Tomos(frames._Generic):
    """ioutils.tlt_load(tomo_list).astype(int): the tomogram numbers; iterating binds an arbitrary one"""

    def __init__(self):
        self.t = SV(z3.Real("tomogram"))
        self.n = SV(z3.Int("n_tomograms"))

    def astype(self, *a, **k):
        return self

    def __sym_len__(self):
        return self.n

    def __generic_for__(self, interp, st, env):
        from vfw.models import kernels

        def bind(e):
            e.vars[st.target.id] = self.t
            return []
        kernels.generic_body(interp, st, env, bind)


class _WedgeAccum(frames._Generic):
    def __init__(self):
        self.pieces, self.dropna_args, self.reset = [], None, False
        self.shape = (SV(ctx().fresh("n_rows", "Int")), 12)

    def dropna(self, **k):
        self.dropna_args = k
        return self

    def reset_index(self, drop=False, inplace=False, **k):
        self.reset = bool(drop and inplace)


class WedgeListSgBatch(Contract):
    """create_wedge_list_sg_batch, one arbitrary tomogram of its loop: create_wedge_list_sg (contract above) is called with THAT tomogram's number,
    dimensions, z-shift and files (pattern with the number substituted) and the given constants; its table is appended to the result"""
    prop = "C17"
    module = "wedgeutils"
    qual = "create_wedge_list_sg_batch"
    configs = [{"ctf": True, "dose": True}]  # without ctf / dose patterns the file variables are loop-carried Nones, which the arbitrary-iteration model havocs: bounded only

    def cfg_name(self, cfg):
        return f"ctf={cfg['ctf']},dose={cfg['dose']}"

    def bind(self, cx, cfg):
        tomos = _Tomos()
        dims = frames.KeyedTable("dims", "tomo_id", ["x", "y", "z"])
        zs = frames.KeyedTable("zshift", "tomo_id", ["z_shift"])
        cx.assume(z3.And(dims.has(tomos.t.t), zs.has(tomos.t.t)))  # requires: the per-tomogram tables list every requested tomogram
        rec = {"calls": [], "loaded": []}

        class Io:
            @staticmethod
            def tlt_load(x, **k):
                rec["loaded"].append(("tlt", x))
                return tomos

            @staticmethod
            def dimensions_load(x, *a, **k):
                rec["loaded"].append(("dims", x))
                return dims

            @staticmethod
            def z_shift_load(x, **k):
                rec["loaded"].append(("zs", x))
                return zs

            @staticmethod
            def fileformat_replace_pattern(fmt, num, letter, **k):
                return ("file", fmt, num, letter)

        acc = []

        class PD:
            @staticmethod
            def DataFrame(*a, **k):
                w = _WedgeAccum()
                acc.append(w)
                return w

            @staticmethod
            def concat(parts, **k):
                parts = list(parts)
                if len(parts) == 2 and isinstance(parts[0], _WedgeAccum):
                    parts[0].pieces.append(parts[1])
                    return parts[0]
                raise sym.Unsupported("concat form")

        def single(*a, **k):
            rec["calls"].append((a, k))
            return ("single-table", len(rec["calls"]))
        g = common.base_globals()
        g.update({"ioutils": Io, "pd": PD})
        it = Interp("wedgeutils", g, contracts={"create_wedge_list_sg": single})
        f = it.function("create_wedge_list_sg_batch")
        px = SV(z3.Real("pixel_size"))
        consts = {"voltage": SV(z3.Real("voltage")), "amp_contrast": SV(z3.Real("amp_contrast")), "cs": SV(z3.Real("cs"))}

        def thunk():
            rec["calls"], rec["loaded"] = [], []
            acc.clear()
            r = f("tomo_list", px, "tlt_$xxx", tomo_dim="dims_arg", z_shift="zs_arg", ctf_file_format=("ctf_$xxx" if cfg["ctf"] else None), ctf_file_type="ctffind4",
                  dose_file_format=("dose_$xxx" if cfg["dose"] else None), **consts)
            return dict(rec, ret=r, acc=list(acc))
        return thunk, {"tomos": tomos, "dims": dims, "zs": zs, "px": px, "consts": consts}

    def post(self, cx, cfg, inp, res):
        t, dims, zs = inp["tomos"].t, inp["dims"], inp["zs"]
        cl = [("inputs_loaded_from_the_given_arguments", z3.BoolVal(sorted(res["loaded"]) == sorted([("tlt", "tomo_list"), ("dims", "dims_arg"), ("zs", "zs_arg")]))),
              ("one_call_per_tomogram_appended_to_the_result", z3.BoolVal(len(res["calls"]) == 1 and len(res["acc"]) == 1 and res["acc"][0].pieces == [("single-table", 1)] and res["ret"] is res["acc"][0] and res["acc"][0].reset))]
        if len(res["calls"]) != 1:
            return cl
        a, k = res["calls"][0]
        fileof = lambda fmt: ("file", fmt, t, "x")

        def same(x, y):
            if x is None or y is None:
                return x is y
            return isinstance(x, tuple) and len(x) == 4 and x[0] == "file" and x[1] == y[1] and x[2] is y[2] and x[3] == y[3]
        cl.append(("called_for_this_tomogram", z3.BoolVal(len(a) == 1 and a[0] is t)))
        td = k.get("tomo_dim")
        okd = hasattr(td, "__len__") and len(td) == 3
        cl.append(("dimensions_are_those_of_this_tomogram", z3.And(*[zr(td[i]) == dims.fn[c](t.t) for i, c in enumerate("xyz")]) if okd else z3.BoolVal(False), ()))
        cl.append(("z_shift_is_that_of_this_tomogram", zr(k.get("z_shift")) == zs.fn["z_shift"](t.t) if isinstance(k.get("z_shift"), SV) else z3.BoolVal(False), ()))
        cl.append(("files_are_the_patterns_with_this_tomograms_number", z3.BoolVal(same(k.get("tlt_file"), fileof("tlt_$xxx")) and same(k.get("ctf_file"), fileof("ctf_$xxx") if cfg["ctf"] else None)
                                                                                  and same(k.get("dose_file"), fileof("dose_$xxx") if cfg["dose"] else None) and k.get("ctf_file_type") == "ctffind4")))
        cl.append(("pixel_size_and_microscope_constants_forwarded", z3.BoolVal(k.get("pixel_size") is inp["px"] and all(k.get(n) is v for n, v in inp["consts"].items()))))
        return cl

    def replay(self, clause, model, cfg):
        from rtc import c17 as r
        return r.replay_kind("wedge_sg")


CONTRACTS = [GctfRead, Ctffind4Read, WedgeListSg, WedgeListSgBatch]
LEVEL = "other"
EXPLANATION = ("Deductive part: the defocus loaders' arithmetic on the generic row (Angstrom -> micrometre, mean = (U+V)/2, copied astigmatism / phase shift, 0 when the phase column is absent) and the row pairing of "
               "create_wedge_list_sg (i-th tilt with i-th defocus and exposure, per-tomogram constants, one row per tilt, length mismatch rejected). Bounded part: mdoc text round trip / sort / remove / write, every "
               "file-reading path, the batch wedge lists and the EM wedge list, with files written by an independent writer.")
ASSUMPTIONS = ["Starfile.read / pandas.read_csv return the table in the file (bounded stand-in reads real files); ioutils loaders return array inputs unchanged",
               "string parsing and formatting (mdoc text, file name patterns) are outside deductive reach"]


def run(ck):
    for C in CONTRACTS:
        ck.run_contract(C())
    from rtc import c17 as r
    n = 60 if ck.tier == "quick" else 1000
    ck.bounded_run("metadata_files", r.gen_cases(ck.seed, n), r.run_case, ref="rtc.c17:run_case",
                   rule="grammar-generated mdocs (1..80 ZValue sections, negative / float / text values, titles), any index subset to remove; tilt / dose files, gctf STAR and ctffind4 text files with 1..80 rows; 1..5 tomograms "
                        "with per-tomogram dimensions and z-shifts. distinct = (case, kind)",
                   bound=f"{n} cases, <= 80 images, <= 5 tomograms")
