"""C17 -- tilt-series metadata.  Deductive: defocus loader arithmetic (gctf / ctffind4: Angstrom -> micrometre, mean = (U+V)/2,
astigmatism / phase shift columns), STOPGAP wedge-list row pairing of create_wedge_list_sg for array inputs.  Bounded: mdoc text
round trip and operations, all file-reading paths, batch wedge lists, EM wedge list."""
import z3
from vfw import sym
from vfw.sym import SV, SB, ctx, Unsupported
from vfw.engine import Contract
from vfw.interp import Interp
from vfw.models import frames, misc, npm
from . import common
from .common import zr


def _interp(extra):
    g = common.base_globals()
    g.update(extra)
    return g


class GctfRead(Contract):
    prop = "C17"
    module = "ioutils"
    qual = "gctf_read"
    # STAR columns are identified by label: the usual gctf layout and two legitimate other orders of the same labels
    configs = [{"phase": ph, "order": o} for ph in (True, False) for o in ("usual", "angle_first", "phase_first")]

    def cfg_name(self, cfg):
        return f"phase_column={cfg['phase']}" + ("" if cfg["order"] == "usual" else f",order={cfg['order']}")

    def bind(self, cx, cfg):
        cols = ["rlnMicrographName", "rlnDefocusU", "rlnDefocusV", "rlnDefocusAngle"] + (["rlnPhaseShift"] if cfg["phase"] else []) + ["rlnFinalResolution"]
        if cfg["order"] == "angle_first":
            cols = ["rlnDefocusAngle", "rlnMicrographName", "rlnDefocusV", "rlnFinalResolution", "rlnDefocusU"] + (["rlnPhaseShift"] if cfg["phase"] else [])
        elif cfg["order"] == "phase_first":
            cols = (["rlnPhaseShift"] if cfg["phase"] else []) + ["rlnFinalResolution", "rlnDefocusU", "rlnDefocusV", "rlnMicrographName", "rlnDefocusAngle"]
        fr = frames.fresh_frame(cols, "f_")

        class SF:
            class Starfile:
                @staticmethod
                def read(path, data_id=None):
                    return (fr, "data_", []) if data_id is not None else ([fr], ["data_"], [[]])

        it = Interp("ioutils", _interp({"sf": SF}))
        return (lambda: it.function("gctf_read")("x.star")), {"cfg": cfg}

    def post(self, cx, cfg, inp, res):
        U, Vv, A = z3.Real("f_rlnDefocusU"), z3.Real("f_rlnDefocusV"), z3.Real("f_rlnDefocusAngle")
        ph = z3.Real("f_rlnPhaseShift") if cfg["phase"] else z3.RealVal(0)
        from fractions import Fraction
        k = z3.RealVal(Fraction(1e-4))  # 1e-4 (Angstrom -> micrometre), identified with its nearest double
        return [("columns", z3.BoolVal(list(res.cols) == ["defocus1", "defocus2", "astigmatism", "phase_shift", "defocus_mean"])),
                ("defocus_in_micrometre", z3.And(zr(res.row["defocus1"]) == U * k, zr(res.row["defocus2"]) == Vv * k), ()),
                ("mean_is_half_sum", zr(res.row["defocus_mean"]) == (U * k + Vv * k) / 2, ()),
                ("astigmatism_and_phase_copied", z3.And(zr(res.row["astigmatism"]) == A, zr(res.row["phase_shift"]) == ph), ()),
                ("one_row_per_micrograph", z3.simplify(res.present) == z3.BoolVal(True))]


class Ctffind4Read(Contract):
    prop = "C17"
    module = "ioutils"
    qual = "ctffind4_read"

    def bind(self, cx, cfg):
        fr = frames.fresh_frame([0, 1, 2, 3, 4, 5, 6], "col")
        pdm = misc.PD()

        class PDX:
            def __getattr__(self, k):
                return getattr(pdm, k)

            @staticmethod
            def read_csv(path, **k):
                return fr

        it = Interp("ioutils", _interp({"pd": PDX(), "get_number_of_lines_with_character": lambda *a: 4}))
        it.contracts["get_number_of_lines_with_character"] = lambda *a: 4
        return (lambda: it.function("ctffind4_read")("x.txt")), {}

    def post(self, cx, cfg, inp, res):
        c = [z3.Real(f"col{j}") for j in range(7)]
        from fractions import Fraction
        k = z3.RealVal(Fraction(1e-4))  # 1e-4 (Angstrom -> micrometre), identified with its nearest double
        return [("columns", z3.BoolVal(list(res.cols) == ["defocus1", "defocus2", "astigmatism", "phase_shift", "defocus_mean"])),
                ("columns_2_3_are_defocus_in_micrometre", z3.And(zr(res.row["defocus1"]) == c[1] * k, zr(res.row["defocus2"]) == c[2] * k), ()),
                ("columns_4_5_are_astigmatism_and_phase", z3.And(zr(res.row["astigmatism"]) == c[3], zr(res.row["phase_shift"]) == c[4]), ()),
                ("mean_is_half_sum", zr(res.row["defocus_mean"]) == (c[1] * k + c[2] * k) / 2, ())]


class WedgeListSg(Contract):
    """one row per tilt: (tomogram, pixel size, dims, z-shift, tilt_i, defocus_i, exposure_i, voltage, amplitude contrast, cs)"""
    prop = "C17"
    module = "wedgeutils"
    qual = "create_wedge_list_sg"
    configs = [{"ctf": True, "dose": True, "mismatch": None}, {"ctf": False, "dose": True, "mismatch": None}, {"ctf": True, "dose": False, "mismatch": None},
               {"ctf": True, "dose": True, "mismatch": "dose"}, {"ctf": True, "dose": True, "mismatch": "ctf"}]

    def cfg_name(self, cfg):
        return f"ctf={cfg['ctf']},dose={cfg['dose']},mismatch={cfg['mismatch']}"

    def bind(self, cx, cfg):
        sp = frames.Space(tag="tilts")
        cx.assume(sp.n.t >= 1)

        def series(name, space):
            F = z3.Function(name, z3.IntSort(), z3.RealSort())
            return frames.GVec(SV(F(frames.RowPos(space).val.t)), space)

        sp_d = frames.Space(tag="dose") if cfg["mismatch"] == "dose" else frames.Space(n=sp.n, tag="dose")
        sp_c = frames.Space(tag="ctf") if cfg["mismatch"] == "ctf" else frames.Space(n=sp.n, tag="ctf")
        if cfg["mismatch"] == "dose":
            cx.assume(sp_d.n.t != sp.n.t)
        if cfg["mismatch"] == "ctf":
            cx.assume(sp_c.n.t != sp.n.t)
        tilts, dose, defo = series("tilt", sp), series("dose", sp_d), series("defocus_mean", sp_c)
        dims = frames._OneRow({a: SV(z3.Real("dim_" + a)) for a in "xyz"})
        zs = frames._OneRow({"z_shift": SV(z3.Real("zshift"))})

        class Io:
            tlt_load = staticmethod(lambda x, **k: x)
            total_dose_load = staticmethod(lambda x, **k: x)
            dimensions_load = staticmethod(lambda x, **k: dims)
            z_shift_load = staticmethod(lambda x, **k: zs)

            @staticmethod
            def defocus_load(x, ft="gctf"):
                class D:
                    def __getitem__(self, k):
                        if k != "defocus_mean":
                            raise Unsupported("defocus column")
                        return x
                return D()

        it = Interp("wedgeutils", _interp({"ioutils": Io, "starfileio": None}))
        tid, px = SV(z3.Real("tomo_id")), SV(z3.Real("pixel_size"))
        volt, amp, cs = SV(z3.Real("voltage")), SV(z3.Real("amp_contrast")), SV(z3.Real("cs"))
        f = it.function("create_wedge_list_sg")
        return (lambda: f(tid, "dims", px, tilts, z_shift="zs", ctf_file=(defo if cfg["ctf"] else None), dose_file=(dose if cfg["dose"] else None), voltage=volt, amp_contrast=amp, cs=cs)), {"sp": sp}

    def post(self, cx, cfg, inp, res):
        if cfg["mismatch"]:
            return [("length_mismatch_rejected", z3.BoolVal(False))]
        pos = frames.RowPos(res.space).val.t
        F = lambda n: z3.Function(n, z3.IntSort(), z3.RealSort())(pos)
        want = ["tomo_num", "pixelsize", "tomo_x", "tomo_y", "tomo_z", "z_shift", "tilt_angle"] + (["defocus"] if cfg["ctf"] else []) + (["exposure"] if cfg["dose"] else []) + ["voltage", "amp_contrast", "cs"]
        cl = [("columns", z3.BoolVal(list(res.cols) == want)), ("one_row_per_tilt", res.space.n.t == inp["sp"].n.t, ())]
        if list(res.cols) != want:
            return cl
        r = res.row
        cl.append(("tilt_i", zr(r["tilt_angle"]) == F("tilt"), ()))
        if cfg["ctf"]:
            cl.append(("defocus_i", zr(r["defocus"]) == F("defocus_mean"), ()))
        if cfg["dose"]:
            cl.append(("exposure_i", zr(r["exposure"]) == F("dose"), ()))
        cl.append(("tomogram_constants", z3.And(zr(r["tomo_num"]) == z3.Real("tomo_id"), zr(r["pixelsize"]) == z3.Real("pixel_size"), zr(r["tomo_x"]) == z3.Real("dim_x"), zr(r["tomo_y"]) == z3.Real("dim_y"),
                                                zr(r["tomo_z"]) == z3.Real("dim_z"), zr(r["z_shift"]) == z3.Real("zshift"), zr(r["voltage"]) == z3.Real("voltage"), zr(r["amp_contrast"]) == z3.Real("amp_contrast"), zr(r["cs"]) == z3.Real("cs")), ()))
        return cl

    def raises(self, cx, cfg, inp, exc):
        return z3.BoolVal(cfg["mismatch"] is not None and exc.exc_type == "ValueError")


class _Tomos(frames._Generic):
    """ioutils.tlt_load(tomo_list).astype(int): the tomogram numbers; iterating binds an arbitrary one"""

    def __init__(self):
        self.t = SV(z3.Real("tomogram"))
        self.n = SV(z3.Int("n_tomograms"))

    def astype(self, *a, **k):
        return self

    def __sym_len__(self):
        return self.n

    def __getitem__(self, k):
        # some element of the list, not known to be the one of the current iteration
        return SV(ctx().fresh("tomogram_at", "Real"))

    def __generic_for__(self, interp, st, env):
        from vfw.models import kernels

        def bind(e):
            e.vars[st.target.id] = self.t
            return []
        kernels.generic_body(interp, st, env, bind)


class _WedgeAccum(frames._Generic):
    def __init__(self):
        self.pieces, self.dropna_args, self.reset = [], None, False
        self.shape = (SV(ctx().fresh("n_rows", "Int")), 12)

    def dropna(self, **k):
        self.dropna_args = k
        return self

    def reset_index(self, drop=False, inplace=False, **k):
        self.reset = bool(drop and inplace)


class WedgeListSgBatch(Contract):
    """create_wedge_list_sg_batch, one arbitrary tomogram of its loop: create_wedge_list_sg (contract above) is called with THAT tomogram's number,
    dimensions, z-shift and files (pattern with the number substituted) and the given constants; its table is appended to the result"""
    prop = "C17"
    module = "wedgeutils"
    qual = "create_wedge_list_sg_batch"
    configs = [{"ctf": True, "dose": True}]  # without ctf / dose patterns the file variables are loop-carried Nones, which the arbitrary-iteration model havocs: bounded only

    def cfg_name(self, cfg):
        return f"ctf={cfg['ctf']},dose={cfg['dose']}"

    def bind(self, cx, cfg):
        tomos = _Tomos()
        dims = frames.KeyedTable("dims", "tomo_id", ["x", "y", "z"])
        zs = frames.KeyedTable("zshift", "tomo_id", ["z_shift"])
        cx.assume(z3.And(dims.has(tomos.t.t), zs.has(tomos.t.t)))  # requires: the per-tomogram tables list every requested tomogram
        rec = {"calls": [], "loaded": []}

        class Io:
            @staticmethod
            def tlt_load(x, **k):
                rec["loaded"].append(("tlt", x))
                return tomos

            @staticmethod
            def dimensions_load(x, *a, **k):
                rec["loaded"].append(("dims", x))
                return dims

            @staticmethod
            def z_shift_load(x, **k):
                rec["loaded"].append(("zs", x))
                return zs

            @staticmethod
            def fileformat_replace_pattern(fmt, num, letter, **k):
                return ("file", fmt, num, letter)

        acc = []

        class PD:
            @staticmethod
            def DataFrame(*a, **k):
                w = _WedgeAccum()
                acc.append(w)
                return w

            @staticmethod
            def concat(parts, **k):
                parts = list(parts)
                if len(parts) == 2 and isinstance(parts[0], _WedgeAccum):
                    parts[0].pieces.append(parts[1])
                    return parts[0]
                raise sym.Unsupported("concat form")

        def single(*a, **k):
            rec["calls"].append((a, k))
            return ("single-table", len(rec["calls"]))
        g = common.base_globals()
        g.update({"ioutils": Io, "pd": PD})
        it = Interp("wedgeutils", g, contracts={"create_wedge_list_sg": single})
        f = it.function("create_wedge_list_sg_batch")
        px = SV(z3.Real("pixel_size"))
        consts = {"voltage": SV(z3.Real("voltage")), "amp_contrast": SV(z3.Real("amp_contrast")), "cs": SV(z3.Real("cs"))}

        def thunk():
            rec["calls"], rec["loaded"] = [], []
            acc.clear()
            r = f("tomo_list", px, "tlt_$xxx", tomo_dim="dims_arg", z_shift="zs_arg", ctf_file_format=("ctf_$xxx" if cfg["ctf"] else None), ctf_file_type="ctffind4",
                  dose_file_format=("dose_$xxx" if cfg["dose"] else None), **consts)
            return dict(rec, ret=r, acc=list(acc))
        return thunk, {"tomos": tomos, "dims": dims, "zs": zs, "px": px, "consts": consts}

    def post(self, cx, cfg, inp, res):
        t, dims, zs = inp["tomos"].t, inp["dims"], inp["zs"]
        cl = [("inputs_loaded_from_the_given_arguments", z3.BoolVal(sorted(res["loaded"]) == sorted([("tlt", "tomo_list"), ("dims", "dims_arg"), ("zs", "zs_arg")]))),
              ("one_call_per_tomogram_appended_to_the_result", z3.BoolVal(len(res["calls"]) == 1 and len(res["acc"]) == 1 and res["acc"][0].pieces == [("single-table", 1)] and res["ret"] is res["acc"][0] and res["acc"][0].reset))]
        if len(res["calls"]) != 1:
            return cl
        a, k = res["calls"][0]
        fileof = lambda fmt: ("file", fmt, t, "x")

        def same(x, y):
            if x is None or y is None:
                return x is y
            return isinstance(x, tuple) and len(x) == 4 and x[0] == "file" and x[1] == y[1] and x[2] is y[2] and x[3] == y[3]
        cl.append(("called_for_this_tomogram", z3.BoolVal(len(a) == 1 and a[0] is t)))
        td = k.get("tomo_dim")
        okd = hasattr(td, "__len__") and len(td) == 3
        cl.append(("dimensions_are_those_of_this_tomogram", z3.And(*[zr(td[i]) == dims.fn[c](t.t) for i, c in enumerate("xyz")]) if okd else z3.BoolVal(False), ()))
        cl.append(("z_shift_is_that_of_this_tomogram", zr(k.get("z_shift")) == zs.fn["z_shift"](t.t) if isinstance(k.get("z_shift"), SV) else z3.BoolVal(False), ()))
        cl.append(("files_are_the_patterns_with_this_tomograms_number", z3.BoolVal(same(k.get("tlt_file"), fileof("tlt_$xxx")) and same(k.get("ctf_file"), fileof("ctf_$xxx") if cfg["ctf"] else None)
                                                                                  and same(k.get("dose_file"), fileof("dose_$xxx") if cfg["dose"] else None) and k.get("ctf_file_type") == "ctffind4")))
        cl.append(("pixel_size_and_microscope_constants_forwarded", z3.BoolVal(k.get("pixel_size") is inp["px"] and all(k.get(n) is v for n, v in inp["consts"].items()))))
        return cl

    def replay(self, clause, model, cfg):
        from rtc import c17 as r
        return r.replay_kind("wedge_sg")



class _TiltsOf:
    """ioutils.tlt_load(<tilt file>): the tilt angles of one file; min / max are uninterpreted functions of the file"""

    def __init__(self, src):
        self.src, self.cast = src, None

    def astype(self, t, *a, **k):
        self.cast = t
        return self


class _EmTable(frames._Generic):
    def __init__(self, columns):
        self.columns0, self.cols, self.order = list(columns), {}, []

    def __setitem__(self, k, v):
        self.cols[k] = v
        self.order.append(k)

    def to_numpy(self, *a, **k):
        return _NumpyOf(self)


class _NumpyOf:
    """table.to_numpy(): (rows, cols) array of the table's columns at the time of the call"""

    def __init__(self, table):
        self.src = ("to_numpy", table, dict(table.cols))
        self.shape = ("rows", "cols")

    def reshape(self, shape, *a, **k):
        return _Reshaped(self.src, tuple(shape))


class _Reshaped:
    def __init__(self, src, shape):
        self.src, self.shape_arg, self.cast = src, shape, None

    def astype(self, t, *a, **k):
        self.cast = t
        return self


class WedgeListEmBatch(Contract):
    """create_wedge_list_em_batch, one arbitrary tomogram of its loop: the tilt file is the pattern with THAT tomogram's number, exactly one
    minimum and one maximum of ITS tilt angles are appended (so row i of min_angle / max_angle belongs to tomogram i), the table's columns are
    (tomo_num, min_angle, max_angle) in that order, and the EM file (when requested) is written from the finished table as (1, n, 3) float32"""
    prop = "C17"
    module = "wedgeutils"
    qual = "create_wedge_list_em_batch"
    configs = [{"out": False}, {"out": True}]

    def cfg_name(self, cfg):
        return f"output_file={cfg['out']}"

    def bind(self, cx, cfg):
        import numpy as _np
        tomos = _Tomos()
        rec = {"loaded": [], "written": [], "tables": []}

        class Io:
            @staticmethod
            def tlt_load(x, **k):
                rec["loaded"].append(x)
                return tomos if isinstance(x, str) else _TiltsOf(x)

            @staticmethod
            def fileformat_replace_pattern(fmt, num, letter, **k):
                return ("file", fmt, num, letter)

        class PD:
            @staticmethod
            def DataFrame(*a, columns=None, **k):
                if a or k or columns is None:
                    raise sym.Unsupported("DataFrame form")
                t = _EmTable(columns)
                rec["tables"].append(t)
                return t

        base = npm.NP()

        class NPx:
            single = _np.single

            def __getattr__(self, n):
                return getattr(base, n)

            @staticmethod
            def min(x, *a, **k):
                if isinstance(x, _TiltsOf) and not a and not k:
                    return ("min", x)
                raise sym.Unsupported("np.min form")

            @staticmethod
            def max(x, *a, **k):
                if isinstance(x, _TiltsOf) and not a and not k:
                    return ("max", x)
                raise sym.Unsupported("np.max form")

            @staticmethod
            def asarray(x, *a, **k):
                if isinstance(x, kernels.SiteList) and not a and not k:
                    return x
                raise sym.Unsupported("np.asarray form")

        class Em:
            @staticmethod
            def write(path, arr, header=None, overwrite=False, **k):
                rec["written"].append((path, arr, header, overwrite))

        g = common.base_globals()
        g.update({"ioutils": Io, "pd": PD, "np": NPx(), "emfile": Em})
        it = Interp("wedgeutils", g, contracts={})
        f = it.function("create_wedge_list_em_batch")

        def thunk():
            rec["loaded"], rec["written"], rec["tables"] = [], [], []
            r = f("tomo_list", "tlt_$xxx", output_file=("wl.em" if cfg["out"] else None))
            return dict(rec, ret=r)
        return thunk, {"tomos": tomos}

    def post(self, cx, cfg, inp, res):
        tomos, t = inp["tomos"], inp["tomos"].t
        tb = res["tables"][0] if len(res["tables"]) == 1 else None
        cl = [("one_table_with_the_three_em_columns_returned", z3.BoolVal(tb is not None and res["ret"] is tb and tb.columns0 == ["tomo_num", "min_angle", "max_angle"]
                                                                           and sorted(tb.cols) == sorted(tb.columns0)))]
        if tb is None or sorted(tb.cols) != sorted(tb.columns0):
            return cl
        cl.append(("tomogram_column_is_the_requested_list_in_order", z3.BoolVal(tb.cols["tomo_num"] is tomos and res["loaded"][:1] == ["tomo_list"])))

        def one(col, kind):
            v = tb.cols[col]
            if not isinstance(v, kernels.SiteList) or len(v.sites) != 1:
                return False
            s = v.sites[0]
            val = s.value
            if not (isinstance(val, tuple) and len(val) == 2 and val[0] == kind and isinstance(val[1], _TiltsOf)):
                return False
            src = val[1].src
            # appended on every iteration (no branch condition beyond the loop domain), from this tomogram's file
            unconditional = len(s.facts) == len(s.domain)
            return unconditional and isinstance(src, tuple) and src[:2] == ("file", "tlt_$xxx") and src[2] is t and src[3] == "x"
        cl.append(("min_angle_row_is_the_minimum_of_this_tomograms_tilt_file", z3.BoolVal(one("min_angle", "min"))))
        cl.append(("max_angle_row_is_the_maximum_of_this_tomograms_tilt_file", z3.BoolVal(one("max_angle", "max"))))
        if cfg["out"]:
            w = res["written"]
            ok = len(w) == 1 and w[0][0] == "wl.em" and w[0][3] is True
            if ok:
                arr = w[0][1]
                ok = getattr(arr, "cast", None) is __import__("numpy").single and isinstance(arr.src, tuple) and arr.src[0] == "to_numpy" and arr.src[1] is tb \
                    and sorted(arr.src[2]) == sorted(tb.columns0) and arr.shape_arg == (1, "rows", "cols")
            cl.append(("em_file_written_from_the_finished_table_as_1_n_3_float32", z3.BoolVal(bool(ok))))
        else:
            cl.append(("no_file_written_without_output_file", z3.BoolVal(res["written"] == [])))
        return cl

    def replay(self, clause, model, cfg):
        from rtc import c17 as r
        return r.replay_kind("wedge_em")


# ---------------------------------------------------------------------------------------------------------------------------------
# Mdoc image table operations (labels != positions after sorting)
from vfw.models import ptable, kernels


class _ImgTable(ptable.PTable):
    """Mdoc.imgs: a position-function table whose index labels L(i) are pairwise different but need not equal the positions (after sort_by_tilt)"""

    def __init__(self, names, prefix, int_cols=()):
        ptable.PTable.__init__(self, names, prefix, int_cols=int_cols)
        self.L = z3.Function(f"{prefix}label", z3.IntSort(), z3.IntSort())
        a, b = z3.Ints("a!lab b!lab")
        n = sym.to_z3(self.n)
        ctx().assume(z3.ForAll([a, b], z3.Implies(z3.And(a >= 0, a < n, b >= 0, b < n, a != b), self.L(a) != self.L(b))))

    def __getitem__(self, c):
        if isinstance(c, ptable.PMask):
            return _ImgView(self, c)
        return ptable.PTable.__getitem__(self, c)

    @property
    def index(self):
        return _ImgIndex(self, None)

    @property
    def loc(self):
        return _ImgLoc(self)

    @property
    def iloc(self):
        return _ImgLoc(self, positional=True)

    def sort_values(self, by=None, **k):
        """assumed pandas contract: a new table holding the same rows (cells and index labels travel together) in ascending order of column `by`"""
        if not isinstance(by, str) or by not in self.cols or k.get("ascending", True) is not True or k.get("inplace"):
            raise Unsupported("sort_values form")
        cx = ctx()
        u = next(cx.counter)
        pi = z3.Function(f"sorted_from!{u}", z3.IntSort(), z3.IntSort())
        inv = z3.Function(f"sorted_to!{u}", z3.IntSort(), z3.IntSort())
        n = sym.to_z3(self.n)
        a, b = z3.Ints(f"a!{u} b!{u}")
        key = self.cols[by]
        cx.axiom("DataFrame.sort_values(by=col): a permutation of the rows, ascending in col",
                 z3.And(z3.ForAll([a], z3.Implies(z3.And(a >= 0, a < n), z3.And(pi(a) >= 0, pi(a) < n, inv(pi(a)) == a, inv(a) >= 0, inv(a) < n, pi(inv(a)) == a))),
                        z3.ForAll([a, b], z3.Implies(z3.And(a >= 0, a <= b, b < n), key(pi(a)) <= key(pi(b))))))
        new = _ImgTable.__new__(_ImgTable)
        new.__dict__.update(self.__dict__)
        new.cols = {c: (lambda i, g=g: g(pi(i))) for c, g in self.cols.items()}
        new.initial = dict(new.cols)
        oldL = self.L
        new.L = lambda i: oldL(pi(i))
        new.sorted_from, new.sorted_by, new.source = pi, by, self
        new._first, new.counts = {}, []
        return new

    def __setitem__(self, c, v):
        if isinstance(v, range) or (isinstance(v, tuple) and v and v[0] == "range"):
            if isinstance(v, range):
                raise Unsupported("concrete range assigned to a symbolic-length table")
            self.cols[c] = (lambda i: z3.ToReal(i))
            self.range_assigned = getattr(self, "range_assigned", []) + [(c, v[1])]
            return
        return ptable.PTable.__setitem__(self, c, v)

    @property
    def columns(self):
        t = self

        class Cols:
            def get_loc(self, name):
                return ("column-position-of", name)
        return Cols()


class _ImgView:
    """table[mask]: the masked rows in order; only its index is used"""

    def __init__(self, t, mask):
        self.t, self.mask = t, mask

    @property
    def index(self):
        return _ImgIndex(self.t, self.mask)


class _ImgIndex:
    """labels of the (masked) rows in order: [k] is the label of the k-th such row, sigma(k) its position (assumed pandas / numpy contract:
    boolean selection keeps the order -- strictly increasing enumeration sigma of the masked positions, onto them)"""

    def __init__(self, t, mask):
        self.t, self.mask = t, mask
        n = sym.to_z3(t.n)
        cx = ctx()
        u = next(cx.counter)
        self.count = z3.Int(f"n_sel!{u}")
        self.sigma = z3.Function(f"sel_pos!{u}", z3.IntSort(), z3.IntSort())
        self.rank = z3.Function(f"sel_rank!{u}", z3.IntSort(), z3.IntSort())
        m = mask.f if mask is not None else (lambda i: z3.BoolVal(True))
        self.m = m
        k, j, i = z3.Ints(f"k!{u} j!{u} i!{u}")
        S, Rk = self.sigma, self.rank
        cx.axiom("boolean selection keeps the masked rows in order (pandas contract): sigma enumerates the masked positions increasingly, rank is its inverse",
                 z3.And(self.count >= 0, self.count <= n,
                        z3.ForAll([k], z3.Implies(z3.And(k >= 0, k < self.count), z3.And(S(k) >= 0, S(k) < n, m(S(k)), Rk(S(k)) == k))),
                        z3.ForAll([k, j], z3.Implies(z3.And(k >= 0, k < j, j < self.count), S(k) < S(j))),
                        z3.ForAll([i], z3.Implies(z3.And(i >= 0, i < n, m(i)), z3.And(Rk(i) >= 0, Rk(i) < self.count, S(Rk(i)) == i)))))

    def __getitem__(self, k):
        kt = sym.to_z3(k)
        ctx().oblige("safe.index-in-range", z3.And(kt >= 0, kt < self.count), kind="safe", detail="index[k] of the (kept) images")
        return _ImgLabel(self.t, self.t.L(self.sigma(kt)))


class _ImgLabel:
    def __init__(self, t, term):
        self.t, self.term = t, term


class _ImgLoc:
    def __init__(self, t, positional=False):
        self.t, self.positional = t, positional

    def __setitem__(self, k, v):
        if self.positional and isinstance(k, tuple) and len(k) == 2 and isinstance(k[1], tuple) and k[1][0] == "column-position-of":
            k = (k[0], k[1][1])
        if not (isinstance(k, tuple) and len(k) == 2 and isinstance(k[0], _ImgLabel) and isinstance(k[1], str)):
            raise Unsupported("imgs.loc assignment form")
        lab, col = k
        t = self.t
        val = ptable._scalar(v)
        if self.positional:
            # .iloc[x, col]: x is used as a POSITION (here: the number that is really an index label); out of range raises IndexError
            ctx().oblige("safe.index-in-range", z3.And(lab.term >= 0, lab.term < sym.to_z3(t.n)), kind="safe", detail="positional row access")
            mask = lambda i, lt=lab.term: i == lt
        else:
            mask = lambda i, lt=lab.term: t.L(i) == lt
        rec = getattr(t, "recording", None)
        if rec is not None:
            rec.append((col, mask, val))
            return
        t.cols[col] = (lambda i, old=t.cols[col], mask=mask, val=val: z3.If(mask(i), val, old(i)))


class _Requested(frames._Generic):
    """the list of image numbers to remove: iterating it binds an arbitrary requested number (Req(idx) holds)"""
    REQ = z3.Function("requested", z3.IntSort(), z3.BoolSort())

    def __init__(self, table, bound):
        self.table, self.bound = table, bound

    def __generic_for__(self, interp, st, env):
        cx = ctx()
        idx = cx.fresh("req_index", "Int")
        t = self.table
        t.recording = []
        n_pc = len(cx.pc)
        self.dom = lambda x: z3.And(_Requested.REQ(x), x >= 0, x < self.bound())
        cx.pc.append((self.dom(idx), st.lineno, "domain"))
        cx._solver = None
        try:
            env.vars[st.target.id] = SV(idx)
            interp.block(st.body, env)
        finally:
            del cx.pc[n_pc:]
            cx._solver = None
        rec, t.recording = t.recording, None
        j = z3.Int(f"j!{next(cx.counter)}")
        for col, mask, val in rec:
            # stores of ALL iterations: a cell changes iff some requested number's store hits it
            t.cols[col] = (lambda i, old=t.cols[col], mask=mask, val=val, idx=idx, j=j: z3.If(z3.Exists([j], z3.And(self.dom(j), z3.substitute(mask(i), (idx, j)))), val, old(i)))
        self.loop_var = idx


class MdocRemoveImages(Contract):
    """Mdoc.remove_images(indices, kept_only): exactly the images whose number among the kept (or all) images, counted in the current order, is
    requested get Removed = True; no other cell changes -- also when the index labels differ from the positions (after sort_by_tilt)"""
    prop = "C17"
    module = "mdoc"
    qual = "Mdoc.remove_images"
    configs = [{"kept_only": True}, {"kept_only": False}]

    def cfg_name(self, cfg):
        return f"kept_only={cfg['kept_only']}"

    def bind(self, cx, cfg):
        from vfw.models import misc
        it = Interp("mdoc", common.base_globals())
        cols = ["TiltAngle", "ZValue", "Removed", "ExposureDose"]
        T = _ImgTable(cols, "img_", int_cols=("ZValue", "Removed"))
        i = z3.Int("i!rm")
        cx.assume(z3.ForAll([i], z3.Or(T.fn["Removed"](i) == 0, T.fn["Removed"](i) == 1)))
        me = misc.SelfObj(it, "Mdoc", imgs=T)
        holder = {}

        def bound():
            return holder["index"].count
        req = _Requested(T, bound)
        # the bound of the requested numbers is the number of kept (or all) images: requires 0 <= number < that count
        orig_index = _ImgIndex

        def thunk():
            made = []
            real_init = _ImgIndex.__init__

            def spy(self_, t, mask):
                real_init(self_, t, mask)
                made.append(self_)
                holder["index"] = self_
            _ImgIndex.__init__ = spy
            try:
                r = it.function("Mdoc.remove_images").bind(me)(req, kept_only=cfg["kept_only"])
            finally:
                _ImgIndex.__init__ = real_init
            return {"ret": r, "indexes": made}
        return thunk, {"T": T, "req": req, "cols": cols}

    def post(self, cx, cfg, inp, res):
        T, cols = inp["T"], inp["cols"]
        n = sym.to_z3(T.n)
        ok = len(res["indexes"]) == 1
        cl = [("one_enumeration_of_the_images_taken_before_the_loop", z3.BoolVal(bool(ok)))]
        if not ok:
            return cl
        ix = res["indexes"][0]
        i, j = z3.Ints("i!pm j!pm")
        kept0 = lambda x: T.fn["Removed"](x) == 0
        sel = (lambda x: kept0(x)) if cfg["kept_only"] else (lambda x: z3.BoolVal(True))
        cl.append(("numbers_refer_to_the_kept_images" if cfg["kept_only"] else "numbers_refer_to_all_images",
                   z3.ForAll([i], z3.Implies(z3.And(i >= 0, i < n), ix.m(i) == sel(i))), ()))
        # spec: image at position i is flagged iff it is selected and its number among the selected images (in the current order) is requested
        flagged = lambda x: z3.And(sel(x), _Requested.REQ(ix.rank(x)))
        cl.append(("exactly_the_requested_images_are_flagged_removed", z3.ForAll([i], z3.Implies(z3.And(i >= 0, i < n), sym.real(T.cols["Removed"](i)) == z3.If(flagged(i), 1, sym.real(T.fn["Removed"](i))))), ()))
        cl.append(("no_other_cell_changes", z3.BoolVal(all(not T.changed(c) for c in cols if c != "Removed"))))
        return cl

    def replay(self, clause, model, cfg):
        from rtc import c17 as r
        return r.replay_kind("mdoc_ops")


class MdocSortByTilt(Contract):
    """Mdoc.sort_by_tilt: the image table is replaced by the same rows (with their index labels) in ascending tilt order; with reset_z_value the
    ZValue column becomes 0..n-1 in the new order; nothing else changes"""
    prop = "C17"
    module = "mdoc"
    qual = "Mdoc.sort_by_tilt"
    configs = [{"reset": False}, {"reset": True}]

    def cfg_name(self, cfg):
        return f"reset_z_value={cfg['reset']}"

    def bind(self, cx, cfg):
        from vfw.models import misc
        g = common.base_globals()
        g["range"] = lambda *a: ("range", a[0]) if len(a) == 1 and isinstance(a[0], SV) else range(*a)
        it = Interp("mdoc", g)
        cols = ["TiltAngle", "ZValue", "Removed", "ExposureDose"]
        T = _ImgTable(cols, "img_", int_cols=("ZValue", "Removed"))
        me = misc.SelfObj(it, "Mdoc", imgs=T)
        return (lambda: it.function("Mdoc.sort_by_tilt").bind(me)(reset_z_value=cfg["reset"])), {"T": T, "me": me, "cols": cols}

    def post(self, cx, cfg, inp, res):
        T, out, cols = inp["T"], inp["me"].imgs, inp["cols"]
        ok = isinstance(out, _ImgTable) and getattr(out, "source", None) is T and out.sorted_by == "TiltAngle"
        cl = [("table_replaced_by_its_rows_sorted_by_tilt_angle", z3.BoolVal(bool(ok)))]
        if not ok:
            return cl
        n = sym.to_z3(T.n)
        pi = out.sorted_from
        a, b, i = z3.Ints("a!st b!st i!st")
        same = [c for c in cols if not (cfg["reset"] and c == "ZValue")]
        cl += [("tilt_angles_ascending", z3.ForAll([a, b], z3.Implies(z3.And(a >= 0, a <= b, b < n), out.cols["TiltAngle"](a) <= out.cols["TiltAngle"](b))), ()),
               ("rows_and_their_labels_only_reordered", z3.ForAll([i], z3.Implies(z3.And(i >= 0, i < n), z3.And(out.L(i) == T.L(pi(i)), *[sym.real(out.cols[c](i)) == sym.real(T.cols[c](pi(i))) for c in same]))), ()),
               ("original_table_object_untouched", z3.BoolVal(all(not T.changed(c) for c in cols)))]
        if cfg["reset"]:
            cl.append(("z_values_renumbered_in_the_new_order", z3.ForAll([i], z3.Implies(z3.And(i >= 0, i < n), sym.real(out.cols["ZValue"](i)) == z3.ToReal(i))), ()))
            cl.append(("z_values_cover_all_images", z3.BoolVal(getattr(out, "range_assigned", None) is not None and len(out.range_assigned) == 1 and out.range_assigned[0][0] == "ZValue"
                                                             and z3.is_true(z3.simplify(sym.to_z3(out.range_assigned[0][1]) == n)))))
        return cl

    def replay(self, clause, model, cfg):
        from rtc import c17 as r
        return r.replay_kind("mdoc_ops")


CONTRACTS = [GctfRead, Ctffind4Read, WedgeListSg, WedgeListSgBatch, WedgeListEmBatch, MdocRemoveImages, MdocSortByTilt]
LEVEL = "other"
EXPLANATION = ("Deductive part: the defocus loaders' arithmetic on the generic row (Angstrom -> micrometre, mean = (U+V)/2, copied astigmatism / phase shift, 0 when the phase column is absent) and the row pairing of "
               "create_wedge_list_sg (i-th tilt with i-th defocus and exposure, per-tomogram constants, one row per tilt, length mismatch rejected); for an arbitrary tomogram of create_wedge_list_sg_batch's loop the call of "
               "create_wedge_list_sg with that tomogram's number, dimensions and z-shift (looked up by tomogram number), files and constants; Mdoc.remove_images (exactly the requested kept / all images, counted in the "
               "current order, get Removed = True, also when index labels differ from positions after sorting; no other cell changes) and Mdoc.sort_by_tilt (same rows with their labels in ascending tilt order, optional "
               "renumbering of ZValue). Bounded part: mdoc text round trip / write, every file-reading path, end-to-end batch wedge lists and the EM wedge list, with files written by an independent writer.")
ASSUMPTIONS = ["Starfile.read / pandas.read_csv return the table in the file (bounded stand-in reads real files); ioutils loaders return array inputs unchanged",
               "string parsing and formatting (mdoc text, file name patterns) are outside deductive reach",
               "pandas contracts assumed for the Mdoc table: boolean selection keeps the masked rows in order, .loc[label, col] = v writes the row with that label, .iloc[pos, col] the row at that position, "
               "sort_values(by=col) is a permutation of the rows (labels travel with them) ascending in col; index labels are pairwise different"]


def run(ck):
    for C in CONTRACTS:
        ck.run_contract(C())
    from rtc import c17 as r
    n = 60 if ck.tier == "quick" else 1000
    ck.bounded_run("metadata_files", r.gen_cases(ck.seed, n), r.run_case, ref="rtc.c17:run_case",
                   rule="grammar-generated mdocs (1..80 ZValue sections, negative / float / text values, titles), any index subset to remove; tilt / dose files, gctf STAR and ctffind4 text files with 1..80 rows; 1..5 tomograms "
                        "with per-tomogram dimensions and z-shifts. distinct = (case, kind)",
                   bound=f"{n} cases, <= 80 images, <= 5 tomograms")
