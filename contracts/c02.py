"""C02 -- STAR files.  The substance of the property is character-level tokenising and str(float) formatting, which no back end
here decides; it is checked by the bounded stand-in (exhaustive short lines, grammar-generated texts, write/read round trips
against an independent tokenizer).  Deductive: the token-queue helpers the parser is built from."""
import z3
from vfw import sym
from vfw.sym import SV, SB, ctx
from vfw.engine import Contract
from vfw.interp import Interp
from vfw.models import kernels, misc
from . import common


def _interp():
    g = common.base_globals()
    it = Interp("starfileio", g)
    it.globals["Token"] = misc.ClassRef(it, "Token")
    it.globals["TokenType"] = misc.ClassRef(it, "TokenType")
    it.globals["IOError"] = IOError
    return it


class _Queue(Contract):
    prop = "C02"
    module = "starfileio"

    def bind(self, cx, cfg):
        it = _interp()
        st = kernels.SymStack()
        t = SV(z3.Int("wanted_type"))
        cx.assume(z3.And(t.t >= 0, t.t <= 4))
        n0 = st.n.t
        return (lambda: it.function(self.qual)(st, t)), {"st": st, "t": t.t, "n0": n0}


class Check(_Queue):
    qual = "Token.check"

    def post(self, cx, cfg, inp, res):
        st = inp["st"]
        top = st.T(inp["n0"] - 1)
        return [("true_iff_top_matches", sym.to_bool(res) == (top == inp["t"]), ()), ("queue_unchanged", st.n.t == inp["n0"], ()), ("queue_not_empty_on_return", inp["n0"] > 0, ())]

    def raises(self, cx, cfg, inp, exc):
        return z3.And(z3.BoolVal(exc.exc_type in ("IOError", "OSError")), inp["n0"] == 0)


class Consume(_Queue):
    qual = "Token.consume"

    def post(self, cx, cfg, inp, res):
        st = inp["st"]
        top = st.T(inp["n0"] - 1)
        return [("returns_the_matching_top_token", z3.And(top == inp["t"], res.pos == inp["n0"] - 1, inp["n0"] > 0), ()), ("exactly_one_token_removed", st.n.t == inp["n0"] - 1, ())]

    def raises(self, cx, cfg, inp, exc):
        st = inp["st"]
        return z3.And(z3.BoolVal(exc.exc_type in ("IOError", "OSError")), z3.Or(inp["n0"] == 0, st.T(inp["n0"] - 1) != inp["t"]), st.n.t == inp["n0"])


class CheckThenConsume(_Queue):
    qual = "Token.check_then_consume"

    def post(self, cx, cfg, inp, res):
        st = inp["st"]
        top = st.T(inp["n0"] - 1)
        match = z3.And(inp["n0"] > 0, top == inp["t"])
        if res is None:
            return [("none_only_when_empty_or_not_matching", z3.Not(match), ()), ("queue_unchanged", st.n.t == inp["n0"], ())]
        return [("pops_the_matching_top_token", z3.And(match, res.pos == inp["n0"] - 1, st.n.t == inp["n0"] - 1), ())]


CONTRACTS = [Check, Consume, CheckThenConsume]
LEVEL = "exploration"
EXPLANATION = ("bounded: (1) Token.tokenize compared with an independent tokenizer on ALL lines up to length 3 (4 in one case of eight) over the class alphabet {space, TAB, '#', '_', letter, digit, '.', '-', CR} plus random longer lines; "
               "(2) hand-built STAR texts from a grammar (comments / blank lines in the permitted places, tabs, runs of spaces, trailing whitespace, CRLF / LF, with / without final newline) read by the real reader and an independent one; "
               "(3) write -> read round trips of 1..4 random tables. The deductive contracts cover only the token-queue helpers (check / consume / check_then_consume) and are reported separately; they do not make this a proof.")
ASSUMPTIONS = ["text tokens free of whitespace and '#', not starting with '_', not purely numeric per text column; finite values", "str(float) formatting and character-level tokenising are outside every back end available here"]


def run(ck):
    for C in CONTRACTS:
        ck.run_contract(C())
    from rtc import c02 as r
    n = 100 if ck.tier == "quick" else 3000
    ck.bounded_run("star_files", r.gen_cases(ck.seed, n), r.run_case, ref="rtc.c02:run_case",
                   rule="write/read round trips (1..4 tables, 1..200 rows, 1..30 int/float/text columns, four specifier families, numbered / un-numbered headers), grammar-generated STAR texts, "
                        "exhaustive tokenizer comparison on short lines. distinct = (case, kind)",
                   bound=f"{n} cases")
