"""C10 -- cyclic symmetry expansion (Motl.split_in_asymmetric_subunits)."""
import z3
from vfw import sym, theory
from vfw.sym import SV, ctx, to_z3
from vfw.engine import Contract
from vfw.models import frames
from . import common
from .common import MOTL_COLS, zr

XYZ = ("x", "y", "z")
HALF = z3.RealVal("1/2")
CHANGED = {"x", "y", "z", "shift_x", "shift_y", "shift_z", "phi", "theta", "psi", "geom2", "geom5", "subtomo_id"}


class SymDigits:
    """the digit string matched by re.findall(r"\\d+", symmetry)[-1]; int() of it is the fold number"""

    def __init__(self, n):
        self.n = n

    def __sym_int__(self):
        return self.n


class SymSymmetry:
    """a symmetry string 'C<n>' / 'c<n>' with symbolic n >= 1"""

    def __init__(self, n, letter):
        self.n, self.letter = n, letter

    def __sym_isinstance__(self, ts):
        return str in ts

    def lower(self):
        return SymSymmetry(self.n, self.letter.lower())

    def startswith(self, p):
        return self.letter.startswith(p) if len(p) == 1 else False


class ReStub:
    @staticmethod
    def findall(pattern, s):
        if pattern == "\\d+" and isinstance(s, SymSymmetry):
            return [SymDigits(s.n)]
        raise sym.Unsupported("re.findall form")


class SplitSubunits(Contract):
    """Motl.split_in_asymmetric_subunits for a symbolic fold number n >= 1: generic parent row x generic subunit index"""
    prop = "C10"
    module = "cryomotl"
    qual = "Motl.split_in_asymmetric_subunits"
    configs = [{"form": "number"}, {"form": "C"}, {"form": "c"}]

    def cfg_name(self, cfg):
        return {"number": "n given as a number", "C": "'C<n>'", "c": "'c<n>'"}[cfg["form"]]

    def bind(self, cx, cfg):
        it = common.motl_interp(extra={"re": ReStub})
        df = common.fresh_motl_frame()
        df.unique_cols = ("subtomo_id",)  # requires: subtomogram numbers identify the particles of the input list
        me = common.motl_obj(it, df)
        n = SV(z3.Int("nfold"))
        cx.assume(n.t >= 1)
        sub = frames.Space(n=n, tag="sub")  # index space of the n subunits: arrays of length n allocated by the code line up with it
        k = frames.RowPos(sub).val.t
        s = [SV(z3.Real(f"s{i}")) for i in range(3)]
        arg = n if cfg["form"] == "number" else SymSymmetry(n, cfg["form"])
        f = it.function("Motl.split_in_asymmetric_subunits").bind(me)
        return (lambda: f(arg, list(s))), {"me": me, "df": df, "n": n, "s": s, "k": k, "sub": sub, "old": common.old_row()}

    def post(self, cx, cfg, inp, res):
        old, n, k, s = inp["old"], inp["n"].t, inp["k"], [x.t for x in inp["s"]]
        out = getattr(res, "df", None)
        if not isinstance(out, frames.GFrame):
            return [("returns_a_particle_list", z3.BoolVal(False))]
        cl = [("schema_20_fields", z3.BoolVal(list(out.cols) == MOTL_COLS)), ("frame.self_untouched", z3.And(*[zr(inp["me"].df.row[c]) == old[c] for c in MOTL_COLS]))]
        rep = None
        for sp in getattr(cx, "spaces", []):
            r = getattr(sp, "rep", None)
            if r is not None and sp.pos_id == out.space.pos_id:
                rep = r
        ok = rep is not None and rep["src_space"] is inp["df"].space and z3.simplify(to_z3(rep["n"]) - n).eq(z3.IntVal(0))
        cl.append(("n_copies_of_every_input_particle", z3.BoolVal(bool(ok)) if not ok else z3.And(z3.simplify(out.present), to_z3(out.space.n) == to_z3(inp["df"].space.n) * n)))
        if not ok:
            return cl
        cl.append(("copies_of_one_parent_form_a_block", z3.BoolVal(rep.get("sorted_by") == "subtomo_id" and rep.get("block_index") is not None)))
        j = rep.get("block_index")
        if j is not None:
            cl.append(("subunit_index_is_the_place_within_the_parents_block", k == j))
        cl += [
            ("index_reset", z3.BoolVal(out.space.is_range)),
            ("geom5_records_the_parent", zr(out.row["geom5"]) == old["subtomo_id"]),
            ("geom2_is_the_subunit_index_1_to_n", z3.And(zr(out.row["geom2"]) == z3.ToReal(k) + 1, k >= 0, k < n)),
            ("subtomo_id_is_position_plus_one_hence_unique", zr(out.row["subtomo_id"]) == z3.ToReal(frames.RowPos(out.space).val.t) + 1),
            ("other_fields_are_the_parents", z3.And(*[zr(out.row[c]) == old[c] for c in MOTL_COLS if c not in CHANGED])),
        ]
        # orbit relation, stated independently: A = 360 k / n degrees; orientation R Rz(A); position centre + R Rz(A) s
        A = SV(z3.ToReal(k) * (360 / z3.ToReal(n)))
        cA, sA = common.cs_of(A)
        phi, the, psi = (theory.angle_input(a) for a in ("phi", "theta", "psi"))
        R = common.R_zxz(common.cs_of(phi), common.cs_of(the), common.cs_of(psi))
        Rz = [[cA, -sA, 0], [sA, cA, 0], [0, 0, 1]]
        RRz = [[sum(R[a][m] * Rz[m][b] for m in range(3)) for b in range(3)] for a in range(3)]
        Rn = common.R_zxz(common.cs_of(out.row["phi"]), common.cs_of(out.row["theta"]), common.cs_of(out.row["psi"]))
        for a in range(3):
            for b in range(3):
                cl.append((f"orientation_is_R_Rz_360k_over_n[{a}{b}]", Rn[a][b] == RRz[a][b], ("poly", "lift")))
        for i, a in enumerate(XYZ):
            moved = sum((RRz[i][m] * s[m] for m in range(3)), z3.RealVal(0))
            cl.append((f"complete_position_{a}_is_centre_plus_R_Rz_s", zr(out.row[a]) + zr(out.row["shift_" + a]) == old[a] + old["shift_" + a] + moved, ("poly", "lift")))
            cl.append((f"integer_{a}", z3.ToReal(z3.ToInt(zr(out.row[a]))) == zr(out.row[a])))
            cl.append((f"shift_within_half_{a}", z3.And(zr(out.row["shift_" + a]) <= HALF, zr(out.row["shift_" + a]) >= -HALF)))
        return cl

    def replay(self, clause, model, cfg):
        from rtc import c10 as r
        return r.replay_search(cfg["form"])


def lemmas(ck):
    # all n subunits map back to the parent's centre, and are related by rotations about the parent's own z axis
    c, s_, x, y, z = z3.Reals("c s x y z")
    ck.lemma("Rz_inverse_undoes_the_subunit_offset", [c * c + s_ * s_ == 1], z3.And(c * (c * x - s_ * y) + s_ * (s_ * x + c * y) == x, -s_ * (c * x - s_ * y) + c * (s_ * x + c * y) == y), tactics=("poly",))
    c2, s2 = z3.Reals("c2 s2")
    ck.lemma("Rz_compose_is_Rz_of_the_angle_sum", [], z3.And((c * c2 - s_ * s2) * x - (s_ * c2 + c * s2) * y == c * (c2 * x - s2 * y) - s_ * (s2 * x + c2 * y)), tactics=("poly",))


CONTRACTS = [SplitSubunits]
LEVEL = "proof"
EXPLANATION = ("Motl.split_in_asymmetric_subunits on the real AST for a symbolic fold number n >= 1 given as a number, 'C<n>' or 'c<n>': generic parent row x generic subunit index k; "
               "postconditions: n copies per parent in one block, geom5 = parent, geom2 = k+1 in 1..n, unique ids, parent fields copied, orientation matrix R Rz(360k/n), complete position centre + R Rz(360k/n) s, "
               "integer x,y,z and |shift| <= 1/2; back-to-centre and z-axis relation as lemmas. Bounded numeric stand-in for every n of the stated range in addition.")
ASSUMPTIONS = ["requires: subtomogram numbers identify the particles of the input list (sort_values groups the copies of one parent)",
               "assumed contracts: pd.concat([df]*n) stacks n copies, sort_values(by=unique key) groups the copies of a parent in a block of n, np.tile(block,(N,1)) repeats the block per parent, "
               "scipy Rotation from_euler/apply/*/as_euler (matrix semantics, as_euler returns angles of the same matrix), re.findall(r'\\d+', 'C<n>')[-1] is the digit string of n, real arithmetic; "
               "bounded part: float comparison tolerances 1e-6 (orientation matrix entries) and 1e-5 (positions)"]


def run(ck):
    for C in CONTRACTS:
        ck.run_contract(C())
    lemmas(ck)
    from rtc import c10 as r
    ns = [1, 2, 3, 4, 5, 6, 7, 8, 9, 10, 11, 12, 13, 14, 16, 17, 24, 36, 60, 64] if ck.tier == "quick" else list(range(1, 65))
    ck.bounded_run("orbit", r.gen_cases(ck.seed, ns), r.run_case, ref="rtc.c10:run_case",
                   rule="every n in the list x three input forms ('Cn', 'cn', number incl. float-valued) x 1..100 poses (gimbal lock, out-of-range angles, half-integer ties) x offsets (generic, on the axis, along x); distinct = (n, form, size)",
                   bound=f"n in {ns if len(ns) < 30 else '1..64 exhaustive'}, <= 100 particles")
