"""C10 -- cyclic symmetry expansion (Motl.split_in_asymmetric_subunits)."""
import z3
from vfw.engine import Contract
from . import common

CONTRACTS = []
LEVEL = "exploration"
EXPLANATION = ("bounded run-time contract only so far: orbit relation (orientation R*Rz(360k/n), position centre + R*Rz(360k/n)*s, geom5/geom2 bookkeeping, unique ids, "
               "integer x,y,z with |shift|<=0.5) checked on the real code for every n in the stated range; labelled bounded, never counted as proved")
ASSUMPTIONS = ["float comparison tolerances 1e-6 (orientation matrix entries) and 1e-5 (positions)"]


def run(ck):
    for C in CONTRACTS:
        ck.run_contract(C())
    from rtc import c10 as r
    ns = [1, 2, 3, 4, 5, 6, 7, 8, 9, 10, 11, 12, 13, 14, 16, 17, 24, 36, 60, 64] if ck.tier == "quick" else list(range(1, 65))
    ck.bounded_run("orbit", r.gen_cases(ck.seed, ns), r.run_case, ref="rtc.c10:run_case",
                   rule="every n in the list x three input forms ('Cn', 'cn', number incl. float-valued) x 1..100 poses (gimbal lock, out-of-range angles, half-integer ties) x offsets (generic, on the axis, along x); distinct = (n, form, size)",
                   bound=f"n in {ns if len(ns) < 30 else '1..64 exhaustive'}, <= 100 particles")
